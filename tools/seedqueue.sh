#!/bin/bash
# run suite + isolated recheck for several seeds, one after another
for t in "$@"; do /verif/tools/seedsuite.sh "$t"; /verif/tools/seedrecheck.sh "$t"; done

#!/usr/bin/env python3
"""Print the sub-agent prompt for a *behaviour-preserving* refactor of the code
a property is anchored in (used to look for false alarms of the checks)."""
import json, sys
pid = sys.argv[1]
tag = sys.argv[2] if len(sys.argv) > 2 else pid + 'b'
for line in open('/verif/properties.jsonl'):
    p = json.loads(line)
    if p['id'] == pid:
        break
else:
    sys.exit('no such property')
wt = f'/tmp/wt/{tag}'
out = f'/tmp/wt/{tag}-out'
mech = '; '.join(f"{m['name']} ({m['where']})" for m in p['anchors']['mechanism'])
print(f"""You are working in a scratch git worktree of the cylc-flow repository (a Python workflow scheduler) at {wt}. Work ONLY inside {wt} and write your deliverables to {out}/ (create it). Do not read or touch /repo, /verif, or any other directory under /tmp/wt. Do not commit anything. NEVER use `git stash` (the stash is shared by sibling worktrees that other people are using).

PROPERTY ({p['id']}): {p['title']}
Statement: {p['statement']}
The code that enforces it is mainly in: {mech}

TASK: act as a maintainer doing an ordinary clean-up. Produce ONE patch that REFACTORS the functions that enforce this property WITHOUT changing behaviour in any way: the property must still hold exactly as before, for every input and schedule. Make 4-8 independent, realistic refactorings spread over the functions named above (and their close helpers), of the kinds a reviewer would wave through, for example:
 - extract a few lines into a private helper method/function (and call it), or inline a trivial helper;
 - turn a nested `if` into an early `return`/`continue` (or the reverse);
 - rename a local variable; introduce a local alias for a repeated sub-expression;
 - reorder two adjacent statements that are independent of each other;
 - rewrite a condition into an equivalent form (`not (a or b)` <-> `not a and not b`, `x not in s` <-> `not x in s`, `a < b` <-> `b > a`, `if x: return True; return False` <-> `return bool(x)` where x is already bool);
 - replace a loop-with-append by an equivalent comprehension (or the reverse);
 - split a long boolean condition over a named intermediate variable.
Do NOT change public function names or signatures, log/exception messages, SQL text, constants, table contents, or anything observable; do NOT add or remove any check, guard, persistence call or bookkeeping step; do NOT reformat whole files (keep the diff to the lines you actually refactor, 30-150 changed lines in total). Every individual refactoring must be obviously semantics-preserving to a careful reader.

DELIVERABLES in {out}/:
1. patch.diff -- `git -C {wt} diff` of your change.
2. meta.json -- {{"property": "{p['id']}", "kind": "benign-refactor", "files_changed": [...], "refactorings": [{{"function": "...", "what": "...", "why_equivalent": "..."}}, ...], "suite_cmd": "...", "suite_result_with_change": "...", "new_failures_vs_clean_tree": [...]}}

VERIFY YOURSELF before finishing: `/venv/bin/python -m compileall -q cylc/flow` succeeds, and the existing suite still passes with the change applied, from the worktree root: cd {wt} && PATH=/venv/bin:$PATH /venv/bin/python -m pytest -q -p no:cacheprovider --timeout=900 -n 4  (3-6 minutes). A handful of tests fail on the clean tree too in this sandbox (tests/integration/tui/*, tests/unit/test_hostuserutil.py, some reinstall/no-network ones); what matters is that your change adds NO new failures -- if it does, you changed behaviour: fix or drop that refactoring. Leave the change applied in the worktree at the end.
The sandbox has no network. Python is /venv/bin/python (3.12).
Finish with a short report listing the refactorings and the suite result.""")

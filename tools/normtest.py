#!/venv/bin/python
"""Self-test of sa/normalize.py: each case gives a reference module, a changed
module and the normal form expected (None = must be left exactly as written).
Run: /venv/bin/python -B tools/normtest.py   (exit 0 = all cases pass)"""
import ast
import os
import sys
import textwrap

sys.path.insert(0, os.path.dirname(os.path.dirname(os.path.abspath(__file__))))
from sa import normalize  # noqa: E402

REL = 'cylc/flow/m.py'
CASES = []


def case(name, ref, new, want):
    CASES.append((name, textwrap.dedent(ref), textwrap.dedent(new),
                  None if want is None else textwrap.dedent(want)))


REF1 = '''
class K:
    def f(self, itask):
        if itask.ok:
            self.a(itask)
            self.b(itask)
            self.c(itask)
        return 1
'''
case('extract-method statement helper is expanded and dropped', REF1, '''
class K:
    def f(self, itask):
        if itask.ok:
            self._ab(itask)
            self.c(itask)
        return 1

    def _ab(self, t):
        """doc"""
        self.a(t)
        self.b(t)
''', REF1)

case('expression helper (staticmethod) in a condition', '''
class K:
    def f(self, itask, flag):
        if itask.w and (itask.x > 0 or itask.y > 0) and flag:
            return False
        return True
''', '''
class K:
    def f(self, itask, flag):
        if itask.w and self._lined_up(itask) and flag:
            return False
        return True

    @staticmethod
    def _lined_up(t):
        return t.x > 0 or t.y > 0
''', '''
class K:
    def f(self, itask, flag):
        if itask.w and (itask.x > 0 or itask.y > 0) and flag:
            return False
        return True
''')

case('value helper assigned to a local', '''
def g(a, b):
    s = a + b
    t = s * 2
    return t
''', '''
def g(a, b):
    t = _twice_sum(a, b)
    return t


def _twice_sum(x, y):
    s = x + y
    return s * 2
''', '''
def g(a, b):
    s = a + b
    t = s * 2
    return t
''')

case('procedure helper with an early return: tail-structured, expanded', '''
def g(a):
    if not a:
        h(a)
    return 2
''', '''
def g(a):
    _maybe(a)
    return 2


def _maybe(a):
    if a:
        return
    h(a)
''', '''
def g(a):
    if not a:
        h(a)
    return 2
''')

case('helper whose return sits inside a loop is left alone', '''
def g(xs):
    while xs:
        if xs.pop():
            return 1
    return 2
''', '''
def g(xs):
    return _first(xs)


def _first(xs):
    while xs:
        if xs.pop():
            return 1
    return 2
''', None)

case('return-tree helper at a return site', '''
def g(v):
    m = match(v)
    if m:
        a, b = m.groups()
        return a + b
    if other(v):
        return v
    return quote(v)
''', '''
def g(v):
    return _q(v)


def _q(value):
    mm = match(value)
    if mm:
        a, b = mm.groups()
        return a + b
    if other(value):
        return value
    return quote(value)
''', '''
def g(v):
    m = match(v)
    if m:
        a, b = m.groups()
        return a + b
    if other(v):
        return v
    return quote(v)
''')

case('return-tree helper at an assignment site that re-binds its argument', '''
def g(v, p):
    if p:
        with ctx():
            v = interp(v, p)
    return done(v)
''', '''
def g(v, p):
    v = _ip(v, p)
    return done(v)


def _ip(v, p):
    if not p:
        return v
    with ctx():
        v = interp(v, p)
    return v
''', '''
def g(v, p):
    if p:
        with ctx():
            v = interp(v, p)
    return done(v)
''')

case('new name for a re-bound local is renamed back', '''
def g(name, flag):
    check(name)
    name = norm(name)
    if name.startswith('.'):
        raise E
    if flag:
        reserved(name)
''', '''
def g(name, flag):
    check(name)
    clean = norm(name)
    if clean.startswith('.'):
        raise E
    if flag:
        reserved(clean)
''', '''
def g(name, flag):
    check(name)
    name = norm(name)
    if name.startswith('.'):
        raise E
    if flag:
        reserved(name)
''')

case('new name for a re-bound local stays when the old value is still used',
     '''
def g(name, flag):
    name = norm(name)
    if flag:
        reserved(name)
''', '''
def g(name, flag):
    clean = norm(name)
    if flag:
        reserved(clean, name)
''', None)

case('alias of an item of a local mapping across calls that do not touch it',
     '''
def g(handle, conf):
    if conf['env']:
        handle.write('x')
        for v in conf['env']:
            handle.write(v)
        for v, w in conf['env'].items():
            handle.write(w, conf.get('p', {}))
''', '''
def g(handle, conf):
    env = conf['env']
    if env:
        handle.write('x')
        for v in env:
            handle.write(v)
        for v, w in env.items():
            handle.write(w, conf.get('p', {}))
''', '''
def g(handle, conf):
    if conf['env']:
        handle.write('x')
        for v in conf['env']:
            handle.write(v)
        for v, w in conf['env'].items():
            handle.write(w, conf.get('p', {}))
''')

case('a call with effects is not moved into a conditional branch', '''
def g(a, flag):
    if flag:
        use(a)
''', '''
def g(a, flag):
    t = make(a)
    if flag:
        use(t)
''', None)

case('a call with effects is not moved past another call of the statement',
     '''
def g(a):
    use(a)
''', '''
def g(a):
    t = make(a)
    use(other(), t)
''', None)

case('a call with effects moves to an immediately following first use', '''
def g(a):
    use(make(a), other())
''', '''
def g(a):
    t = make(a)
    use(t, other())
''', '''
def g(a):
    use(make(a), other())
''')

case('alias of an attribute of self stays when a block of the last-use '
     'statement calls a method that re-binds it', '''
class K:
    def m(self):
        self.x = 1

    def g(self, c):
        if c:
            self.m()
            use(self.x)
''', '''
class K:
    def m(self):
        self.x = 1

    def g(self, c):
        v = self.x
        if c:
            self.m()
            use(v)
''', None)

case('alias of an item of a local mapping stays when the mapping escapes',
     '''
def g(handle, conf):
    if conf['env']:
        handle.write(conf)
        for v in conf['env']:
            handle.write(v)
''', '''
def g(handle, conf):
    env = conf['env']
    if env:
        handle.write(conf)
        for v in env:
            handle.write(v)
''', None)

case('helper also passed as a callback keeps its definition', '''
class K:
    def f(self, x):
        self.a(x)
        self.b(x)
''', '''
class K:
    def f(self, x):
        self._ab(x)
        register(self._ab)

    def _ab(self, x):
        self.a(x)
        self.b(x)
''', '''
class K:
    def f(self, x):
        self.a(x)
        self.b(x)
        register(self._ab)

    def _ab(self, x):
        self.a(x)
        self.b(x)
''')

case('recursive new function is left alone', '''
def g(a):
    return a
''', '''
def g(a):
    return _r(a)


def _r(a):
    return _r(a - 1) if a else 0
''', None)

case('renamed local is renamed back', '''
def g(dao):
    info = dao.select(1)
    for row in info:
        use(row)
    return info
''', '''
def g(dao):
    previous = dao.select(1)
    for r in previous:
        use(r)
    return previous
''', '''
def g(dao):
    info = dao.select(1)
    for row in info:
        use(row)
    return info
''')

case('new temp with an effectful call and a later (non-adjacent) use stays', '''
def g(t, pool):
    pool.touch(t)
    if t.final() and not t.complete():
        pool.reset(t)
''', '''
def g(t, pool):
    fi = t.final() and not t.complete()
    pool.touch(t)
    if fi:
        pool.reset(t)
''', None)

case('new temp with a single adjacent use (call moved to the use)', '''
def g(t, pool):
    if t.final() and not t.complete():
        pool.reset(t)
''', '''
def g(t, pool):
    fi = t.final() and not t.complete()
    if fi:
        pool.reset(t)
''', '''
def g(t, pool):
    if t.final() and not t.complete():
        pool.reset(t)
''')

case('new temp whose operand is re-assigned before the use stays', '''
def g(a, b):
    a = a + 1
    if a > b:
        return 1
    return 0
''', '''
def g(a, b):
    big = a > b
    a = a + 1
    if big:
        return 1
    return 0
''', None)

case('impure temp with two uses stays', '''
def g(q):
    use(q.pop())
    use(q.pop())
''', '''
def g(q):
    v = q.pop()
    use(v)
    use(v)
''', None)

case('attribute-chain alias across calls, attributes stable in the module', '''
class S:
    def load(self):
        self.mgr.dao.select_a(self.cb_a)
        self.mgr.dao.select_b(self.cb_b)
''', '''
class S:
    def load(self):
        dao = self.mgr.dao
        dao.select_a(self.cb_a)
        dao.select_b(self.cb_b)
''', '''
class S:
    def load(self):
        self.mgr.dao.select_a(self.cb_a)
        self.mgr.dao.select_b(self.cb_b)
''')

case('attribute-chain alias across calls, attribute re-bound in the module', '''
class S:
    def load(self):
        self.mgr.dao.select_a(self.cb_a)
        self.mgr.dao.select_b(self.cb_b)

    def cb_a(self, row):
        self.mgr.dao = None
''', '''
class S:
    def load(self):
        dao = self.mgr.dao
        dao.select_a(self.cb_a)
        dao.select_b(self.cb_b)

    def cb_a(self, row):
        self.mgr.dao = None
''', None)

case('helper with a renamed parameter and a clashing local', '''
class P:
    def set_stop(self, stop_point):
        self.stop_point = stop_point
        for itask in self.tasks():
            if itask.point > stop_point:
                self.limit(itask)
        return True
''', '''
class P:
    def set_stop(self, stop_point):
        self.stop_point = stop_point
        self._limit_beyond(stop_point)
        return True

    def _limit_beyond(self, point):
        for itask in self.tasks():
            if itask.point > point:
                self.limit(itask)
''', '''
class P:
    def set_stop(self, stop_point):
        self.stop_point = stop_point
        for itask in self.tasks():
            if itask.point > stop_point:
                self.limit(itask)
        return True
''')

case('multi-statement value helper used as an if test is hoisted', '''
class S:
    def q(self, itask, msgs):
        should_poll = False
        for m in msgs:
            if self.pm(itask, m):
                should_poll = True
        if should_poll:
            self.polls.append(itask)
''', '''
class S:
    def q(self, itask, msgs):
        if self._proc(itask, msgs):
            self.polls.append(itask)

    def _proc(self, itask, task_msgs):
        should_poll = False
        for m in task_msgs:
            if self.pm(itask, m):
                should_poll = True
        return should_poll
''', '''
class S:
    def q(self, itask, msgs):
        should_poll = False
        for m in msgs:
            if self.pm(itask, m):
                should_poll = True
        if should_poll:
            self.polls.append(itask)
''')

case('helper whose only return sits in a try whose handlers raise', '''
def ev(expr, err):
    try:
        node = parse(expr)
    except SyntaxError:
        raise err(expr) from None
    return run(node)
''', '''
def ev(expr, err):
    node = _parse_expression(expr, err)
    return run(node)


def _parse_expression(text, error_class):
    try:
        return parse(text)
    except SyntaxError:
        raise error_class(text) from None
''', '''
def ev(expr, err):
    try:
        node = parse(expr)
    except SyntaxError:
        raise err(expr) from None
    return run(node)
''')

case('new local closure is expanded inside its function', '''
def opt(expression, used, allv):
    return {o: Ev(expression, **{v: v != o for v in allv}) for o in used}
''', '''
def opt(expression, used, allv):
    def _is_optional(o):
        return Ev(expression, **{v: v != o for v in allv})
    return {o: _is_optional(o) for o in used}
''', '''
def opt(expression, used, allv):
    return {o: Ev(expression, **{v: v != o for v in allv}) for o in used}
''')

case('identity on the reference tree', REF1, REF1, REF1)

# ---- T0: both spellings of a pair normalise to the same text
T0_PAIRS = [
    ('else after an exiting body', '''
def g(c, a):
    if c:
        return 1
    else:
        a.x()
        return 2
''', '''
def g(c, a):
    if c:
        return 1
    a.x()
    return 2
'''),
    ('nested single ifs', '''
def g(a, b, x):
    if a:
        if b:
            x.go()
''', '''
def g(a, b, x):
    if a and b:
        x.go()
'''),
    ('ternary assignment', '''
def g(c, a, b):
    x = a if c else b
    return x
''', '''
def g(c, a, b):
    if c:
        x = a
    else:
        x = b
    return x
'''),
    ('counter increment', '''
def g(s):
    s.n = s.n + 1
''', '''
def g(s):
    s.n += 1
'''),
    ('loop with append', '''
def g(hosts, bad):
    good = []
    for h in hosts:
        if h not in bad:
            good.append(h)
    return good
''', '''
def g(hosts, bad):
    good = [h for h in hosts if h not in bad]
    return good
'''),
]
T0_PAIRS.append(('plain name alias', '''
def g(status, forced):
    req = status
    if forced and req in (1, 2):
        return False
    return req
''', '''
def g(status, forced):
    if forced and status in (1, 2):
        return False
    return status
'''))

T0_PAIRS.append(('name alias whose source is re-bound only after its last use',
                 '''
def g(self, status, forced):
    req = status
    if forced and req in (1, 2):
        return False
    if status is None:
        status = self.status
    return status
''', '''
def g(self, status, forced):
    if forced and status in (1, 2):
        return False
    if status is None:
        status = self.status
    return status
'''))

T0_PAIRS.append(('continue guard in a loop body', '''
def g(tasks, out):
    for t in tasks:
        if not t.final():
            continue
        if not t.complete():
            out.log(t)
''', '''
def g(tasks, out):
    for t in tasks:
        if t.final() and not t.complete():
            out.log(t)
'''))
T0_PAIRS.append(('loop with early constant return vs any()', '''
def g(self, point):
    for seq in self.sequences:
        if seq.is_valid(point):
            return True
    return False
''', '''
def g(self, point):
    if any(seq.is_valid(point) for seq in self.sequences):
        return True
    return False
'''))
T0_PAIRS.append(('nested loops with append vs comprehension', '''
def g(self, lim):
    rel = []
    for point, m in self.active.items():
        for t in m.values():
            if point <= lim and t.ra:
                rel.append(t)
    for t in rel:
        t.go()
''', '''
def g(self, lim):
    rel = [t for point, m in self.active.items() for t in m.values()
           if point <= lim and t.ra]
    for t in rel:
        t.go()
'''))

T0_NOT = [
    ('continue guard nested in another block is not rewritten', '''
def g(tasks):
    for t in tasks:
        if t.a:
            if t.b:
                continue
            t.x()
        t.y()
'''),
    ('alias whose source is re-bound before its last use stays', '''
def g(a):
    b = a
    a = a.next()
    return b, a
'''),
    ('list concatenation is not an in-place extend', '''
def g(x, y):
    x = x + y
    return x
'''),
    ('loop variable used after the loop: not a comprehension', '''
def g(hosts):
    good = []
    for h in hosts:
        good.append(h)
    return good, h
'''),
]


def main():
    bad = 0
    for name, ref, new, want in CASES:
        ref_tree = ast.parse(ref)
        normalize.t0(ref_tree)
        snap = normalize.snapshot({REL: ref_tree})
        tree = ast.parse(new)
        notes = normalize.normalize({REL: tree}, ref=snap)
        got = ast.unparse(tree)
        exp_tree = ast.parse(new if want is None else want)
        # the always-on canonical spellings (T0) apply to the expectation too
        normalize.t0(exp_tree)
        exp = ast.unparse(exp_tree)
        ok = got == exp
        if want is None and notes:
            ok = False
        print(('ok   ' if ok else 'FAIL ') + name)
        if not ok:
            bad += 1
            print('--- expected\n' + exp + '\n--- got\n' + got)
            for n in notes:
                print('   note:', n)
    def t0(src):
        t = ast.parse(textwrap.dedent(src))
        normalize.t0(t)
        return ast.unparse(t)
    for name, a, b in T0_PAIRS:
        ok = t0(a) == t0(b)
        print(('ok   ' if ok else 'FAIL ') + 'T0 pair: ' + name)
        if not ok:
            bad += 1
            print(t0(a) + '\n--- vs\n' + t0(b))
    for name, a in T0_NOT:
        ok = t0(a) == ast.unparse(ast.parse(textwrap.dedent(a)))
        print(('ok   ' if ok else 'FAIL ') + 'T0 left alone: ' + name)
        if not ok:
            bad += 1
            print(t0(a))
    total = len(CASES) + len(T0_PAIRS) + len(T0_NOT)
    print(f'{total - bad}/{total} cases pass')
    return 1 if bad else 0


if __name__ == '__main__':
    sys.exit(main())

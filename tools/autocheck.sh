#!/bin/bash
# tools/autocheck.sh [--tests] [transform ...]
# For each mass behaviour-preserving transform of tools/autorefactor.py: make a
# scratch copy of /repo under /tmp, rewrite cylc/flow in it, (with --tests: run
# the copy's unit tests as a sanity check of the transform itself), run every
# check (quick) against the copy and report any that is not silent -- each such
# report is a FALSE ALARM to fix in the checker.  The copy is removed.
# Evidence files are regenerated from /repo at the end.
set -u
TESTS=0
if [ "${1:-}" = "--tests" ]; then TESTS=1; shift; fi
TR=${@:-flip notforms demorgan ifsplit ifmerge elsedrop elseadd rename temps extract comp2loop loop2comp ternary unternary unaug}
cd /verif
RC=0
for t in $TR; do
  S=/tmp/auto_$t.$$
  rm -rf $S; mkdir -p $S
  (cd /repo && git ls-files | rsync -a --files-from=- /repo/ $S/)
  /venv/bin/python -B tools/autorefactor.py $S $t || { echo "$t: transform failed"; RC=2; rm -rf $S; continue; }
  if [ $TESTS = 1 ]; then
    (cd $S && PATH=/venv/bin:$PATH /venv/bin/python -m pytest -q -p no:cacheprovider -n 8 tests/unit cylc/flow 2>&1 | grep -E "^(FAILED|ERROR)|passed|failed" | grep -v "test_hostuserutil" | tail -8)
  fi
  ls rules | grep '^C[0-9]*\.py$' | sed 's/\.py$//' | xargs -P 12 -I{} sh -c \
    "VERIF_REPO=$S ./check {} --tier quick > $S.{}.log 2>&1; echo \"{} exit=\$?\"" | sort > $S.res
  BAD=$(grep -v "exit=0" $S.res | awk '{print $1}' | tr '\n' ' ')
  echo "== $t: $(grep -c 'exit=0' $S.res) silent; alarms: ${BAD:-none}"
  mkdir -p /verif/seeded/auto
  : > /verif/seeded/auto/$t.txt
  for b in $BAD; do
    RC=1
    echo "== $b" >> /verif/seeded/auto/$t.txt
    grep -A2 -E "VIOLATION|ANALYSIS-ERROR" $S.$b.log | cut -c1-600 | head -40 >> /verif/seeded/auto/$t.txt
  done
  rm -rf $S $S.*.log $S.res
done
./tools/runall.sh quick > /dev/null
exit $RC

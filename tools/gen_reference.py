#!/venv/bin/python
"""Regenerate /verif/sa/reference.json: the snapshot (functions and their local
bindings, per module) of the tree against which the rule instances were
confirmed.  Run ONLY deliberately, on a /repo tree on which every check was
re-confirmed (e.g. after a `fix:` commit); it is never written by a check."""
import ast
import json
import os
import sys

sys.path.insert(0, os.path.dirname(os.path.dirname(os.path.abspath(__file__))))
from sa import normalize  # noqa: E402
from sa.index import PKG, EXCLUDE_PARTS, EXCLUDE_SUFFIX  # noqa: E402

repo = sys.argv[1] if len(sys.argv) > 1 else '/repo'
trees = {}
for d, _dirs, files in os.walk(os.path.join(repo, PKG)):
    for f in files:
        if not f.endswith('.py') or f.endswith(EXCLUDE_SUFFIX):
            continue
        p = os.path.join(d, f)
        rel = os.path.relpath(p, repo)
        if any(x in '/' + rel for x in EXCLUDE_PARTS):
            continue
        trees[rel] = ast.parse(open(p, encoding='utf-8').read())
        normalize.t0(trees[rel])      # the snapshot is of the canonical form
snap = normalize.snapshot(trees)
with open(normalize.REF_PATH, 'w') as fh:
    json.dump(snap, fh, indent=0, sort_keys=True)
print(f'{len(snap)} modules, {sum(len(v) for v in snap.values())} functions '
      f'-> {normalize.REF_PATH}')

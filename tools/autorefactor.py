#!/venv/bin/python
"""Mass behaviour-preserving rewrites of cylc/flow, to look for false alarms.

usage: autorefactor.py <repo> <transform>     (rewrites <repo>/cylc/flow IN
PLACE -- run it on a scratch copy only, never on /repo)

Each transform is applied at *every* applicable site of every module (files
are re-emitted with ast.unparse, so comments and layout go too).  Every
transform preserves behaviour by construction (side conditions below); the
scratch copy's unit tests are run by tools/autocheck.sh as a sanity check of
this tool, and then every check must stay silent on the copy.

  flip      a < b  ->  b > a  (and <=, >, >=) when neither side has a call
  notforms  x not in s -> not x in s;  x is not y -> not x is y;
            a != b -> not a == b
  demorgan  not (a or b) <-> not a and not b   (both directions, all sites)
  ifsplit   if a and b: X        ->  if a:\\n if b: X      (no else)
  ifmerge   if a:\\n if b: X      ->  if a and b: X         (no else, sole stmt)
  elsedrop  if c: A(exits) else: B  ->  if c: A\\n B
  elseadd   if c: A(exits)\\n rest   ->  if c: A else: rest  (function level)
  rename    every non-parameter local x of every simple function -> x_rn
  temps     if <compound test>:  ->  _cond_k = <test>\\n if _cond_k:
  extract   first run of >= 2 consecutive call statements of a method ->
            new private method, called in place
"""
import ast
import os
import sys

FN = (ast.FunctionDef, ast.AsyncFunctionDef)
EXITS = (ast.Return, ast.Raise, ast.Continue, ast.Break)


def has_call(n):
    return any(isinstance(x, (ast.Call, ast.Await, ast.NamedExpr))
               for x in ast.walk(n))


def terminates(stmts):
    if not stmts:
        return False
    last = stmts[-1]
    if isinstance(last, EXITS):
        return True
    if isinstance(last, ast.If):
        return terminates(last.body) and terminates(last.orelse)
    return False


class Flip(ast.NodeTransformer):
    M = {ast.Lt: ast.Gt, ast.Gt: ast.Lt, ast.LtE: ast.GtE, ast.GtE: ast.LtE}

    def visit_Compare(self, node):
        self.generic_visit(node)
        if len(node.ops) == 1 and type(node.ops[0]) in self.M and not \
                has_call(node):
            return ast.Compare(left=node.comparators[0],
                               ops=[self.M[type(node.ops[0])]()],
                               comparators=[node.left])
        return node


class NotForms(ast.NodeTransformer):
    M = {ast.NotIn: ast.In, ast.IsNot: ast.Is, ast.NotEq: ast.Eq}

    def visit_Compare(self, node):
        self.generic_visit(node)
        if len(node.ops) == 1 and type(node.ops[0]) in self.M:
            return ast.UnaryOp(op=ast.Not(), operand=ast.Compare(
                left=node.left, ops=[self.M[type(node.ops[0])]()],
                comparators=node.comparators))
        return node


class DeMorgan(ast.NodeTransformer):
    def visit_UnaryOp(self, node):
        if isinstance(node.op, ast.Not) and isinstance(
                node.operand, ast.BoolOp):
            x = node.operand
            op = ast.And() if isinstance(x.op, ast.Or) else ast.Or()
            vals = [self.visit(ast.UnaryOp(op=ast.Not(), operand=v))
                    if isinstance(v, ast.BoolOp) else
                    ast.UnaryOp(op=ast.Not(), operand=self.visit(v))
                    for v in x.values]
            return ast.BoolOp(op=op, values=vals)
        return self.generic_visit(node)

    def visit_BoolOp(self, node):
        if all(isinstance(v, ast.UnaryOp) and isinstance(v.op, ast.Not)
               for v in node.values):
            op = ast.Or() if isinstance(node.op, ast.And) else ast.And()
            return ast.UnaryOp(op=ast.Not(), operand=ast.BoolOp(
                op=op, values=[self.generic_visit(v.operand)
                               if not isinstance(v.operand, ast.BoolOp)
                               else v.operand for v in node.values]))
        return self.generic_visit(node)


def map_blocks(tree, fn):
    """Apply fn(block, owner, field) -> new block to every statement list,
    innermost first."""
    for node in ast.walk(tree):
        pass

    def rec(node):
        for field in ('body', 'orelse', 'finalbody'):
            blk = getattr(node, field, None)
            if isinstance(blk, list) and blk and isinstance(blk[0], ast.stmt):
                for s in blk:
                    rec(s)
                setattr(node, field, fn(blk, node, field))
        for h in getattr(node, 'handlers', []) or []:
            rec(h)
        for c in getattr(node, 'cases', []) or []:
            rec(c)
    rec(tree)


def t_ifsplit(tree):
    def fn(blk, owner, field):
        out = []
        for s in blk:
            if isinstance(s, ast.If) and not s.orelse and isinstance(
                    s.test, ast.BoolOp) and isinstance(s.test.op, ast.And) \
                    and not (isinstance(owner, ast.If) and field == 'orelse'
                             and len(blk) == 1):
                inner = ast.If(test=ast.BoolOp(op=ast.And(),
                                               values=s.test.values[1:])
                               if len(s.test.values) > 2
                               else s.test.values[1], body=s.body, orelse=[])
                s = ast.If(test=s.test.values[0], body=[inner], orelse=[])
            out.append(s)
        return out
    map_blocks(tree, fn)


def t_ifmerge(tree):
    def fn(blk, owner, field):
        out = []
        for s in blk:
            if isinstance(s, ast.If) and not s.orelse and len(s.body) == 1 \
                    and isinstance(s.body[0], ast.If) and not \
                    s.body[0].orelse and not (
                        isinstance(owner, ast.If) and field == 'orelse'
                        and len(blk) == 1):
                i = s.body[0]
                s = ast.If(test=ast.BoolOp(op=ast.And(),
                                           values=[s.test, i.test]),
                           body=i.body, orelse=[])
            out.append(s)
        return out
    map_blocks(tree, fn)


def t_elsedrop(tree):
    def fn(blk, owner, field):
        out = []
        for s in blk:
            if isinstance(s, ast.If) and s.orelse and terminates(s.body) \
                    and not (isinstance(owner, ast.If) and field == 'orelse'
                             and len(blk) == 1):
                rest = s.orelse
                out.append(ast.If(test=s.test, body=s.body, orelse=[]))
                out.extend(rest)
            else:
                out.append(s)
        return out
    map_blocks(tree, fn)


def t_elseadd(tree):
    for f in [n for n in ast.walk(tree) if isinstance(n, FN)]:
        blk = f.body
        for i, s in enumerate(blk):
            if isinstance(s, ast.If) and not s.orelse and terminates(
                    s.body) and i + 1 < len(blk) and not any(
                    isinstance(x, FN + (ast.ClassDef,)) for x in blk[i + 1:]):
                s.orelse = blk[i + 1:]
                del blk[i + 1:]
                break


def own_nodes(fnode):
    todo = list(ast.iter_child_nodes(fnode))
    while todo:
        n = todo.pop()
        yield n
        if isinstance(n, FN + (ast.ClassDef,)):
            continue
        todo.extend(ast.iter_child_nodes(n))


def t_rename(tree):
    for f in [n for n in ast.walk(tree) if isinstance(n, FN)]:
        inner = [n for n in ast.walk(f) if n is not f and isinstance(
            n, FN + (ast.ClassDef, ast.Global, ast.Nonlocal))]
        if inner:
            continue
        if any(isinstance(n, ast.Name) and n.id in ('locals', 'vars', 'exec',
                                                     'eval')
               for n in ast.walk(f)):
            continue
        params = {a.arg for a in ast.walk(f) if isinstance(a, ast.arg)}
        comp_bound = set()
        for n in ast.walk(f):
            if isinstance(n, ast.comprehension):
                comp_bound |= {t.id for t in ast.walk(n.target)
                               if isinstance(t, ast.Name)}
        stored = {n.id for n in ast.walk(f) if isinstance(n, ast.Name)
                  and isinstance(n.ctx, (ast.Store, ast.Del))}
        for n in ast.walk(f):
            if isinstance(n, ast.ExceptHandler) and n.name:
                stored.add(n.name)
        imported = set()
        for n in ast.walk(f):
            if isinstance(n, (ast.Import, ast.ImportFrom)):
                imported |= {(a.asname or a.name).split('.')[0]
                             for a in n.names}
        # (comprehension variables are renamed too: every occurrence of the
        # name in the function changes, so scoping is unaffected)
        locs = stored - params - imported
        ren = {x: x + '_rn' for x in locs}
        for n in ast.walk(f):
            if isinstance(n, ast.Name) and n.id in ren:
                n.id = ren[n.id]
            elif isinstance(n, ast.ExceptHandler) and n.name in ren:
                n.name = ren[n.name]


def t_temps(tree):
    k = [0]

    def fn(blk, owner, field):
        out = []
        for s in blk:
            if isinstance(s, ast.If) and isinstance(
                    s.test, (ast.BoolOp, ast.Compare)) and not (
                    isinstance(owner, ast.If) and field == 'orelse'
                    and len(blk) == 1) and not any(isinstance(
                        x, (ast.NamedExpr, ast.Await, ast.Yield))
                        for x in ast.walk(s.test)):
                k[0] += 1
                name = f'_cond_{k[0]}'
                out.append(ast.Assign(
                    targets=[ast.Name(id=name, ctx=ast.Store())],
                    value=s.test, lineno=s.lineno))
                s = ast.If(test=ast.Name(id=name, ctx=ast.Load()),
                           body=s.body, orelse=s.orelse)
            out.append(s)
        return out
    for f in [n for n in ast.walk(tree) if isinstance(n, FN)]:
        if any(isinstance(n, (ast.Global, ast.Nonlocal))
               for n in ast.walk(f)):
            continue
        map_blocks(f, fn)


def t_extract(tree):
    for cls in [n for n in ast.walk(tree) if isinstance(n, ast.ClassDef)]:
        new_defs = []
        for f in list(cls.body):
            if not isinstance(f, ast.FunctionDef) or f.decorator_list:
                continue
            if not f.args.args or f.args.args[0].arg != 'self':
                continue
            if any(isinstance(n, (ast.Yield, ast.YieldFrom, ast.Global,
                                  ast.Nonlocal))
                   for n in ast.walk(f)):
                continue
            locs = {a.arg for a in ast.walk(f.args)
                    if isinstance(a, ast.arg)} | {
                n.id for n in ast.walk(f) if isinstance(n, ast.Name)
                and isinstance(n.ctx, ast.Store)}
            done = [False]

            def fn(blk, owner, field, f=f, locs=locs, done=done):
                if done[0]:
                    return blk
                i = 0
                while i < len(blk):
                    j = i
                    while j < len(blk) and isinstance(blk[j], ast.Expr) and \
                            isinstance(blk[j].value, ast.Call) and not any(
                                isinstance(x, (ast.Await, ast.NamedExpr,
                                               ast.Lambda, ast.GeneratorExp,
                                               ast.ListComp, ast.DictComp,
                                               ast.SetComp))
                                for x in ast.walk(blk[j])):
                        j += 1
                    if j - i >= 2:
                        run = blk[i:j]
                        used = []
                        for s in run:
                            for n in ast.walk(s):
                                if isinstance(n, ast.Name) and n.id in locs \
                                        and n.id != 'self' and \
                                        n.id not in used:
                                    used.append(n.id)
                        name = f'_x_{f.name.strip("_")}_part'
                        helper = ast.FunctionDef(
                            name=name, args=ast.arguments(
                                posonlyargs=[], args=[ast.arg(arg='self')] + [
                                    ast.arg(arg=u) for u in used],
                                kwonlyargs=[], kw_defaults=[], defaults=[]),
                            body=run, decorator_list=[], lineno=f.lineno)
                        call = ast.Expr(value=ast.Call(
                            func=ast.Attribute(value=ast.Name(
                                id='self', ctx=ast.Load()), attr=name,
                                ctx=ast.Load()),
                            args=[ast.Name(id=u, ctx=ast.Load())
                                  for u in used], keywords=[]))
                        new_defs.append((f, helper))
                        done[0] = True
                        return blk[:i] + [call] + blk[j:]
                    i = j + 1
                return blk
            map_blocks(f, fn)
        for f, helper in new_defs:
            cls.body.insert(cls.body.index(f) + 1, helper)


def _fn_names(f):
    return {n.id for n in ast.walk(f) if isinstance(n, ast.Name)} | {
        a.arg for a in ast.walk(f) if isinstance(a, ast.arg)}


def t_comp2loop(tree):
    """X = [e for v in S if c]  ->  X = []; for v in S: if c: X.append(e)
    (statement-level list comprehensions with one generator whose variables
    occur nowhere else in the function)."""
    for f in [n for n in ast.walk(tree) if isinstance(n, FN)]:
        names_count = {}
        for n in ast.walk(f):
            if isinstance(n, ast.Name):
                names_count[n.id] = names_count.get(n.id, 0) + 1

        def fn(blk, owner, field, f=f):
            out = []
            for s in blk:
                if isinstance(s, ast.Assign) and len(s.targets) == 1 and \
                        isinstance(s.targets[0], ast.Name) and isinstance(
                            s.value, ast.ListComp) and len(
                            s.value.generators) == 1 and not \
                        s.value.generators[0].is_async:
                    g = s.value.generators[0]
                    tv = {t.id for t in ast.walk(g.target)
                          if isinstance(t, ast.Name)}
                    inside = {}
                    for n in ast.walk(s.value):
                        if isinstance(n, ast.Name):
                            inside[n.id] = inside.get(n.id, 0) + 1
                    x = s.targets[0].id
                    if all(names_count.get(v, 0) == inside.get(v, 0)
                           for v in tv) and x not in inside and not any(
                            isinstance(n, (ast.Lambda, ast.ListComp,
                                           ast.GeneratorExp, ast.SetComp,
                                           ast.DictComp, ast.NamedExpr))
                            for n in ast.walk(s.value) if n is not s.value):
                        app = ast.Expr(value=ast.Call(func=ast.Attribute(
                            value=ast.Name(id=x, ctx=ast.Load()),
                            attr='append', ctx=ast.Load()),
                            args=[s.value.elt], keywords=[]))
                        body = [app]
                        for c in reversed(g.ifs):
                            body = [ast.If(test=c, body=body, orelse=[])]
                        out.append(ast.Assign(targets=s.targets,
                                              value=ast.List(elts=[],
                                                             ctx=ast.Load()),
                                              lineno=s.lineno))
                        out.append(ast.For(target=g.target, iter=g.iter,
                                           body=body, orelse=[],
                                           lineno=s.lineno))
                        continue
                out.append(s)
            return out
        map_blocks(f, fn)


def t_loop2comp(tree):
    """X = []; for v in S: [if c:] X.append(e)  ->  X = [e for v in S if c]
    when the loop variables are used nowhere else in the function."""
    for f in [n for n in ast.walk(tree) if isinstance(n, FN)]:
        names_count = {}
        for n in ast.walk(f):
            if isinstance(n, ast.Name):
                names_count[n.id] = names_count.get(n.id, 0) + 1

        def fn(blk, owner, field, f=f):
            out = []
            i = 0
            while i < len(blk):
                s = blk[i]
                nxt = blk[i + 1] if i + 1 < len(blk) else None
                done = False
                if isinstance(s, ast.Assign) and len(s.targets) == 1 and \
                        isinstance(s.targets[0], ast.Name) and isinstance(
                            s.value, ast.List) and not s.value.elts and \
                        isinstance(nxt, ast.For) and not nxt.orelse and len(
                            nxt.body) == 1:
                    x = s.targets[0].id
                    inner = nxt.body[0]
                    ifs = []
                    while isinstance(inner, ast.If) and not inner.orelse \
                            and len(inner.body) == 1:
                        ifs.append(inner.test)
                        inner = inner.body[0]
                    if isinstance(inner, ast.Expr) and isinstance(
                            inner.value, ast.Call) and isinstance(
                            inner.value.func, ast.Attribute) and \
                            inner.value.func.attr == 'append' and isinstance(
                                inner.value.func.value, ast.Name) and \
                            inner.value.func.value.id == x and len(
                                inner.value.args) == 1 and not \
                            inner.value.keywords:
                        tv = {t.id for t in ast.walk(nxt.target)
                              if isinstance(t, ast.Name)}
                        inside = {}
                        for n in ast.walk(nxt):
                            if isinstance(n, ast.Name):
                                inside[n.id] = inside.get(n.id, 0) + 1
                        elt = inner.value.args[0]
                        uses_x = sum(1 for n in ast.walk(nxt) if isinstance(
                            n, ast.Name) and n.id == x)
                        if all(names_count.get(v, 0) == inside.get(v, 0)
                               for v in tv) and uses_x == 1 and not any(
                                isinstance(n, (ast.Await, ast.Yield,
                                               ast.NamedExpr))
                                for n in ast.walk(nxt)) and all(
                                isinstance(t, ast.Name) or isinstance(
                                    t, (ast.Tuple, ast.Store, ast.Load))
                                for t in ast.walk(nxt.target)):
                            comp = ast.ListComp(elt=elt, generators=[
                                ast.comprehension(target=nxt.target,
                                                  iter=nxt.iter, ifs=ifs,
                                                  is_async=0)])
                            out.append(ast.Assign(targets=s.targets,
                                                  value=comp,
                                                  lineno=s.lineno))
                            i += 2
                            done = True
                if not done:
                    out.append(s)
                    i += 1
            return out
        map_blocks(f, fn)


def t_ternary(tree):
    """if c: x = a  else: x = b   ->   x = a if c else b   (same simple
    target, single statements)."""
    def fn(blk, owner, field):
        out = []
        for s in blk:
            if isinstance(s, ast.If) and len(s.body) == 1 and len(
                    s.orelse) == 1 and all(
                    isinstance(b, ast.Assign) and len(b.targets) == 1
                    and isinstance(b.targets[0], ast.Name)
                    for b in (s.body[0], s.orelse[0])) and \
                    s.body[0].targets[0].id == s.orelse[0].targets[0].id \
                    and not (isinstance(owner, ast.If) and field == 'orelse'
                             and len(blk) == 1):
                out.append(ast.Assign(
                    targets=s.body[0].targets, value=ast.IfExp(
                        test=s.test, body=s.body[0].value,
                        orelse=s.orelse[0].value), lineno=s.lineno))
            else:
                out.append(s)
        return out
    map_blocks(tree, fn)


def t_unternary(tree):
    """x = a if c else b  ->  if c: x = a  else: x = b"""
    def fn(blk, owner, field):
        out = []
        for s in blk:
            if isinstance(s, ast.Assign) and len(s.targets) == 1 and \
                    isinstance(s.targets[0], ast.Name) and isinstance(
                        s.value, ast.IfExp):
                v = s.value
                out.append(ast.If(test=v.test, body=[ast.Assign(
                    targets=[ast.Name(id=s.targets[0].id, ctx=ast.Store())],
                    value=v.body, lineno=s.lineno)], orelse=[ast.Assign(
                        targets=[ast.Name(id=s.targets[0].id,
                                          ctx=ast.Store())],
                        value=v.orelse, lineno=s.lineno)]))
            else:
                out.append(s)
        return out
    for f in [n for n in ast.walk(tree) if isinstance(n, FN)]:
        map_blocks(f, fn)


class UnAug(ast.NodeTransformer):
    """x += e -> x = x + e  (plain names and attribute chains of names)."""

    def visit_AugAssign(self, node):
        t = node.target

        def simple(e):
            return isinstance(e, ast.Name) or (
                isinstance(e, ast.Attribute) and simple(e.value))
        if not simple(t) or not isinstance(node.op, (ast.Add, ast.Sub)):
            return node
        # only counters (`+= 1`): for lists `x += y` mutates in place and
        # `x = x + y` does not
        if not (isinstance(node.value, ast.Constant) and isinstance(
                node.value.value, (int, float))):
            return node
        import copy
        load = copy.deepcopy(t)
        for n in ast.walk(load):
            if hasattr(n, 'ctx'):
                n.ctx = ast.Load()
        return ast.Assign(targets=[t], value=ast.BinOp(
            left=load, op=node.op, right=node.value), lineno=node.lineno)


T = {
    'comp2loop': t_comp2loop, 'loop2comp': t_loop2comp,
    'ternary': t_ternary, 'unternary': t_unternary,
    'unaug': lambda t: UnAug().visit(t),
    'flip': lambda t: Flip().visit(t),
    'notforms': lambda t: NotForms().visit(t),
    'demorgan': lambda t: DeMorgan().visit(t),
    'ifsplit': t_ifsplit, 'ifmerge': t_ifmerge, 'elsedrop': t_elsedrop,
    'elseadd': t_elseadd, 'rename': t_rename, 'temps': t_temps,
    'extract': t_extract,
}


def main():
    repo, name = sys.argv[1], sys.argv[2]
    if os.path.realpath(repo) == '/repo':
        sys.exit('refusing to rewrite /repo')
    n = 0
    for d, _dirs, files in os.walk(os.path.join(repo, 'cylc', 'flow')):
        if '/etc/' in d + '/':
            continue
        for fn_ in files:
            if not fn_.endswith('.py') or fn_.endswith('_pb2.py'):
                continue
            p = os.path.join(d, fn_)
            src = open(p, encoding='utf-8').read()
            try:
                tree = ast.parse(src)
            except SyntaxError:
                continue
            before = ast.dump(tree)
            r = T[name](tree)
            tree = r if isinstance(r, ast.AST) else tree
            ast.fix_missing_locations(tree)
            if ast.dump(tree) == before:
                continue
            out = ast.unparse(tree)
            compile(out, p, 'exec')
            open(p, 'w', encoding='utf-8').write(out + '\n')
            n += 1
    print(f'{name}: {n} files rewritten')


if __name__ == '__main__':
    main()

#!/bin/bash
# tools/seedsuite.sh <tag> : run the existing suite in the scratch worktree
# with the seeded change applied; record new failures vs the clean tree.
TAG=$1
WT=/tmp/wt/$TAG; DEST=/verif/seeded/$TAG
export PATH=/venv/bin:$PATH
cd "$WT" || exit 2
rm -f tests/unit/test_*demo*.py tests/integration/test_*demo*.py 2>/dev/null
/venv/bin/python -m pytest -q -p no:cacheprovider --timeout=900 -n 6 -ra > "$DEST/suite_with_change.log" 2>&1
grep -E "^(FAILED|ERROR) (tests|cylc)/" "$DEST/suite_with_change.log" | sed 's/ - .*//' | sort > "$DEST/suite_failures.txt"
comm -23 "$DEST/suite_failures.txt" /verif/seeded/clean_failures.txt | grep -v "tests/integration/tui/" > "$DEST/new_failures.txt"
RES=$(tail -1 "$DEST/suite_with_change.log")
python3 - "$TAG" "$RES" <<'EOF'
import json,sys
tag,res=sys.argv[1:3]
p=f'/verif/seeded/{tag}/meta.json'
m=json.load(open(p))
m['suite_with_change']=res
m['new_failures_vs_clean']=[l.strip() for l in open(f'/verif/seeded/{tag}/new_failures.txt')]
json.dump(m,open(p,'w'),indent=1)
print(tag,res,'new failures:',m['new_failures_vs_clean'])
EOF
rm -f "$DEST/suite_with_change.log"

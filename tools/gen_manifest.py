#!/usr/bin/env python3
"""Regenerate MANIFEST.json from rules/*.py metadata (run in /verif)."""
import importlib
import json
import os
import sys

HERE = os.path.dirname(os.path.dirname(os.path.abspath(__file__)))
sys.path.insert(0, HERE)

NA = {
    'C16': 'numeric result of clipping arithmetic over all recurrence forms; '
           'no structural necessary condition is visible in the code shape '
           '(static analysis cannot bound runtime integers)',
    'C17': 'agreement with brute-force enumeration and cache transparency '
           'under query orders depend on runtime values of calendar '
           'arithmetic in metomi.isodatetime',
    'C23': 'round-trip equality over all strings accepted by four '
           'interacting regexes; a regex-AST separator check would be a '
           'brittle proxy',
    'C34': 'equality with the Cartesian product for all inputs: input/output '
           'equality of a pure algorithm, not visible as code shape',
    'C35': 'equality with CPython MRO for all DAGs: input/output equality of '
           'a pure algorithm; a frozen copy would be a text match',
    'C36': 're-parse equality (idempotence) for all configuration sources: '
           'runtime string semantics',
}


def main():
    props = [json.loads(line) for line in open(
        os.path.join(HERE, 'properties.jsonl'))]
    checks = []
    na = []
    for p in props:
        pid = p['id']
        path = os.path.join(HERE, 'rules', f'{pid}.py')
        if pid in NA:
            na.append({'property_id': pid, 'reason': NA[pid]})
            continue
        if not os.path.exists(path):
            na.append({'property_id': pid, 'reason':
                       'static check not built yet (planned in DESIGN.md §5)'})
            continue
        mod = importlib.import_module(f'rules.{pid}')
        checks.append({
            'property_id': pid,
            'quick_cmd': f'./check {pid} --tier quick',
            'thorough_cmd': f'./check {pid} --tier thorough',
            'evidence_file': f'/verif/evidence/{pid}.json',
            'replay_cmd_template': f'./check {pid} --replay {{path}}',
            'engine': 'sa',
            'level_claimed': {
                'category': 'other',
                'text': ('Static analysis: decides structural necessary '
                         'conditions of the property on ALL paths of the '
                         'current source (not the behaviour over runs). '
                         + getattr(mod, 'CLAUSES', '')),
                'design_ref': f'DESIGN.md §5 {pid}',
            },
            'level_note': (
                'Trusted: Python ast parser; the instance tables in '
                f'rules/{pid}.py (confirmed by reading the pinned commit); '
                'implicit exceptions are not CFG edges; dynamic features '
                '(getattr/setattr/monkey-patching) are outside the analysed '
                'program. Rules run on the refactoring-normal form of the '
                'tree (sa/normalize.py, DESIGN.md 9.1a: behaviour-preserving '
                'rewrites relative to sa/reference.json, listed in the '
                'evidence notes; assumption A-alias for attribute aliases).'),
            'technique': getattr(
                mod, 'TECHNIQUE',
                'static analysis: AST path-condition (guard dominance), '
                'who-may-call/write allow-lists, CFG must-pass-through, '
                'constant-table relations'),
        })
    man = {
        'version': 1,
        'setup_cmd': 'true',
        'hooks': {
            'guard': 'CYLC_FLOW_VERIF',
            'enable': 'none needed: static analysis reads /repo sources; no '
                      'instrumentation hooks are used',
            'baseline_off_cmd': 'cd /repo && /venv/bin/python -m pytest -ra '
                                '-q -p no:cacheprovider --timeout=900 '
                                '--continue-on-collection-errors',
            'source_commits': [],
            'add_only': True,
        },
        'engines': [{
            'name': 'sa',
            'path': '/verif/sa',
            'serves_properties': [c['property_id'] for c in checks],
            'kind_free_text': (
                'repository-specific static analyser on stdlib ast: source '
                'index, cross-module constant folding, path-condition '
                '(dominating guard) collector with early exits and helper '
                'expansion, hand-built statement CFG with dominance / '
                'post-dominance, attribute-store effects, SQL/schema model, '
                'operator-exact pattern matcher, refactoring-normal form '
                '(canonical spellings + inline-new-helper / rename-back / '
                'propagate-new-temp relative to a reference snapshot); frozen '
                'per-property instance tables in /verif/rules; both-ways '
                'batteries: per-rule self-test variants, sub-agent seeded '
                'changes, sub-agent benign refactors, 15 mass '
                'behaviour-preserving rewrites (tools/)'),
        }],
        'checks': checks,
        'not_applicable': na,
        'notes': ('Every check parses /repo\'s working tree on each run and '
                  'never imports or executes cylc.flow. Exit 0 ok / 1 '
                  'VIOLATION / 2 ANALYSIS-ERROR. Known findings in '
                  '/verif/known_findings.json.'),
    }
    with open(os.path.join(HERE, 'MANIFEST.json'), 'w') as fh:
        json.dump(man, fh, indent=1)
    print(f'{len(checks)} checks, {len(na)} not applicable')


if __name__ == '__main__':
    main()

#!/bin/bash
# tools/regress_scratch.sh: the benign and seed regressions on scratch copies
# (does not touch /repo, so it can run next to tools/runall.sh):
#   every seeded/benign/*/patch.diff  -> all checks must exit 0
#   every seeded/C*/patch.diff        -> each check in meta.checks_fired must exit 1
cd /verif
one_benign() {
  t=$1; d=/tmp/rs_b_$t
  tools/scratch.sh /verif/seeded/benign/$t/patch.diff $d >/dev/null 2>&1 || { echo "BENIGN $t: patch does not apply"; return; }
  bad=""
  for r in $(ls rules | grep '^C[0-9]*\.py$' | sed 's/\.py$//'); do
    VERIF_REPO=$d ./check $r --tier quick > /tmp/rs_b_${t}_$r.log 2>&1 || bad="$bad $r"
  done
  rm -rf $d
  echo "BENIGN $t: alarms:${bad:- none}"
}
one_seed() {
  t=$1; d=/tmp/rs_s_$t
  tools/scratch.sh /verif/seeded/$t/patch.diff $d >/dev/null 2>&1 || { echo "SEED $t: patch does not apply"; return; }
  exp=$(/venv/bin/python -c "import json;m=json.load(open('/verif/seeded/$t/meta.json'));print(' '.join(m.get('checks_fired') or [m['property']]))")
  res=""
  for r in $exp; do
    VERIF_REPO=$d ./check $r --tier quick > /tmp/rs_s_${t}_$r.log 2>&1; rc=$?
    [ $rc -eq 1 ] || res="$res !!$r=$rc"
  done
  rm -rf $d
  echo "SEED $t:${res:- caught by $exp}"
}
export -f one_benign one_seed
ls seeded/benign | xargs -P 7 -I{} bash -c 'one_benign {}'
ls seeded | grep -E '^C[0-9]+(s[0-9])?$' | xargs -P 6 -I{} bash -c 'one_seed {}'

#!/bin/bash
# tools/fmtcheck.sh -- false-alarm robustness: every check must stay silent on
# a copy of the repo in which every source file was round-tripped through
# ast.parse / ast.unparse (all comments dropped, every line number changed,
# quotes / parentheses / line breaks normalised).  Scratch copy lives under
# /tmp and is removed; evidence is regenerated from /repo afterwards.
set -u
S=/tmp/fmtcheck.$$
mkdir -p $S
cd /repo && git ls-files cylc > $S.files && rsync -a --files-from=$S.files /repo/ $S/
cd $S && /venv/bin/python -B - <<'EOF'
import ast, pathlib
for p in pathlib.Path('cylc').rglob('*.py'):
    if p.name.endswith('_pb2.py'):
        continue
    try:
        t = ast.parse(p.read_text())
    except SyntaxError:
        continue
    p.write_text(ast.unparse(t) + '\n')
EOF
cd /verif
ls rules | grep '^C[0-9]*\.py$' | sed 's/\.py$//' | xargs -P 14 -I{} sh -c \
  "VERIF_REPO=$S ./check {} --tier quick > $S.{}.log 2>&1; echo \"{} exit=\$?\"" | sort > $S.res
grep -v "exit=0" $S.res && echo "FALSE ALARMS on reformatted copy (logs: $S.<id>.log)" || echo "all $(wc -l < $S.res) checks silent on the reformatted copy"
rm -rf $S $S.files
/verif/tools/runall.sh quick > /dev/null

#!/usr/bin/env python3
"""Print the sub-agent prompt for a property id (only the property text)."""
import json, sys
pid = sys.argv[1]
tag = sys.argv[2] if len(sys.argv) > 2 else pid
for line in open('/verif/properties.jsonl'):
    p = json.loads(line)
    if p['id'] == pid:
        break
else:
    sys.exit('no such property')
wt = f'/tmp/wt/{tag}'
out = f'/tmp/wt/{tag}-out'
print(f"""You are working in a scratch git worktree of the cylc-flow repository (a Python workflow scheduler) at {wt}. Work ONLY inside {wt} and write your deliverables to {out}/ (create it). Do not read or touch /repo, /verif, or any other directory under /tmp/wt. Do not commit anything.

PROPERTY ({p['id']}): {p['title']}
Statement: {p['statement']}
Quantified over: {p['quantifier']['text']}

TASK: produce ONE realistic source change to cylc/flow (a plausible regression a developer could introduce: typically 1-20 changed lines in cylc/flow/**.py) that BREAKS this property, while the code still imports/compiles and the repository's existing test suite still passes. The breakage must need something specific to manifest -- a particular interleaving, a crash or fault at a particular point, a multi-step sequence of operations, an unusual input, or two cooperating sites that each look fine alone -- NOT something ordinary use or the existing tests would expose at once. Prefer a subtle semantic change (a boundary, a dropped guard on one path, a missed persistence/bookkeeping step, a reordered pair of operations, an off-by-one, an un-escaped value, a wrong table entry) over deleting whole features. Read the relevant code first to find where the property is actually enforced.

DELIVERABLES in {out}/:
1. patch.diff  -- `git -C {wt} diff` of your change (source change only; do not include the demo in the diff).
2. demo_test.py -- a pytest file (or a small script, say which) that FAILS with your change applied and PASSES on the unmodified tree. It should exercise the real code (unit or integration style; you can use the fixtures in tests/integration or tests/unit by placing a copy of the demo under those dirs while running, but keep the delivered file in {out}/ and say in meta.json where it must be placed to run). Run tests from the worktree root like: cd {wt} && PATH=/venv/bin:$PATH /venv/bin/python -m pytest -q -p no:cacheprovider <file>
3. meta.json -- {{"property": "{p['id']}", "files_changed": [...], "summary": "...what the change does...", "needs_to_manifest": "...the specific input/sequence/interleaving...", "demo_location": "path where demo_test.py must be placed to run", "demo_cmd": "...", "verified": {{"demo_fails_with_change": true/false, "demo_passes_without_change": true/false, "suite_cmd": "...", "suite_result_with_change": "...", "new_failures_vs_clean_tree": [...]}}}}

VERIFY YOURSELF before finishing:
 a. with the change applied the demo fails; revert the change with `git apply -R {out}/patch.diff` -> the demo passes; re-apply with `git apply {out}/patch.diff` (leave the change applied in the worktree at the end). NEVER use `git stash`: the stash is shared by all worktrees of this repository and other agents are working concurrently in sibling worktrees.
 b. run the existing suite with the change applied, from the worktree root: cd {wt} && PATH=/venv/bin:$PATH /venv/bin/python -m pytest -q -p no:cacheprovider --timeout=900  (about 2-5 minutes, uses xdist). A handful of tests fail on the clean tree too in this sandbox (no network: e.g. tests under tests/integration/scripts/test_reinstall, host/psutil related, flaky tui tests); what matters is that your change adds NO new failures -- if it does, pick a different change. Remove any demo copy you placed under tests/ before running the suite.
The sandbox has no network. Python is /venv/bin/python (3.12) with the repo's dependencies; running from the worktree root imports the worktree's code.
Finish with a short report: the change, why it breaks the property, what is needed to see it, and the verification results.""")

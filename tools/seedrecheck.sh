#!/bin/bash
# tools/seedrecheck.sh <tag>: re-run, in isolation, the tests that looked like
# new failures under load; keep only those that fail again.
TAG=$1
WT=/tmp/wt/$TAG; DEST=/verif/seeded/$TAG
export PATH=/venv/bin:$PATH
cd "$WT" || exit 2
[ -s "$DEST/new_failures.txt" ] || { echo "$TAG: no new failures"; exit 0; }
sed -E 's/^(FAILED|ERROR) //' "$DEST/new_failures.txt" | sort -u > /tmp/recheck_$TAG.txt
mapfile -t IDS < /tmp/recheck_$TAG.txt
/venv/bin/python -m pytest -q -p no:cacheprovider --timeout=600 -n 2 -ra "${IDS[@]}" > /tmp/recheck_$TAG.log 2>&1
grep -E "^(FAILED|ERROR) (tests|cylc)/" /tmp/recheck_$TAG.log | sed 's/ - .*//' | sort -u > "$DEST/new_failures.txt"
echo "$TAG: $(tail -1 /tmp/recheck_$TAG.log) ; still failing: $(cat $DEST/new_failures.txt | tr '\n' ' ')"
python3 - "$TAG" <<'EOF'
import json,sys
tag=sys.argv[1]
p=f'/verif/seeded/{tag}/meta.json'
m=json.load(open(p))
m['new_failures_vs_clean']=[l.strip() for l in open(f'/verif/seeded/{tag}/new_failures.txt')]
m['suite_note']='full suite run with the change (-n 6, concurrent load); apparent new failures re-run in isolation, those that passed were load flakes'
json.dump(m,open(p,'w'),indent=1)
EOF

#!/bin/sh
# run every rule (quick by default) in parallel; print one line per check
cd "$(dirname "$0")/.."
TIER=${1:-quick}
ls rules | grep '^C[0-9]*\.py$' | sed 's/\.py$//' | xargs -P 16 -I{} sh -c './check {} --tier '"$TIER"' > /tmp/runall_{}.log 2>&1; echo "{} exit=$? $(tail -1 /tmp/runall_{}.log)"' | sort

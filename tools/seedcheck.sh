#!/bin/bash
# tools/seedcheck.sh <PROPERTY> [tag] [--suite]
# Confirms a sub-agent's seeded change independently and records it under
# /verif/seeded/<tag>/:
#   1. demo fails with the change, passes without it (in the scratch worktree)
#   2. (--suite) the full existing suite has no new failures vs the clean list
#   3. apply the patch to /repo, run every check (quick), revert /repo
# Nothing is ever committed to /repo.
set -u
PID=$1; TAG=${2:-$1}; SUITE=${3:-}
WT=/tmp/wt/$TAG; OUT=/tmp/wt/$TAG-out
DEST=/verif/seeded/$TAG
mkdir -p "$DEST"
export PATH=/venv/bin:$PATH
PY=/venv/bin/python
cd "$WT" || exit 2
git diff -- cylc > "$DEST/patch.diff"
if ! [ -s "$DEST/patch.diff" ]; then cp "$OUT/patch.diff" "$DEST/patch.diff"; fi
# locate demo
DEMO_SRC=$(ls "$OUT"/demo_test.py "$OUT"/demo*.py 2>/dev/null | head -1)
cp "$DEMO_SRC" "$DEST/" 2>/dev/null
DEMO_LOC=$(python3 - "$OUT/meta.json" <<'EOF'
import json,sys,re
try:
    m=json.load(open(sys.argv[1]))
except Exception:
    print(''); sys.exit()
loc=str(m.get('demo_location',''))
mm=re.search(r'(tests/[\w/.\-]+\.py)', loc)
print(mm.group(1) if mm else '')
EOF
)
run_demo() {
  if [ -n "$DEMO_LOC" ]; then
    mkdir -p "$(dirname "$DEMO_LOC")"; cp "$DEMO_SRC" "$DEMO_LOC"
    $PY -m pytest -q -p no:cacheprovider -p no:randomly "$DEMO_LOC" -x -n 0 > "$1" 2>&1; rc=$?
    rm -f "$DEMO_LOC"
  else
    $PY -m pytest -q -p no:cacheprovider "$DEMO_SRC" -x -n 0 > "$1" 2>&1; rc=$?
  fi
  return $rc
}
run_demo "$DEST/demo_with_change.log"; WITH=$?
git apply -R "$DEST/patch.diff" || { echo "cannot reverse patch"; exit 2; }
run_demo "$DEST/demo_without_change.log"; WITHOUT=$?
git apply "$DEST/patch.diff"
echo "demo: with change rc=$WITH (expect !=0), without rc=$WITHOUT (expect 0)"
SUITE_RES="not run"
if [ "$SUITE" = "--suite" ]; then
  $PY -m pytest -q -p no:cacheprovider --timeout=900 -n 8 -ra > "$DEST/suite_with_change.log" 2>&1
  grep -E "^(FAILED|ERROR)" "$DEST/suite_with_change.log" | sed 's/ - .*//' | sort > "$DEST/suite_failures.txt"
  SUITE_RES=$(tail -1 "$DEST/suite_with_change.log")
  if [ -f /verif/seeded/clean_failures.txt ]; then
    # tui screenshot tests are timing-flaky under load on the clean tree too
    comm -23 "$DEST/suite_failures.txt" /verif/seeded/clean_failures.txt | grep -v "tests/integration/tui/" > "$DEST/new_failures.txt"
    echo "suite: $SUITE_RES; new failures vs clean: $(wc -l < "$DEST/new_failures.txt")"
    cat "$DEST/new_failures.txt"
  fi
fi
# run checks against /repo with the patch applied
cd /repo || exit 2
if [ -n "$(git status --porcelain -- cylc)" ]; then echo "/repo dirty, abort"; exit 2; fi
git apply "$DEST/patch.diff" || { echo "patch does not apply to /repo"; exit 2; }
cd /verif
: > "$DEST/checks.txt"
for r in $(ls rules | grep '^C[0-9]*\.py$' | sed 's/\.py$//'); do
  ./check $r > /tmp/seed_$r.log 2>&1; rc=$?
  echo "$r exit=$rc $(grep -c '^VIOLATION' /tmp/seed_$r.log) violations" >> "$DEST/checks.txt"
  if [ $rc -ne 0 ]; then grep -A2 '^VIOLATION\|ANALYSIS-ERROR' /tmp/seed_$r.log | head -12 > "$DEST/caught_by_$r.txt"; fi
done
git -C /repo checkout -- .
git -C /verif checkout -- evidence 2>/dev/null
echo "checks that fired:"; grep -v "exit=0" "$DEST/checks.txt"
python3 - "$PID" "$TAG" "$WITH" "$WITHOUT" "$SUITE_RES" <<'EOF'
import json,sys,os
pid,tag,w,wo,suite=sys.argv[1:6]
dest=f'/verif/seeded/{tag}'
try: agent=json.load(open(f'/tmp/wt/{tag}-out/meta.json'))
except Exception: agent={}
checks=[l.split() for l in open(f'{dest}/checks.txt')]
fired=[c[0] for c in checks if c[1]!='exit=0']
meta={'property':pid,'seed':tag,
 'breaks':agent.get('summary'),
 'needs_to_manifest':agent.get('needs_to_manifest'),
 'files_changed':agent.get('files_changed'),
 'demo':{'file':os.path.basename(agent.get('demo_location','demo_test.py').split(' ')[0]) or 'demo_test.py',
         'location_to_run':agent.get('demo_location'),'cmd':agent.get('demo_cmd'),
         'fails_with_change':w!='0','passes_without_change':wo=='0'},
 'suite_with_change':suite,
 'new_failures_vs_clean':[l.strip() for l in open(f'{dest}/new_failures.txt')] if os.path.exists(f'{dest}/new_failures.txt') else None,
 'what_i_ran':['demo with and without the change in a scratch worktree (tools/seedcheck.sh)',
               'full suite with the change (-n 8) when --suite', 'git -C /repo apply; every ./check Cnn; git -C /repo checkout -- .'],
 'checks_fired':fired,'detected_by_own_property_check':pid in fired}
json.dump(meta,open(f'{dest}/meta.json','w'),indent=1)
print('detected by', fired)
EOF

#!/bin/bash
# tools/benigncheck.sh <tag>
# Applies a behaviour-preserving refactor produced by a sub-agent
# (/tmp/wt/<tag>, /tmp/wt/<tag>-out) to /repo, runs every check (quick),
# reverts /repo, and records the outcome under /verif/seeded/benign/<tag>/.
# Any check that does not exit 0 here is a FALSE ALARM to be fixed in the
# checker.  Nothing is ever committed to /repo.
set -u
TAG=$1
WT=/tmp/wt/$TAG; OUT=/tmp/wt/$TAG-out
DEST=/verif/seeded/benign/$TAG
mkdir -p "$DEST"
if [ -d "$WT" ]; then
  git -C "$WT" diff -- cylc > "$DEST/patch.diff"
fi
if ! [ -s "$DEST/patch.diff" ] && [ -f "$OUT/patch.diff" ]; then
  cp "$OUT/patch.diff" "$DEST/patch.diff"
fi
[ -f "$OUT/meta.json" ] && cp "$OUT/meta.json" "$DEST/meta.json"
if ! [ -s "$DEST/patch.diff" ]; then echo "no patch"; exit 2; fi
if [ -n "$(git -C /repo status --porcelain -- cylc)" ]; then
  echo "/repo is dirty"; exit 2
fi
git -C /repo apply "$DEST/patch.diff" || { echo "patch does not apply"; exit 2; }
for f in $(git -C /repo diff --name-only -- cylc); do
  /venv/bin/python -B -c "import ast,sys; ast.parse(open(sys.argv[1]).read())" "/repo/$f" || echo "COMPILE FAILED $f"
done
cd /verif
: > "$DEST/checks.txt"
ls rules | grep '^C[0-9]*\.py$' | sed 's/\.py$//' | xargs -P 12 -I{} sh -c \
  './check {} --tier quick > /tmp/benign_{}.log 2>&1; echo "{} exit=$?"' \
  | sort > "$DEST/checks.txt"
git -C /repo checkout -- .
BAD=$(grep -v "exit=0" "$DEST/checks.txt" | awk '{print $1}')
: > "$DEST/false_alarms.txt"
for b in $BAD; do
  echo "== $b" >> "$DEST/false_alarms.txt"
  grep -A2 -E "VIOLATION|ANALYSIS-ERROR" /tmp/benign_$b.log | head -60 >> "$DEST/false_alarms.txt"
done
echo "== $TAG: $(grep -c 'exit=0' "$DEST/checks.txt") checks silent; alarms: ${BAD:-none}"
[ -s "$DEST/false_alarms.txt" ] && cat "$DEST/false_alarms.txt"
git -C /repo status --short | head -3

#!/bin/bash
# tools/seedall.sh [ids...] -- regression of the machinery against every kept
# seeded change: apply seeded/<id>/patch.diff to /repo, run the checks that are
# recorded as catching it (meta.json checks_fired), revert, and report any
# seed that is no longer caught.  Nothing is committed to /repo.
cd /verif
IDS=${@:-$(ls seeded | grep -E "^C[0-9]+(s[0-9])?$")}
FAIL=0
for id in $IDS; do
  P=seeded/$id/patch.diff
  [ -s "$P" ] || continue
  if [ -n "$(git -C /repo status --porcelain -- cylc)" ]; then echo "/repo dirty"; exit 2; fi
  if ! git -C /repo apply --check "$PWD/$P" 2>/dev/null; then
    echo "$id: patch no longer applies to /repo HEAD (skipped)"; continue
  fi
  git -C /repo apply "$PWD/$P"
  EXP=$(/venv/bin/python - "$id" <<'EOF'
import json,sys
m=json.load(open(f'/verif/seeded/{sys.argv[1]}/meta.json'))
print(' '.join(m.get('checks_fired') or [m.get('property', sys.argv[1])]))
EOF
)
  RES=""
  for c in $EXP; do
    ./check $c --tier quick > /tmp/seedall_$c.log 2>&1; rc=$?
    RES="$RES $c=$rc"
    [ $rc -eq 1 ] || { FAIL=1; echo "   !! $id no longer caught by $c (exit $rc)"; tail -3 /tmp/seedall_$c.log; }
  done
  git -C /repo checkout -- .
  echo "$id:$RES"
done
# evidence files were rewritten against patched trees: regenerate
./tools/runall.sh quick > /dev/null
exit $FAIL

#!/bin/bash
# tools/wtcheck.sh <tag>: run every check (quick) against the scratch worktree
# /tmp/wt/<tag> (does not touch /repo); prints the checks that fired.
TAG=$1
cd /verif
ls rules | grep '^C[0-9]*\.py$' | sed 's/\.py$//' | xargs -P ${2:-6} -I{} sh -c \
  "VERIF_REPO=/tmp/wt/$TAG VERIF_EVIDENCE=/tmp/wt/$TAG-ev ./check {} --tier quick > /tmp/wt_${TAG}_{}.log 2>&1; echo \"{} exit=\$?\"" | sort | grep -v "exit=0"

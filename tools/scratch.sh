#!/bin/bash
# tools/scratch.sh <patch.diff> <dir>: scratch copy of the clean worktree's
# cylc/ package under <dir> (outside /repo and /verif) with the patch applied.
set -e
# (the clean worktree is recreated on demand; remove it with
#  `git -C /repo worktree remove --force /tmp/wt/clean` when done)
[ -d /tmp/wt/clean ] || { mkdir -p /tmp/wt; git -C /repo worktree add --detach /tmp/wt/clean HEAD >/dev/null 2>&1; }
rm -rf "$2"; mkdir -p "$2"
rsync -a --exclude .git --exclude tests --exclude '*.pyc' /tmp/wt/clean/cylc "$2"/
cd "$2" && patch -p1 -s < "$1"

"""Pattern matching over normalised AST (operator-exact, position free).

Patterns are Python expressions:
  _        matches anything            _x   metavariable (same text each time)
  f(*_)    any further arguments       'lit' matches a node that *folds* to it
A leading '!' on an atom pattern means negative polarity.
Comparisons are canonicalised: !=, is not, not in, >, >= and `not` are rewritten
to {==, is, in, <, <=} with a polarity, so `a > b`, `b < a`, `not a <= b`
are the same atom; `a >= b` is a different one.
"""
from __future__ import annotations

import ast
from typing import List, Optional

from .consts import UNKNOWN, known
from .index import norm

_FLIP = {ast.Gt: ast.Lt, ast.GtE: ast.LtE}
_NEG = {ast.NotEq: ast.Eq, ast.IsNot: ast.Is, ast.NotIn: ast.In}


class Env:
    """Matching environment: constant folder + metavariable bindings."""

    def __init__(self, K=None, ctx=None):
        self.K = K
        self.ctx = ctx      # a node of the indexed tree giving module/class
        self.binds = {}

    def fold(self, node):
        if self.K is None:
            if isinstance(node, ast.Constant):
                return node.value
            return UNKNOWN
        try:
            if self.K.idx.mod_of(node) is not None and (
                    id(node) in self.K.idx.parent):
                return self.K.fold_at(node)
            if self.ctx is not None:
                return self.K.fold_in_context(node, self.ctx)
        except Exception:
            return UNKNOWN
        return UNKNOWN


def canon_cmp(node, pol):
    """-> (opname, left, right, pol) for single-op Compare, else None."""
    if not (isinstance(node, ast.Compare) and len(node.ops) == 1):
        return None
    op = type(node.ops[0])
    a, b = node.left, node.comparators[0]
    if op in _NEG:
        op = _NEG[op]
        pol = not pol
    if op in _FLIP:
        op = _FLIP[op]
        a, b = b, a
    if op in (ast.Lt, ast.LtE) and not pol:
        # not (a < b)  ==  b <= a ;  not (a <= b)  ==  b < a
        op = ast.LtE if op is ast.Lt else ast.Lt
        a, b = b, a
        pol = True
    name = {ast.Eq: '==', ast.Is: 'is', ast.In: 'in',
            ast.Lt: '<', ast.LtE: '<='}.get(op)
    if name is None:
        return None
    return name, a, b, pol


def nf(node, pol=True):
    """Normal form: ('atom', node, pol) | ('and', [..]) | ('or', [..])."""
    if isinstance(node, ast.UnaryOp) and isinstance(node.op, ast.Not):
        return nf(node.operand, not pol)
    if isinstance(node, ast.BoolOp):
        is_and = isinstance(node.op, ast.And)
        kids = [nf(v, pol) for v in node.values]
        kind = 'and' if (is_and == pol) else 'or'
        flat = []
        for k in kids:
            if k[0] == kind:
                flat.extend(k[1])
            else:
                flat.append(k)
        return (kind, flat)
    if isinstance(node, ast.Compare) and len(node.ops) > 1 and pol:
        parts = []
        left = node.left
        for op, right in zip(node.ops, node.comparators):
            parts.append(('atom', ast.Compare(left, [op], [right]), True))
            left = right
        return ('and', parts)
    if isinstance(node, ast.NamedExpr):
        return nf(node.value, pol)
    if isinstance(node, ast.Call) and isinstance(node.func, ast.Name) and \
            node.func.id == 'bool' and len(node.args) == 1 and \
            not node.keywords:
        return nf(node.args[0], pol)       # bool(x) is true iff x is
    if isinstance(node, ast.Compare) and len(node.ops) == 1 and isinstance(
            node.left, ast.IfExp) and isinstance(
            node.ops[0], (ast.Is, ast.IsNot)) and isinstance(
            node.comparators[0], ast.Constant) and \
            node.comparators[0].value is None:
        # (b if t else e) is [not] None: distribute over the arms; an arm
        # that is the literal None decides the comparison
        ie, op = node.left, node.ops[0]

        def arm(x):
            if isinstance(x, ast.Constant) and x.value is None:
                return ast.Constant(value=isinstance(op, ast.Is))
            return ast.Compare(left=x, ops=[op], comparators=[
                ast.Constant(value=None)])
        return nf(ast.IfExp(test=ie.test, body=arm(ie.body),
                            orelse=arm(ie.orelse)), pol)
    if isinstance(node, ast.IfExp):
        # (b if t else e)  ==  (t and b) or (not t and e), with the
        # constant arms folded: `x if t else False` == `t and x`
        def const(x):
            return x.value if isinstance(x, ast.Constant) and isinstance(
                x.value, bool) else None
        t, b, e = node.test, node.body, node.orelse
        if const(e) is False:
            return nf(ast.BoolOp(op=ast.And(), values=[t, b]), pol)
        if const(b) is True:
            return nf(ast.BoolOp(op=ast.Or(), values=[t, e]), pol)
        if const(b) is False:
            return nf(ast.BoolOp(op=ast.And(), values=[
                ast.UnaryOp(op=ast.Not(), operand=t), e]), pol)
        if const(e) is True:
            return nf(ast.BoolOp(op=ast.Or(), values=[
                ast.UnaryOp(op=ast.Not(), operand=t), b]), pol)
        return nf(ast.BoolOp(op=ast.Or(), values=[
            ast.BoolOp(op=ast.And(), values=[t, b]),
            ast.BoolOp(op=ast.And(), values=[
                ast.UnaryOp(op=ast.Not(), operand=t), e])]), pol)
    return ('atom', node, pol)


def flatten(facts) -> list:
    out = []
    for f in facts:
        if f[0] == 'and':
            out.extend(flatten(f[1]))
        else:
            out.append(f)
    return out


def show_fact(f) -> str:
    if f[0] == 'atom':
        return ('' if f[2] else 'not ') + norm(f[1])
    j = ' and ' if f[0] == 'and' else ' or '
    return '(' + j.join(show_fact(x) for x in f[1]) + ')'


# ----------------------------------------------------------------------
def _is_any(p):
    return isinstance(p, ast.Name) and p.id == '_'


_META = __import__('re').compile(r'^_[a-z0-9]{1,3}$')


def _is_meta(p):
    """Metavariables are `_` plus 1-3 lowercase letters/digits (`_x`, `_t`,
    `_now`); longer underscore names are ordinary identifiers."""
    return isinstance(p, ast.Name) and bool(_META.match(p.id))


def match(p, n, env: Env) -> bool:
    """Structural match of pattern node p against tree node n."""
    if _is_any(p):
        return True
    if _is_meta(p):
        t = norm(n)
        if p.id in env.binds:
            return env.binds[p.id] == t
        env.binds[p.id] = t
        return True
    if isinstance(p, ast.Constant):
        if isinstance(n, ast.Constant):
            return type(n.value) is type(p.value) and n.value == p.value
        if isinstance(n, (ast.Name, ast.Attribute)):
            v = env.fold(n)
            return known(v) and type(v) is type(p.value) and v == p.value
        return False
    if isinstance(p, ast.Name):
        return isinstance(n, ast.Name) and n.id == p.id
    if isinstance(p, ast.Attribute):
        return (isinstance(n, ast.Attribute) and n.attr == p.attr
                and match(p.value, n.value, env))
    if isinstance(p, ast.Call):
        if not isinstance(n, ast.Call):
            return False
        if not match(p.func, n.func, env):
            return False
        pargs = list(p.args)
        rest = False
        if pargs and isinstance(pargs[-1], ast.Starred) and _is_any(
                pargs[-1].value):
            rest = True
            pargs = pargs[:-1]
        nargs = list(n.args)
        if rest:
            if len(nargs) < len(pargs):
                return False
        elif len(nargs) != len(pargs):
            return False
        for a, b in zip(pargs, nargs):
            if not match(a, b, env):
                return False
        nkw = {k.arg: k.value for k in n.keywords}
        for k in p.keywords:
            if k.arg is None:
                continue
            if k.arg not in nkw or not match(k.value, nkw[k.arg], env):
                return False
        if not rest and len([k for k in n.keywords]) != len(
                [k for k in p.keywords]):
            return False
        return True
    if isinstance(p, (ast.Set, ast.Tuple, ast.List)):
        pv = [e.value for e in p.elts if isinstance(e, ast.Constant)]
        if len(pv) == len(p.elts):
            v = env.fold(n)
            if known(v) and isinstance(v, (set, frozenset, tuple, list)):
                try:
                    return set(v) == set(pv)
                except TypeError:
                    return False
        if type(n) is not type(p) or len(n.elts) != len(p.elts):
            return False
        return all(match(a, b, env) for a, b in zip(p.elts, n.elts))
    if isinstance(p, ast.Subscript):
        return (isinstance(n, ast.Subscript)
                and match(p.value, n.value, env)
                and match(p.slice, n.slice, env))
    if isinstance(p, ast.Starred):
        return isinstance(n, ast.Starred) and match(p.value, n.value, env)
    if isinstance(p, ast.UnaryOp):
        return (isinstance(n, ast.UnaryOp) and type(n.op) is type(p.op)
                and match(p.operand, n.operand, env))
    if isinstance(p, ast.BinOp):
        return (isinstance(n, ast.BinOp) and type(n.op) is type(p.op)
                and match(p.left, n.left, env)
                and match(p.right, n.right, env))
    if isinstance(p, ast.BoolOp):
        return (isinstance(n, ast.BoolOp) and type(n.op) is type(p.op)
                and len(n.values) == len(p.values)
                and all(match(a, b, env)
                        for a, b in zip(p.values, n.values)))
    if isinstance(p, ast.Compare):
        return match_atom_nodes(p, True, n, True, env)
    if isinstance(p, ast.IfExp):
        return (isinstance(n, ast.IfExp) and match(p.test, n.test, env)
                and match(p.body, n.body, env)
                and match(p.orelse, n.orelse, env))
    if isinstance(p, ast.Slice):
        def opt(a, b):
            if a is None or b is None:
                return a is None and b is None
            return match(a, b, env)
        return (isinstance(n, ast.Slice) and opt(p.lower, n.lower)
                and opt(p.upper, n.upper) and opt(p.step, n.step))
    if isinstance(p, (ast.ListComp, ast.SetComp, ast.GeneratorExp)):
        if type(n) is not type(p) or len(n.generators) != len(p.generators):
            return False
        for pg, ng in zip(p.generators, n.generators):
            if not (match(pg.target, ng.target, env)
                    and match(pg.iter, ng.iter, env)
                    and len(pg.ifs) == len(ng.ifs)
                    and all(match(a, b, env)
                            for a, b in zip(pg.ifs, ng.ifs))):
                return False
        return match(p.elt, n.elt, env)
    if isinstance(p, ast.Dict):
        return (isinstance(n, ast.Dict) and len(p.keys) == len(n.keys)
                and all((a is None and b is None) or (
                    a is not None and b is not None and match(a, b, env))
                    for a, b in zip(p.keys, n.keys))
                and all(match(a, b, env)
                        for a, b in zip(p.values, n.values)))
    if isinstance(p, ast.JoinedStr):
        return isinstance(n, ast.JoinedStr) and norm(p) == norm(n)
    return False


def match_atom_nodes(p, ppol, n, npol, env: Env) -> bool:
    """Match an atom pattern (node, polarity) against a fact atom."""
    while isinstance(p, ast.UnaryOp) and isinstance(p.op, ast.Not):
        p, ppol = p.operand, not ppol
    while isinstance(n, ast.UnaryOp) and isinstance(n.op, ast.Not):
        n, npol = n.operand, not npol
    pc = canon_cmp(p, ppol)
    nc = canon_cmp(n, npol)
    if pc is not None:
        if nc is None:
            return False
        pop, pa, pb, ppol2 = pc
        nop, na, nb, npol2 = nc
        if pop != nop or ppol2 != npol2:
            return False
        saved = dict(env.binds)
        if match(pa, na, env) and match(pb, nb, env):
            return True
        env.binds.clear()
        env.binds.update(saved)
        if pop in ('==', 'is'):
            if match(pa, nb, env) and match(pb, na, env):
                return True
            env.binds.clear()
            env.binds.update(saved)
        return False
    if nc is not None:
        return False
    if ppol != npol:
        return False
    saved = dict(env.binds)
    if match(p, n, env):
        return True
    env.binds.clear()
    env.binds.update(saved)
    return False


def parse_pat(s: str):
    s = s.strip()
    pol = True
    while s.startswith('!'):
        pol = not pol
        s = s[1:].strip()
    try:
        node = ast.parse(s, mode='eval').body
    except SyntaxError as exc:
        raise ValueError(f'bad pattern {s!r}: {exc}')
    return node, pol


# ----------------------------------------------------------------------
class Req:
    """A requirement on path conditions."""

    def atom(self, node, pol, env) -> bool:  # pragma: no cover
        raise NotImplementedError

    def implied_by(self, fact, env) -> bool:
        if fact[0] == 'atom':
            saved = dict(env.binds)
            if self.atom(fact[1], fact[2], env):
                return True
            env.binds.clear()
            env.binds.update(saved)
            return False
        if fact[0] == 'and':
            return any(self.implied_by(m, env) for m in fact[1])
        return all(self.implied_by(m, env) for m in fact[1])

    def holds(self, facts, env) -> bool:
        return any(self.implied_by(f, env) for f in facts)


class P(Req):
    def __init__(self, s: str):
        self.s = s
        self.node, self.pol = parse_pat(s)

    def atom(self, node, pol, env):
        return match_atom_nodes(self.node, self.pol, node, pol, env)

    def __repr__(self):
        return self.s


class Pred(Req):
    def __init__(self, name, fn):
        self.name = name
        self.fn = fn

    def atom(self, node, pol, env):
        return bool(self.fn(node, pol, env))

    def __repr__(self):
        return self.name


class AnyOf(Req):
    """Disjunctive requirement: a fact no weaker than alt1 or alt2 or ..."""

    def __init__(self, *alts):
        self.alts = [P(a) if isinstance(a, str) else a for a in alts]

    def atom(self, node, pol, env):
        for a in self.alts:
            saved = dict(env.binds)
            if a.atom(node, pol, env):
                return True
            env.binds.clear()
            env.binds.update(saved)
        return False

    def __repr__(self):
        return 'any(' + ' | '.join(map(repr, self.alts)) + ')'


def R(x) -> Req:
    return P(x) if isinstance(x, str) else x


# ----------------------------------------------------------------------
def status_check(node, pol, env: Env):
    """Recognise a status test. -> (receiver_text, frozenset, pol, extra)."""
    while isinstance(node, ast.UnaryOp) and isinstance(node.op, ast.Not):
        node, pol = node.operand, not pol
    if isinstance(node, ast.Call) and isinstance(node.func, ast.Attribute) \
            and node.func.attr == 'state':
        vals = []
        for a in node.args:
            if isinstance(a, ast.Starred):
                v = env.fold(a.value)
                if not known(v):
                    return None
                vals.extend(v)
            else:
                v = env.fold(a)
                if not known(v):
                    return None
                vals.append(v)
        extra = {k.arg: norm(k.value) for k in node.keywords}
        return norm(node.func.value), frozenset(vals), pol, extra
    c = canon_cmp(node, pol)
    if c is not None:
        op, a, b, pol2 = c

        def is_status(x):
            return isinstance(x, ast.Attribute) and x.attr == 'status'
        if op in ('==', 'is'):
            if is_status(b) and not is_status(a):
                a, b = b, a
            if is_status(a):
                v = env.fold(b)
                if known(v) and isinstance(v, str):
                    recv = a.value
                    if isinstance(recv, ast.Attribute) and recv.attr == \
                            'state':
                        recv = recv.value
                    return norm(recv), frozenset([v]), pol2, {}
        if op == 'in' and is_status(a):
            v = env.fold(b)
            if known(v) and isinstance(v, (set, frozenset, tuple, list)):
                recv = a.value
                if isinstance(recv, ast.Attribute) and recv.attr == 'state':
                    recv = recv.value
                return norm(recv), frozenset(v), pol2, {}
    return None


def StatusIn(*statuses) -> Req:
    """Fact: the task's status is within `statuses` (subset is stronger)."""
    want = frozenset(statuses)

    def fn(node, pol, env):
        sc = status_check(node, pol, env)
        return (sc is not None and sc[2] and sc[1] and sc[1] <= want
                and not sc[3])
    return Pred('status in {%s}' % ','.join(sorted(want)), fn)


def StatusNotIn(*statuses) -> Req:
    """Fact: the status is none of `statuses` (superset is stronger)."""
    want = frozenset(statuses)

    def fn(node, pol, env):
        sc = status_check(node, pol, env)
        return (sc is not None and not sc[2] and sc[1] >= want
                and not sc[3])
    return Pred('status not in {%s}' % ','.join(sorted(want)), fn)


def find_all(root, pattern: str, env: Optional[Env] = None,
             K=None) -> List[ast.AST]:
    """All sub-nodes of root matching an expression pattern."""
    pnode, _pol = parse_pat(pattern)
    out = []
    for n in ast.walk(root):
        if not isinstance(n, ast.expr):
            continue
        e = Env(K if env is None else env.K)
        if match(pnode, n, e):
            out.append(n)
    return out


def StatusCovers(*statuses) -> Req:
    """Fact: a positive status test whose set contains all of `statuses`
    (for sites that must *include* these statuses, e.g. counting)."""
    want = frozenset(statuses)

    def fn(node, pol, env):
        sc = status_check(node, pol, env)
        return sc is not None and sc[2] and sc[1] >= want and not sc[3]
    return Pred('status test covering {%s}' % ','.join(sorted(want)), fn)


def StatusExactly(*statuses) -> Req:
    want = frozenset(statuses)

    def fn(node, pol, env):
        sc = status_check(node, pol, env)
        return sc is not None and sc[2] and sc[1] == want and not sc[3]
    return Pred('status in exactly {%s}' % ','.join(sorted(want)), fn)


def StatusNotExactly(*statuses) -> Req:
    want = frozenset(statuses)

    def fn(node, pol, env):
        sc = status_check(node, pol, env)
        return sc is not None and not sc[2] and sc[1] == want and not sc[3]
    return Pred('status not in exactly {%s}' % ','.join(sorted(want)), fn)

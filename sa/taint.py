"""A6 (regex flavour): provenance of the fragments interpolated into a string.

fragments(c, expr) decomposes a string-building expression (%-format,
f-string, +, .format, .join, local names with all their assignments) into
leaf operands and classifies each as
  const    folds to a compile-time constant (or is a literal)
  escaped  wrapped in one of the sanitiser calls (default: re.escape)
  raw      anything else (a dynamic value reaching the string unsanitised)
"""
from __future__ import annotations

import ast
from typing import List, Tuple

from .consts import known
from .index import norm

RE_FUNCS = {'sub', 'subn', 'compile', 'match', 'search', 'findall',
            'fullmatch', 'split', 'finditer'}


def _is_sanitiser(n, sanitisers):
    if not isinstance(n, ast.Call):
        return False
    fn = n.func
    name = norm(fn)
    return name in sanitisers


def fragments(c, expr, f=None, sanitisers=('re.escape',), _depth=0,
              _seen=None) -> List[Tuple[ast.AST, str]]:
    _seen = _seen if _seen is not None else set()
    out = []
    if _depth > 6:
        return [(expr, 'raw')]
    if isinstance(expr, ast.Constant):
        return [(expr, 'const')]
    if _is_sanitiser(expr, sanitisers):
        return [(expr, 'escaped')]
    if isinstance(expr, ast.JoinedStr):
        for v in expr.values:
            if isinstance(v, ast.FormattedValue):
                # str(CONST) conversions are fine
                out += fragments(c, v.value, f, sanitisers, _depth + 1, _seen)
        return out or [(expr, 'const')]
    if isinstance(expr, ast.BinOp) and isinstance(expr.op, ast.Mod):
        out += fragments(c, expr.left, f, sanitisers, _depth + 1, _seen)
        r = expr.right
        if isinstance(r, ast.Tuple):
            for e in r.elts:
                out += fragments(c, e, f, sanitisers, _depth + 1, _seen)
        elif isinstance(r, ast.Dict):
            for e in r.values:
                out += fragments(c, e, f, sanitisers, _depth + 1, _seen)
        else:
            out += fragments(c, r, f, sanitisers, _depth + 1, _seen)
        return out
    if isinstance(expr, ast.BinOp) and isinstance(expr.op, (ast.Add,
                                                            ast.Mult)):
        return (fragments(c, expr.left, f, sanitisers, _depth + 1, _seen)
                + fragments(c, expr.right, f, sanitisers, _depth + 1, _seen))
    if isinstance(expr, ast.Call) and isinstance(expr.func, ast.Attribute):
        if expr.func.attr == 'format':
            out += fragments(c, expr.func.value, f, sanitisers, _depth + 1,
                             _seen)
            for a in expr.args:
                out += fragments(c, a, f, sanitisers, _depth + 1, _seen)
            for k in expr.keywords:
                out += fragments(c, k.value, f, sanitisers, _depth + 1, _seen)
            return out
        if expr.func.attr == 'join' and len(expr.args) == 1:
            out += fragments(c, expr.func.value, f, sanitisers, _depth + 1,
                             _seen)
            a = expr.args[0]
            if isinstance(a, (ast.GeneratorExp, ast.ListComp)):
                out += fragments(c, a.elt, f, sanitisers, _depth + 1, _seen)
            elif isinstance(a, (ast.List, ast.Tuple)):
                for e in a.elts:
                    out += fragments(c, e, f, sanitisers, _depth + 1, _seen)
            else:
                out += fragments(c, a, f, sanitisers, _depth + 1, _seen)
            return out
        if expr.func.attr in ('strip', 'lower', 'upper') and not expr.args:
            return fragments(c, expr.func.value, f, sanitisers, _depth + 1,
                             _seen)
    if isinstance(expr, ast.Call) and isinstance(expr.func, ast.Name) and \
            expr.func.id == 'str' and len(expr.args) == 1:
        return fragments(c, expr.args[0], f, sanitisers, _depth + 1, _seen)
    if isinstance(expr, (ast.Name, ast.Attribute)):
        v = c.K.fold_at(expr) if id(expr) in c.idx.parent else None
        if v is not None and known(v):
            return [(expr, 'const')]
        if isinstance(expr, ast.Attribute):
            # Class / self constants that are compiled patterns or unknown
            # module constants (upper-case by convention in this repo)
            tail = expr.attr
            if tail.isupper() or tail.startswith('_RE') or tail.startswith(
                    'REC_') or tail.startswith('RE_'):
                return [(expr, 'const')]
            if tail == 'pattern':
                return fragments(c, expr.value, f, sanitisers, _depth + 1,
                                 _seen)
            return [(expr, 'raw')]
        if expr.id.isupper():
            return [(expr, 'const')]
        f = f or c.idx.owner(expr)
        if f is None or (f.fq, expr.id) in _seen:
            return [(expr, 'raw')] if f is None else []
        _seen.add((f.fq, expr.id))
        assigns = []
        for n in ast.walk(f.node):
            if isinstance(n, ast.Assign):
                for t in n.targets:
                    if isinstance(t, ast.Name) and t.id == expr.id:
                        assigns.append(n.value)
                    elif isinstance(t, (ast.Tuple, ast.List)) and any(
                            isinstance(e, ast.Name) and e.id == expr.id
                            for e in t.elts):
                        assigns.append(None)
            elif isinstance(n, ast.AugAssign) and isinstance(
                    n.target, ast.Name) and n.target.id == expr.id:
                assigns.append(n.value)
            elif isinstance(n, ast.AnnAssign) and isinstance(
                    n.target, ast.Name) and n.target.id == expr.id and \
                    n.value is not None:
                assigns.append(n.value)
            elif isinstance(n, (ast.For, ast.comprehension)):
                for s in ast.walk(n.target):
                    if isinstance(s, ast.Name) and s.id == expr.id:
                        assigns.append(None)
        params = {a.arg for a in (f.node.args.args + f.node.args.kwonlyargs
                                  + f.node.args.posonlyargs)}
        if expr.id in params or not assigns or any(a is None
                                                   for a in assigns):
            return [(expr, 'raw')]
        for a in assigns:
            out += fragments(c, a, f, sanitisers, _depth + 1, _seen)
        return out
    if isinstance(expr, ast.IfExp):
        return (fragments(c, expr.body, f, sanitisers, _depth + 1, _seen)
                + fragments(c, expr.orelse, f, sanitisers, _depth + 1, _seen))
    return [(expr, 'raw')]


def regex_calls(c, scope):
    """(call, pattern_arg) for every re.<func>(pattern, ...) in scope."""
    out = []
    for root in c.scope_nodes(scope):
        for n in ast.walk(root):
            if isinstance(n, ast.Call) and isinstance(n.func, ast.Attribute) \
                    and n.func.attr in RE_FUNCS and isinstance(
                        n.func.value, ast.Name) and n.func.value.id == 're' \
                    and n.args:
                out.append((n, n.args[0]))
    return out

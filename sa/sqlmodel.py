"""A7: SQL / schema model of the run database (from source text only).

schema(c)            {table: [columns]} from CylcWorkflowDAO.TABLES_ATTRS
tables(c)            {TABLE_CONST: table name}
statement(c, func)   the SQL text built in a DAO method, with table constants
                     folded in (f-strings, % dict / tuple formatting)
select_columns(sql)  [(table_or_None, column, raw)] of the first SELECT list
writer_rows(c)       [(table, {key: value node}, call node, func)] for every
                     dict appended to db_inserts_map[...] (and _put_insert_task_x)
"""
from __future__ import annotations

import ast
import re
from typing import Dict, List, Optional, Tuple

from .consts import known
from .index import norm

DAO = 'CylcWorkflowDAO'


def tables(c) -> Dict[str, str]:
    out = {}
    for ci in c.idx.classes.get(DAO, []):
        for st in ci.node.body:
            if isinstance(st, ast.Assign) and isinstance(
                    st.targets[0], ast.Name) and st.targets[0].id.startswith(
                    'TABLE_') and isinstance(st.value, ast.Constant):
                out[st.targets[0].id] = st.value.value
    return out


def schema(c) -> Dict[str, List[str]]:
    ta = c.K.class_attr(DAO, 'TABLES_ATTRS')
    if not isinstance(ta, dict):
        return {}
    out = {}
    for t, cols in ta.items():
        out[t] = [col[0] for col in cols]
    return out


def _fold_str(c, node, f, env_names):
    """Best-effort string value of an expression inside DAO method f."""
    if isinstance(node, ast.Constant) and isinstance(node.value, str):
        return node.value
    if isinstance(node, ast.JoinedStr):
        s = ''
        for v in node.values:
            if isinstance(v, ast.Constant):
                s += str(v.value)
            else:
                inner = _fold_str(c, v.value, f, env_names)
                s += inner if inner is not None else '?'
        return s
    if isinstance(node, ast.Attribute):
        tb = tables(c)
        if node.attr in tb:
            return tb[node.attr]
        v = c.K.fold_at(node) if id(node) in c.idx.parent else None
        if isinstance(v, str):
            return v
        return None
    if isinstance(node, ast.Name):
        if node.id in env_names:
            return env_names[node.id]
        return None
    if isinstance(node, ast.BinOp) and isinstance(node.op, ast.Add):
        a = _fold_str(c, node.left, f, env_names)
        b = _fold_str(c, node.right, f, env_names)
        if a is None or b is None:
            return (a or '') + (b or '') if (a or b) else None
        return a + b
    if isinstance(node, ast.BinOp) and isinstance(node.op, ast.Mod):
        a = _fold_str(c, node.left, f, env_names)
        if a is None:
            return None
        r = node.right
        if isinstance(r, ast.Name) and r.id in env_names and isinstance(
                env_names[r.id], dict):
            try:
                return a % _Default(env_names[r.id])
            except Exception:
                return a
        if isinstance(r, ast.Dict):
            d = {}
            for k, v in zip(r.keys, r.values):
                if isinstance(k, ast.Constant):
                    d[k.value] = _fold_str(c, v, f, env_names) or '?'
            try:
                return a % _Default(d)
            except Exception:
                return a
        vals = r.elts if isinstance(r, ast.Tuple) else [r]
        folded = tuple(_fold_str(c, v, f, env_names) or '?' for v in vals)
        try:
            return a % folded
        except Exception:
            return a
    if isinstance(node, ast.Call) and isinstance(node.func, ast.Attribute) \
            and node.func.attr == 'join':
        return '?'
    return None


class _Default(dict):
    def __missing__(self, k):
        return '?'


def statement(c, f) -> str:
    """Concatenation of every SQL-looking string built in f (in order)."""
    env: Dict[str, object] = {}
    parts = []
    for n in sorted((x for x in c.idx.walk(f.node) if isinstance(
            x, (ast.Assign, ast.AugAssign, ast.AnnAssign))),
            key=lambda x: x.lineno):
        tgt = n.targets[0] if isinstance(n, ast.Assign) else n.target
        if not isinstance(tgt, ast.Name) or n.value is None:
            continue
        if isinstance(n.value, ast.Dict):
            d = {}
            for k, v in zip(n.value.keys, n.value.values):
                if isinstance(k, ast.Constant):
                    d[k.value] = _fold_str(c, v, f, env) or '?'
            env[tgt.id] = d
            continue
        s = _fold_str(c, n.value, f, env)
        if s is None:
            continue
        if isinstance(n, ast.AugAssign) and isinstance(env.get(tgt.id), str):
            env[tgt.id] = env[tgt.id] + s
        else:
            env[tgt.id] = s
    for name, v in env.items():
        if isinstance(v, str) and re.search(
                r'\b(SELECT|UPDATE|DELETE|INSERT)\b', v, re.I):
            parts.append(v)
    # statements passed inline to execute(...)
    for n in c.idx.walk(f.node):
        if isinstance(n, ast.Call) and isinstance(n.func, ast.Attribute) and \
                n.func.attr in ('execute', 'executemany') and n.args:
            s = _fold_str(c, n.args[0], f, env)
            if s and s not in parts and re.search(
                    r'\b(SELECT|UPDATE|DELETE|INSERT)\b', s, re.I):
                parts.append(s)
    if not parts:
        return ''
    done = [p for p in parts if '%(' not in p]
    return max(done or parts, key=len)


def select_columns(sql: str) -> List[Tuple[Optional[str], str, str]]:
    m = re.search(r'\bSELECT\s+(DISTINCT\s+)?(.*?)\s+FROM\b', sql,
                  re.S | re.I)
    if not m:
        return []
    out = []
    depth = 0
    cur = ''
    for ch in m.group(2):
        if ch == '(':
            depth += 1
        elif ch == ')':
            depth -= 1
        if ch == ',' and depth == 0:
            out.append(cur.strip())
            cur = ''
        else:
            cur += ch
    if cur.strip():
        out.append(cur.strip())
    res = []
    for raw in out:
        item = re.sub(r'\s+AS\s+\w+$', '', raw, flags=re.I).strip()
        mm = re.match(r'^(?:(\w+)\.)?(\w+)$', item)
        if mm:
            res.append((mm.group(1), mm.group(2), raw))
        else:
            res.append((None, item, raw))
    return res


def from_tables(sql: str) -> List[str]:
    return re.findall(r'\b(?:FROM|JOIN)\s+(\w+)', sql, re.I)


def writer_rows(c):
    """Dict rows queued for insertion, per table."""
    tb = tables(c)
    out = []
    wdm = c.idx.cls('WorkflowDatabaseManager', 'workflow_db_mgr')
    for f in wdm.methods.values():
        for n in c.idx.walk(f.node):
            if not (isinstance(n, ast.Call) and isinstance(
                    n.func, ast.Attribute)):
                continue
            if n.func.attr in ('append', 'extend') and isinstance(
                    n.func.value, ast.Subscript) and norm(
                    n.func.value.value) == 'self.db_inserts_map':
                key = n.func.value.slice
                tname = tb.get(key.attr) if isinstance(
                    key, ast.Attribute) else None
                for d in ast.walk(n):
                    if isinstance(d, ast.Dict) and d.keys and all(
                            isinstance(k, ast.Constant) for k in d.keys):
                        out.append((tname, {k.value: v for k, v in zip(
                            d.keys, d.values)}, n, f))
            elif n.func.attr == '_put_insert_task_x' and len(n.args) >= 3:
                key = n.args[0]
                tname = tb.get(key.attr) if isinstance(
                    key, ast.Attribute) else None
                d = n.args[2]
                if isinstance(d, ast.Dict):
                    out.append((tname, {k.value: v for k, v in zip(
                        d.keys, d.values) if isinstance(k, ast.Constant)},
                        n, f))
    return out

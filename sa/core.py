"""Checker framework: obligations, rule helpers, evidence, known findings."""
from __future__ import annotations

import ast
import json
import os
import time
from typing import Callable, Dict, Iterable, List, Optional, Sequence

from .index import Index, Func, AnalysisError, norm
from .consts import Consts, UNKNOWN, known
from . import pat
from .pat import Env, R, Req, P, AnyOf, Pred, nf, flatten, show_fact
from . import pathcond
from .cfg import CFG, stmt_has, header_exprs
from . import effects

VERIF = os.path.dirname(os.path.dirname(os.path.abspath(__file__)))


class Ob:
    __slots__ = ('rule', 'key', 'ok', 'where', 'detail')

    def __init__(self, rule, key, ok, where, detail):
        self.rule, self.key, self.ok, self.where, self.detail = (
            rule, key, bool(ok), where, detail)

    def as_dict(self):
        return {'rule': self.rule, 'key': self.key,
                'verdict': 'ok' if self.ok else 'FAIL',
                'where': self.where, 'detail': self.detail}


class Checker:
    def __init__(self, pid: str, idx: Index, tier='quick'):
        self.pid = pid
        self.idx = idx
        self.K = Consts(idx)
        self.tier = tier
        self.obs: List[Ob] = []
        self.funcs_seen = set()
        self.sites_seen = 0
        self.notes: List[str] = []
        self._cfg = {}

    # ---------------------------------------------------------------- basics
    def func(self, mod: str, qual: str) -> Func:
        f = self.idx.func(mod, qual)
        self.funcs_seen.add(f.fq)
        return f

    def func_opt(self, mod: str, qual: str) -> Optional[Func]:
        f = self.idx.func(mod, qual, required=False)
        if f is not None:
            self.funcs_seen.add(f.fq)
        return f

    def cfg(self, f: Func) -> CFG:
        if id(f.node) not in self._cfg:
            self._cfg[id(f.node)] = CFG(f.node)
        return self._cfg[id(f.node)]

    def env(self, ctx=None) -> Env:
        return Env(self.K, ctx)

    def key(self, node, f: Optional[Func] = None) -> str:
        f = f or self.idx.owner(node)
        try:
            st = self.idx.stmt_of(node)
            if isinstance(st, (ast.If, ast.While)):
                txt = norm(st.test)
            elif isinstance(st, (ast.For, ast.AsyncFor)):
                txt = 'for ' + norm(st.target) + ' in ' + norm(st.iter)
            elif isinstance(st, (ast.FunctionDef, ast.AsyncFunctionDef,
                                 ast.ClassDef, ast.With, ast.Try)):
                txt = norm(node)
            else:
                txt = norm(st)
        except Exception:
            txt = norm(node)
        txt = ' '.join(txt.split())
        if len(txt) > 160:
            txt = txt[:157] + '...'
        return f'{f.fq if f else "<module>"} :: {txt}'

    def where(self, node, f=None):
        return self.idx.where(node, f)

    def ob(self, rule: str, key: str, ok, where: str = '', detail: str = ''):
        self.obs.append(Ob(rule, key, ok, where, detail))
        return bool(ok)

    def note(self, s):
        self.notes.append(s)

    # ---------------------------------------------------------------- search
    def scope_nodes(self, scope):
        """scope: Func | module name | ast node | None (whole package)."""
        if scope is None:
            for m in self.idx.modules.values():
                yield m.tree
        elif isinstance(scope, Func):
            yield scope.node
            # a function that is new relative to the reference snapshot,
            # could not be expanded in place (several returns, ...) and is
            # called only from this function is searched as part of it
            for h in self.new_helpers_of(scope):
                yield h.node
        elif isinstance(scope, str):
            yield self.idx.module(scope).tree
        elif isinstance(scope, (list, tuple)):
            for s in scope:
                yield from self.scope_nodes(s)
        else:
            yield scope

    def find(self, scope, pattern: str, own_body_only=False) -> List[ast.AST]:
        """Expression nodes matching pattern inside scope."""
        pnode, _ = pat.parse_pat(pattern)
        out = []
        want = ast.expr
        if type(pnode) in (ast.Call, ast.Subscript, ast.BinOp, ast.BoolOp,
                           ast.UnaryOp, ast.IfExp, ast.Attribute):
            want = type(pnode)
        elif isinstance(pnode, ast.Compare):
            want = (ast.Compare, ast.UnaryOp)
        for root in self.scope_nodes(scope):
            for n in self.idx.walk(root):
                if not isinstance(n, want):
                    continue
                if pat.match(pnode, n, self.env(n)):
                    if own_body_only and isinstance(scope, Func) and (
                            self.idx.owner(n) is not scope):
                        continue
                    out.append(n)
        self.sites_seen += len(out)
        return out

    def calls(self, scope, name: str) -> List[ast.Call]:
        """Calls whose callee is `<anything>.name(...)` or `name(...)`."""
        out = []
        for root in self.scope_nodes(scope):
            for n in self.idx.walk(root):
                if isinstance(n, ast.Call):
                    fn = n.func
                    if (isinstance(fn, ast.Attribute) and fn.attr == name) \
                            or (isinstance(fn, ast.Name) and fn.id == name):
                        out.append(n)
        self.sites_seen += len(out)
        return out

    def refs(self, scope, name: str) -> List[ast.AST]:
        """Non-call references `X.name` / `name` (callbacks, partials)."""
        out = []
        for root in self.scope_nodes(scope):
            for n in self.idx.walk(root):
                if isinstance(n, ast.Attribute) and n.attr == name or (
                        isinstance(n, ast.Name) and n.id == name
                        and isinstance(n.ctx, ast.Load)):
                    par = self.idx.parent.get(id(n))
                    if isinstance(par, ast.Call) and par.func is n:
                        continue
                    if isinstance(n, ast.Attribute) and isinstance(
                            n.ctx, ast.Store):
                        continue
                    out.append(n)
        return out

    def stores(self, scope, attr: str):
        out = []
        for root in self.scope_nodes(scope):
            out.extend(effects.stores(self.idx.walk(root), attr))
        self.sites_seen += len(out)
        return out

    def owner(self, node) -> Optional[Func]:
        f = self.idx.owner(node)
        if f is not None:
            self.funcs_seen.add(f.fq)
        return f

    # ---------------------------------------------------------------- facts
    def resolve_helper(self, call: ast.Call) -> Optional[Func]:
        fn = call.func
        name = fn.attr if isinstance(fn, ast.Attribute) else (
            fn.id if isinstance(fn, ast.Name) else None)
        if name is None:
            return None
        owner = self.idx.owner(call)
        cands = []
        if isinstance(fn, ast.Attribute) and isinstance(fn.value, ast.Name) \
                and fn.value.id in ('self', 'cls') and owner is not None \
                and owner.cls is not None:
            m = self.idx.mro_methods(owner.cls, name)
            if m is not None:
                cands = [m]
        if not cands:
            cands = self.idx.funcs_named(name)
        if len(cands) != 1:
            return None
        return cands[0]

    def facts(self, node, expand=True, stop=None, at_entry=False) -> list:
        fs = pathcond.facts(self.idx, node, stop, at_entry=at_entry)
        # inside a new helper with a single call site: what holds at that
        # call also holds here (context through the unique caller)
        f = self.idx.owner(node)
        depth = 0
        while f is not None and stop is None and depth < 2 and \
                self._is_new(f):
            sites = self._call_sites(f)
            if len(sites) != 1:
                break
            fs = fs + pathcond.facts(self.idx, sites[0], None,
                                     at_entry=at_entry)
            f = self.idx.owner(sites[0])
            depth += 1
        if expand:
            fs = pathcond.expand_helpers(self.idx, fs, self.resolve_helper)
        return fs

    # ------------------------------------------------- new (unexpanded) helpers
    def _is_new(self, f: Func) -> bool:
        from . import normalize
        ref = normalize.load_reference().get(f.path)
        return ref is not None and f.qual not in ref

    def _call_sites(self, f: Func) -> list:
        cache = self.__dict__.setdefault('_cs_cache', {})
        if f.fq not in cache:
            mod = self.idx.modules.get(f.mod)
            out = []
            for n in (mod.nodes if mod is not None else []):
                if isinstance(n, ast.Call):
                    fn = n.func
                    nm = fn.attr if isinstance(fn, ast.Attribute) else (
                        fn.id if isinstance(fn, ast.Name) else None)
                    if nm == f.name and self.idx.owner(n) is not f:
                        out.append(n)
            # referenced as a value anywhere, or used in another module:
            # not a private helper
            for m in self.idx.modules.values():
                for n in m.nodes:
                    if isinstance(n, ast.Attribute) and n.attr == f.name or (
                            isinstance(n, ast.Name) and n.id == f.name):
                        par = self.idx.parent.get(id(n))
                        if not (isinstance(par, ast.Call) and par.func is n
                                and m.name == f.mod):
                            out = []
                            break
                else:
                    continue
                break
            cache[f.fq] = out
        return cache[f.fq]

    def new_helpers_of(self, f: Func) -> list:
        cache = self.__dict__.setdefault('_nh_cache', {})
        if f.fq not in cache:
            out, todo, seen = [], [f], {f.fq}
            while todo:
                g = todo.pop()
                for n in self.idx.walk(g.node):
                    if not isinstance(n, ast.Call):
                        continue
                    h = self.resolve_helper(n)
                    if h is None or h.fq in seen or h.mod != f.mod:
                        continue
                    seen.add(h.fq)
                    if self._is_new(h) and len(self._call_sites(h)) >= 1 \
                            and all(self.idx.owner(s) is g
                                    for s in self._call_sites(h)):
                        out.append(h)
                        todo.append(h)
            cache[f.fq] = out
        return cache[f.fq]

    def holds(self, node, req, extra_facts=(), at_entry=False) -> bool:
        fs = list(self.facts(node, at_entry=at_entry)) + list(extra_facts)
        return R(req).holds(fs, self.env(node))

    # ---------------------------------------------------------------- rules
    def guard(self, rule: str, node, reqs: Sequence, f: Optional[Func] = None,
              extra_facts=(), what: str = '', at_entry=False) -> bool:
        """R-GUARD: every requirement is among node's path conditions.
        at_entry: judge the conditions under which the enclosing branches
        were entered (ignore later re-assignment of tested names)."""
        f = f or self.owner(node)
        fs = list(self.facts(node, at_entry=at_entry)) + list(extra_facts)
        env = self.env(node)
        allok = True
        for r in reqs:
            rq = R(r)
            ok = rq.holds(fs, env)
            allok &= ok
            self.ob(rule, self.key(node, f) + f' ⟸ {rq!r}', ok,
                    self.where(node, f),
                    (what + ' ' if what else '') + (
                        'guard present' if ok else
                        f'required guard `{rq!r}` does not dominate '
                        f'`{norm(node)[:80]}`; path conditions: '
                        + '; '.join(show_fact(x) for x in fs)[:400]))
        return allok

    def guard_only(self, rule: str, node, allowed: Sequence,
                   f: Optional[Func] = None, what: str = '',
                   stop=None, composite_extra: Sequence = (),
                   flags_ok: bool = False) -> bool:
        """Every path condition of node is one of `allowed` (the effect must
        not be *more* restricted than stated: used for must-include sites).
        With `stop` (an enclosing statement) only conditions inside it are
        considered.  `composite_extra` atoms are accepted only as leaves of
        and/or facts (either polarity), never as a top-level restriction."""
        f = f or self.owner(node)
        fs = self.facts(node, expand=False, stop=stop)
        env = self.env(node)
        bad = []
        def leaves(fact):
            if fact[0] == 'atom':
                yield fact
            else:
                for m in fact[1]:
                    yield from leaves(m)
        for fact in fs:
            for leaf in leaves(fact):
                if leaf[0] == 'atom' and isinstance(leaf[1], ast.Constant):
                    continue      # `... or not True`: restricts nothing
                if flags_ok and leaf[0] == 'atom' and isinstance(
                        leaf[1], ast.Name):
                    continue      # a local boolean flag (not followed)
                al = list(allowed) + (
                    list(composite_extra) if fact[0] != 'atom' else [])

                def fits(a, lf):
                    # vocabulary check: metavariables are per atom, not
                    # shared across the facts of the site
                    env.binds.clear()
                    return R(a).implied_by(lf, env)
                if not any(fits(a, leaf) for a in al) \
                        and not (fact[0] != 'atom' and any(
                            fits(a, (leaf[0], leaf[1], not leaf[2]))
                            for a in al)):
                    bad.append(show_fact(fact))
                    break
        return self.ob(rule, self.key(node, f) + ' only-under ' + ', '.join(
            repr(R(a)) for a in allowed), not bad, self.where(node, f),
            (what + ' ' if what else '') + (
                'no extra restriction' if not bad else
                'site is additionally restricted by: ' + '; '.join(bad)))

    def floor(self, rule: str, what: str, found: int, minimum: int):
        return self.ob(rule, f'floor: {what}', found >= minimum, '',
                       f'{found} instance(s) found, {minimum} confirmed by '
                       f'hand' + ('' if found >= minimum else
                                  ' — mechanism missing'))

    def exactly(self, rule, what, found, expected):
        return self.ob(rule, f'count: {what}', found == expected, '',
                       f'{found} found, {expected} expected')

    def allow_sites(self, rule: str, sites: Iterable[ast.AST], table,
                    what: str):
        """R-WHO: each site matches an allow-list entry.

        table: list of (func_fq or None, [reqs], reason).  A site is accepted
        if an entry names its function (or names none) and its guards hold.
        """
        for n in sites:
            f = self.owner(n)
            fq = f.fq if f else '<module>'
            fs = self.facts(n)
            env = self.env(n)
            ok = False
            why = 'not in the allow-list'
            for ent_f, reqs, _reason in table:
                if ent_f is not None and ent_f != fq:
                    continue
                missing = [R(r) for r in reqs
                           if not R(r).holds(fs, self.env(n))]
                if not missing:
                    ok = True
                    break
                why = 'listed, but missing guard ' + ', '.join(
                    map(repr, missing))
            self.ob(rule, self.key(n, f), ok, self.where(n, f),
                    f'{what}: ' + ('allowed' if ok else why))

    def who_calls(self, rule: str, name: str, allowed: dict,
                  scope=None, floor: int = 1, recv=None, refs_ok=()):
        """R-WHO-CALLS: every call `X.name(...)` lies in an allowed function
        (dict: func fq -> list of guard reqs) and satisfies its guards.
        Bare references (callbacks) are reported unless owner in refs_ok."""
        sites = self.calls(scope, name)
        if recv is not None:
            sites = [s for s in sites if recv(s)]
        self.floor(rule, f'calls of {name} (positive control)', len(sites),
                   floor)
        for s in sites:
            f = self.owner(s)
            fq = f.fq if f else '<module>'
            if fq not in allowed:
                self.ob(rule, self.key(s, f), False, self.where(s, f),
                        f'{name}() called from {fq}, which is not in the '
                        f'allow-list {sorted(allowed)}')
                continue
            reqs = allowed[fq]
            if not reqs:
                self.ob(rule, self.key(s, f), True, self.where(s, f),
                        f'{name}() caller allowed')
            else:
                self.guard(rule, s, reqs, f)
        for r in self.refs(scope, name):
            f = self.owner(r)
            fq = f.fq if f else '<module>'
            if isinstance(r, ast.Name):
                # a bare name: only relevant if it is imported / a function
                continue
            par = self.idx.parent.get(id(r))
            if isinstance(par, ast.Attribute):
                continue
            if recv is not None:
                continue
            self.ob(rule, self.key(r, f) + f' [reference to {name}]',
                    fq in refs_ok or fq in allowed, self.where(r, f),
                    f'{name} passed as a value in {fq}')
        # dynamic dispatch by name: getattr(x, 'name') / methodcaller('name')
        # / setattr(x, 'name', ...) would bypass the syntactic call search
        for n in self._dynamic_name_uses(name, scope):
            f = self.owner(n)
            fq = f.fq if f else '<module>'
            self.ob(rule, self.key(n, f) + f' [dynamic use of {name!r}]',
                    fq in refs_ok or fq in allowed, self.where(n, f),
                    f'{name} reached through {norm(n.func)}(..., {name!r}) '
                    f'in {fq}: not visible to the caller allow-list')
        return sites

    def _dynamic_name_uses(self, name: str, scope=None):
        key = ('dyn', id(scope) if not isinstance(scope, str) else scope)
        cache = self.__dict__.setdefault('_dyn_cache', {})
        if key not in cache:
            table: Dict[str, list] = {}
            for root in self.scope_nodes(scope):
              for n in self.idx.walk(root):
                if isinstance(n, ast.Call) and isinstance(
                        n.func, (ast.Name, ast.Attribute)) and (
                        n.func.id if isinstance(n.func, ast.Name)
                        else n.func.attr) in (
                        'getattr', 'setattr', 'delattr', 'methodcaller',
                        'attrgetter', 'hasattr'):
                    for a in n.args:
                        if isinstance(a, ast.Constant) and isinstance(
                                a.value, str):
                            table.setdefault(a.value, []).append(n)
            cache[key] = table
        return [n for n in cache[key].get(name, [])
                if norm(n.func).split('.')[-1] != 'hasattr']

    def who_writes(self, rule: str, attr: str, allowed, scope=None,
                   floor: int = 1, keep=None, min_depth=0):
        """R-WHO-WRITES: stores to attribute `attr` only in allowed
        (func fq, kind) pairs; kind '*' allows any kind in that function."""
        sts = [s for s in self.stores(scope, attr) if s.depth >= min_depth]
        self.floor(rule, f'stores to .{attr} (positive control)', len(sts),
                   floor)
        aset = set(allowed)
        for s in sts:
            f = self.owner(s.node)
            fq = f.fq if f else '<module>'
            if keep is not None and not keep(s, f):
                continue
            ok = (fq, s.kind) in aset or (fq, '*') in aset
            self.ob(rule, self.key(s.node, f) + f' [{s.kind} .{attr}]', ok,
                    self.where(s.node, f),
                    f'{s.kind} of .{attr} in {fq}' + (
                        '' if ok else ' — not in the writer allow-list'))
        return sts

    def pre(self, rule: str, f: Func, target, test: Callable[[ast.AST], bool],
            what: str) -> bool:
        """R-PRE: on every path entry -> target a statement with test()."""
        st = self.idx.stmt_of(target)
        try:
            ok = self.cfg(f).dominated_by(
                st, lambda s: stmt_has(s, test))
        except KeyError:
            raise AnalysisError(f'{self.where(target, f)}: statement not in '
                                f'CFG of {f.fq}')
        return self.ob(rule, self.key(target, f) + f' after {what}', ok,
                       self.where(target, f),
                       f'{what} ' + ('dominates' if ok else
                                     'does NOT dominate') + ' the statement')

    def post(self, rule: str, f: Func, source, test, what: str) -> bool:
        """R-POST: every path source -> normal exit passes test()."""
        st = self.idx.stmt_of(source)
        try:
            ok = self.cfg(f).postdominated_by(
                st, lambda s: stmt_has(s, test))
        except KeyError:
            raise AnalysisError(f'{self.where(source, f)}: statement not in '
                                f'CFG of {f.fq}')
        return self.ob(rule, self.key(source, f) + f' then {what}', ok,
                       self.where(source, f),
                       f'{what} ' + ('follows on every normal path' if ok else
                                     'is NOT reached on some normal path '
                                     'to the exit'))

    def always(self, rule: str, f: Func, test, what: str) -> bool:
        """Every path entry -> normal exit passes a statement with test()."""
        cfg = self.cfg(f)
        from .cfg import ENTRY, EXIT
        seen = cfg._reach([ENTRY], lambda k: stmt_has(cfg.stmt[k], test))
        ok = EXIT not in seen
        return self.ob(rule, f'{f.fq} :: always {what}', ok,
                       self.where(f.node, f),
                       f'{what} ' + ('is on every normal path' if ok else
                                     'is skipped on some normal path'))

    def any_condition(self, node):
        """For `any(x for x in S if cond)` or `any(cond for x in S)` return
        (cond node, iterable node); else None."""
        if not (isinstance(node, ast.Call) and isinstance(
                node.func, ast.Name) and node.func.id == 'any'
                and len(node.args) == 1 and isinstance(
                    node.args[0], (ast.GeneratorExp, ast.ListComp))):
            return None
        g = node.args[0]
        if len(g.generators) != 1:
            ifs = [i for gg in g.generators for i in gg.ifs]
            bound = {norm(gg.target) for gg in g.generators}
            if len(ifs) == 1 and norm(g.elt) in bound:
                return ifs[0], g.generators[0].iter
            if not ifs:
                return g.elt, g.generators[0].iter
            return None
        gen = g.generators[0]
        if gen.ifs:
            if len(gen.ifs) == 1 and norm(g.elt) == norm(gen.target):
                return gen.ifs[0], gen.iter
            return None
        return g.elt, gen.iter

    def case_covered(self, cond, case: Sequence, ctx=None) -> bool:
        """cond (a boolean expression node) is true whenever all atoms of
        `case` hold: some disjunct of cond consists only of atoms of case."""
        tree = nf(cond, True)
        members = tree[1] if tree[0] == 'or' else [tree]
        env = self.env(ctx if ctx is not None else cond)
        reqs = [R(r) for r in case]
        for m in members:
            atoms = flatten([m]) if m[0] in ('and', 'atom') else None
            if atoms is None or any(a[0] != 'atom' for a in atoms):
                continue
            if all(any(r.atom(a[1], a[2], env) for r in reqs)
                   for a in atoms):
                return True
        return False

    def is_call_to(self, *names):
        def test(n):
            if isinstance(n, ast.Call):
                fn = n.func
                if isinstance(fn, ast.Attribute):
                    return fn.attr in names
                if isinstance(fn, ast.Name):
                    return fn.id in names
            return False
        return test

    def matches(self, pattern: str):
        pnode, _ = pat.parse_pat(pattern)

        def test(n):
            return isinstance(n, ast.expr) and pat.match(
                pnode, n, self.env(n))
        return test

    def assigns(self, target: str, value: str = '_'):
        """Statement test: `target = value` (patterns)."""
        tp, _ = pat.parse_pat(target)
        vp, _ = pat.parse_pat(value)

        def test(n):
            if isinstance(n, ast.Assign) and len(n.targets) == 1:
                t, v = n.targets[0], n.value
            elif isinstance(n, ast.AnnAssign) and n.value is not None:
                t, v = n.target, n.value
            else:
                return False
            env = self.env(n)
            return pat.match(tp, t, env) and pat.match(vp, v, env)
        return test

    def fold(self, node):
        return self.K.fold_at(node)


# ---------------------------------------------------------------------------
def load_known():
    p = os.path.join(VERIF, 'known_findings.json')
    if not os.path.exists(p):
        return []
    with open(p) as fh:
        return json.load(fh).get('findings', [])


def finish(c: Checker, meta: dict, t0: float, seed: int) -> int:
    """Print the report, write evidence + replay files; return exit code."""
    known_open = [k for k in load_known()
                  if k.get('property') == c.pid and k.get('status') == 'open']
    fails = [o for o in c.obs if not o.ok]
    viol = []
    reported_known = set()
    for o in fails:
        kf = None
        for k in known_open:
            if k.get('rule') == o.rule and k.get('key') == o.key:
                kf = k
                break
        if kf is not None:
            if id(kf) not in reported_known:
                reported_known.add(id(kf))
                print(f'KNOWN-FINDING: property={c.pid} {kf.get("what")} '
                      f'[{o.rule} @ {o.where}]')
        else:
            viol.append(o)
    evdir = os.path.join(VERIF, 'evidence')
    rdir = os.path.join(evdir, 'replay')
    os.makedirs(rdir, exist_ok=True)
    for i, o in enumerate(viol):
        rp = os.path.join(rdir, f'{c.pid}-{i}.json')
        with open(rp, 'w') as fh:
            json.dump({'property': c.pid, **o.as_dict(),
                       'replay_cmd': f'./check {c.pid} --replay {rp}'},
                      fh, indent=1)
        print(f'VIOLATION property={c.pid} replay={rp}')
        print(f'  {o.where}: [{o.rule}] {o.key}\n    {o.detail}')
    n_ok = sum(1 for o in c.obs if o.ok)
    distinct = len({(o.rule, o.key) for o in c.obs})
    rules = sorted({o.rule for o in c.obs})
    samples = [o.as_dict() for o in c.obs[:6]]
    for o in viol[:4]:
        samples.append(o.as_dict())
    ev = {
        'property_id': c.pid,
        'tier': c.tier,
        'seed': seed,
        'level': 'other',
        'coverage': {
            'explanation': (
                'Static analysis of /repo\'s current source (parsed, never '
                'imported or run). Decides the listed structural clauses on '
                'all paths of the current source; does not decide the '
                'behavioural property over runs. ' + meta.get('clauses', '')),
            'obligations': len(c.obs),
            'discharged': n_ok,
            'evaluations': len(c.obs),
            'distinct_nontrivial': distinct,
            'rule': ('one obligation per rule instance (guard atom of an '
                     'effect site, allow-list membership of a site, '
                     'dominance / post-dominance of a paired call, table '
                     'relation); distinct = distinct (rule, construct key)'),
            'rules': rules,
            'functions_analysed': sorted(c.funcs_seen),
            'call_sites_examined': c.sites_seen,
            'modules_parsed': len(c.idx.modules),
            'functions_indexed': len(c.idx.funcs),
            'source_digest': c.idx.digest,
            'rule_instances': [o.as_dict() for o in c.obs],
            'samples': samples,
            'known_findings_reported': len(reported_known),
            'notes': c.notes,
            'exhaustive': True,
        },
        'assumptions': meta.get('assumptions', []) + [
            'Python ast parser is correct',
            'implicit exceptions are not CFG edges outside try bodies',
            'getattr/setattr/monkey-patching are outside the analysed '
            'program',
            'instance tables in /verif/rules were confirmed by reading the '
            'pinned commit',
        ],
        'wall_s': round(time.time() - t0, 3),
        'violations': len(viol),
    }
    with open(os.path.join(evdir, f'{c.pid}.json'), 'w') as fh:
        json.dump(ev, fh, indent=1, default=str)
    print(f'{c.pid} [{c.tier}]: {len(c.obs)} obligations, {n_ok} discharged, '
          f'{len(viol)} violation(s), {len(reported_known)} known finding(s), '
          f'{len(c.funcs_seen)} functions, {c.sites_seen} sites, '
          f'{ev["wall_s"]}s')
    return 1 if viol else 0

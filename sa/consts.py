"""A5: constant folding over the AST, across modules. Repo code is never
imported: module/class level assignments are interpreted.
"""
from __future__ import annotations

import ast
from typing import Any

from .index import Index, Module


class _Unknown:
    def __repr__(self):
        return 'UNKNOWN'

    def __bool__(self):
        return False


UNKNOWN = _Unknown()


def known(v) -> bool:
    return v is not UNKNOWN


class Consts:
    def __init__(self, idx: Index):
        self.idx = idx
        self._mod_assign = {}   # mod name -> {name: value node}
        self._cls_assign = {}   # (mod, cls) -> {name: value node}
        self._cache = {}
        self._busy = set()
        self._shadow = frozenset()
        self._locals = {}
        for m in idx.modules.values():
            d = {}
            for st in m.tree.body:
                self._collect(st, d)
                if isinstance(st, (ast.If, ast.Try)):
                    for sub in ast.walk(st):
                        if isinstance(sub, (ast.Assign, ast.AnnAssign)):
                            self._collect(sub, d)
            self._mod_assign[m.name] = d
            for node in (ci.node for infos in idx.classes.values() for ci in infos if ci.mod == m.name):
                if isinstance(node, ast.ClassDef):
                    cd = {}
                    for st in node.body:
                        self._collect(st, cd)
                    self._cls_assign[(m.name, node.name)] = cd

    @staticmethod
    def _collect(st, d):
        if isinstance(st, ast.Assign):
            for t in st.targets:
                if isinstance(t, ast.Name):
                    d[t.id] = st.value
                elif isinstance(t, ast.Tuple) and isinstance(
                        st.value, ast.Tuple) and len(t.elts) == len(
                        st.value.elts):
                    for a, b in zip(t.elts, st.value.elts):
                        if isinstance(a, ast.Name):
                            d[a.id] = b
        elif isinstance(st, ast.AnnAssign) and st.value is not None:
            if isinstance(st.target, ast.Name):
                d[st.target.id] = st.value

    # ------------------------------------------------------------------
    def _relmod(self, dotted: str):
        if dotted == 'cylc.flow':
            return ''
        if dotted.startswith('cylc.flow.'):
            return dotted[len('cylc.flow.'):]
        return None

    def name(self, mod: Module, name: str, cls: str | None = None) -> Any:
        key = (mod.name, cls, name)
        if key in self._cache:
            return self._cache[key]
        if key in self._busy:
            return UNKNOWN
        self._busy.add(key)
        old = self._shadow
        self._shadow = frozenset()
        try:
            v = self._name(mod, name, cls)
        finally:
            self._shadow = old
            self._busy.discard(key)
        self._cache[key] = v
        return v

    def _name(self, mod, name, cls):
        if cls is not None:
            cd = self._cls_assign.get((mod.name, cls), {})
            if name in cd:
                return self.fold(cd[name], mod, cls)
        d = self._mod_assign.get(mod.name, {})
        if name in d:
            return self.fold(d[name], mod, None)
        if name in mod.imports:
            base, attr = mod.imports[name]
            rel = self._relmod(base)
            if rel is not None and attr is not None:
                if rel in self.idx.modules:
                    tm = self.idx.modules[rel]
                    if attr in self._mod_assign.get(rel, {}) or (
                            attr in tm.imports):
                        return self.name(tm, attr)
                sub = (rel + '.' + attr) if rel else attr
                if sub in self.idx.modules:
                    return UNKNOWN
        return UNKNOWN

    def class_attr(self, clsname: str, attr: str):
        for ci in self.idx.classes.get(clsname, []):
            todo = [ci]
            seen = set()
            while todo:
                c = todo.pop(0)
                if id(c) in seen:
                    continue
                seen.add(id(c))
                cd = self._cls_assign.get((c.mod, c.name), {})
                if attr in cd:
                    return self.fold(cd[attr], self.idx.modules[c.mod], c.name)
                for b in c.bases:
                    todo.extend(self.idx.classes.get(b, []))
        return UNKNOWN

    def class_attr_node(self, clsname: str, attr: str):
        for ci in self.idx.classes.get(clsname, []):
            cd = self._cls_assign.get((ci.mod, ci.name), {})
            if attr in cd:
                return cd[attr]
        return None

    def mod_attr_node(self, mod: str, name: str):
        return self._mod_assign.get(mod, {}).get(name)

    # ------------------------------------------------------------------
    def fold(self, node, mod: Module, cls: str | None = None) -> Any:
        """Value of an expression if it is a compile-time constant."""
        f = self.fold
        if isinstance(node, ast.Constant):
            return node.value
        if isinstance(node, ast.Name):
            if node.id in ('True', 'False', 'None'):
                return {'True': True, 'False': False, 'None': None}[node.id]
            if node.id in self._shadow:
                return UNKNOWN
            return self.name(mod, node.id, cls)
        if isinstance(node, ast.Attribute):
            # Class.ATTR, self.ATTR / cls.ATTR, module.ATTR, Enum.X.value
            if isinstance(node.value, ast.Name):
                base = node.value.id
                if base in ('self', 'cls') and cls is not None:
                    return self.class_attr(cls, node.attr)
                if base in self.idx.classes and (
                        base in mod.imports or any(
                            c.mod == mod.name
                            for c in self.idx.classes[base])):
                    return self.class_attr(base, node.attr)
                if base in mod.imports:
                    b, a = mod.imports[base]
                    rel = self._relmod(b if a is None else f'{b}.{a}')
                    if rel is not None and rel in self.idx.modules:
                        return self.name(self.idx.modules[rel], node.attr)
            if node.attr == 'value':
                inner = f(node.value, mod, cls)
                if known(inner):
                    return inner
            return UNKNOWN
        if isinstance(node, (ast.Tuple, ast.List, ast.Set)):
            out = []
            for e in node.elts:
                if isinstance(e, ast.Starred):
                    v = f(e.value, mod, cls)
                    if not known(v) or not isinstance(
                            v, (tuple, list, set, frozenset, dict)):
                        return UNKNOWN
                    out.extend(v)
                else:
                    v = f(e, mod, cls)
                    if not known(v):
                        return UNKNOWN
                    out.append(v)
            try:
                if isinstance(node, ast.Tuple):
                    return tuple(out)
                if isinstance(node, ast.List):
                    return list(out)
                return frozenset(out)
            except TypeError:
                return UNKNOWN
        if isinstance(node, ast.Dict):
            d = {}
            for k, v in zip(node.keys, node.values):
                if k is None:
                    vv = f(v, mod, cls)
                    if not isinstance(vv, dict):
                        return UNKNOWN
                    d.update(vv)
                    continue
                kk, vv = f(k, mod, cls), f(v, mod, cls)
                if not known(kk):
                    return UNKNOWN
                try:
                    d[kk] = vv
                except TypeError:
                    return UNKNOWN
            return d
        if isinstance(node, ast.JoinedStr):
            s = ''
            for v in node.values:
                if isinstance(v, ast.Constant):
                    s += str(v.value)
                elif isinstance(v, ast.FormattedValue):
                    x = f(v.value, mod, cls)
                    if not known(x) or v.format_spec is not None:
                        return UNKNOWN
                    s += str(x)
            return s
        if isinstance(node, ast.BinOp):
            a, b = f(node.left, mod, cls), f(node.right, mod, cls)
            if not known(a) or not known(b):
                return UNKNOWN
            try:
                if isinstance(node.op, ast.Add):
                    return a + b
                if isinstance(node.op, ast.BitOr):
                    if isinstance(a, (set, frozenset)):
                        return frozenset(a) | frozenset(b)
                    return a | b
                if isinstance(node.op, ast.BitAnd):
                    return a & b
                if isinstance(node.op, ast.Sub):
                    if isinstance(a, (set, frozenset)):
                        return frozenset(a) - frozenset(b)
                    return a - b
                if isinstance(node.op, ast.Mod):
                    return a % b
                if isinstance(node.op, ast.Mult):
                    return a * b
            except Exception:
                return UNKNOWN
            return UNKNOWN
        if isinstance(node, ast.UnaryOp):
            a = f(node.operand, mod, cls)
            if not known(a):
                return UNKNOWN
            try:
                if isinstance(node.op, ast.USub):
                    return -a
                if isinstance(node.op, ast.Not):
                    return not a
                if isinstance(node.op, ast.Invert):
                    return ~a
            except Exception:
                return UNKNOWN
            return UNKNOWN
        if isinstance(node, ast.Call):
            fn = node.func
            if isinstance(fn, ast.Name) and fn.id in (
                    'set', 'frozenset', 'tuple', 'list', 'sorted', 'dict'):
                if not node.args and not node.keywords:
                    return {'set': frozenset(), 'frozenset': frozenset(),
                            'tuple': (), 'list': [], 'sorted': [],
                            'dict': {}}[fn.id]
                if len(node.args) == 1 and not node.keywords:
                    a = f(node.args[0], mod, cls)
                    if not known(a):
                        return UNKNOWN
                    try:
                        if fn.id in ('set', 'frozenset'):
                            return frozenset(a)
                        if fn.id == 'tuple':
                            return tuple(a)
                        if fn.id == 'list':
                            return list(a)
                        if fn.id == 'sorted':
                            return sorted(a)
                        if fn.id == 'dict':
                            return dict(a)
                    except Exception:
                        return UNKNOWN
            if isinstance(fn, ast.Attribute) and fn.attr in (
                    'union', 'format', 'join', 'keys', 'values'):
                a = f(fn.value, mod, cls)
                if not known(a):
                    return UNKNOWN
                args = [f(x, mod, cls) for x in node.args]
                if any(not known(x) for x in args):
                    return UNKNOWN
                try:
                    if fn.attr == 'union':
                        return frozenset(a).union(*args)
                    if fn.attr == 'format' and not node.keywords:
                        return a.format(*args)
                    if fn.attr == 'join':
                        return a.join(*args)
                    if fn.attr == 'keys':
                        return list(a.keys())
                    if fn.attr == 'values':
                        return list(a.values())
                except Exception:
                    return UNKNOWN
            return UNKNOWN
        if isinstance(node, ast.Subscript):
            a = f(node.value, mod, cls)
            k = f(node.slice, mod, cls)
            if known(a) and known(k):
                try:
                    return a[k]
                except Exception:
                    return UNKNOWN
            return UNKNOWN
        return UNKNOWN

    def fold_in_context(self, node, ctx) -> Any:
        """Fold a detached expression as if it stood where ctx stands."""
        return self.fold_at(ctx, expr=node)

    def fold_at(self, node, expr=None) -> Any:
        """Fold an expression found somewhere in the indexed tree."""
        mod = self.idx.mod_of(node)
        f = self.idx.owner(node)
        cls = f.cls.name if (f is not None and f.cls is not None) else None
        if cls is None:
            cur = node
            while id(cur) in self.idx.parent:
                cur = self.idx.parent[id(cur)]
                if isinstance(cur, ast.ClassDef):
                    cls = cur.name
                    break
        # local names shadow module constants
        shadow = set()
        if f is not None:
            key = id(f.node)
            if key not in self._locals:
                loc = set()
                for sub in ast.walk(f.node):
                    if isinstance(sub, ast.Name) and isinstance(
                            sub.ctx, ast.Store):
                        loc.add(sub.id)
                    elif isinstance(sub, ast.arg):
                        loc.add(sub.arg)
                self._locals[key] = frozenset(loc)
            shadow = self._locals[key]
        old = self._shadow
        self._shadow = shadow
        try:
            return self.fold(node if expr is None else expr, mod, cls)
        finally:
            self._shadow = old

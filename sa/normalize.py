"""Refactoring-normal form relative to the reference snapshot.

The rules were confirmed, instance by instance, against the tree recorded in
`reference.json` (per module: every function with its local bindings).  A later
tree may differ from it by behaviour-preserving clean-ups that would make
syntactic instances unrecognisable although nothing changed:

  T1  extract-method: a *new* function (not in the snapshot) whose uses are
      all direct calls is expanded in place at those calls and, when nothing
      else refers to it, dropped;
  T2  rename-local: in a snapshot function, a local that vanished and a local
      that appeared with the same first binding are the same variable
      (alpha-renaming, always sound);
  T3  introduce-temp: a *new* single-assignment local whose defining
      expression cannot change between definition and use is replaced by that
      expression.

Each transform is semantics-preserving under the side conditions checked
below, so the normalised tree has the same behaviour as the tree on disk; the
rules then run on the normalised tree.  On the snapshot tree itself every
transform is the identity.  The notes say what was done (they go into the
evidence file).  Anything that does not meet the side conditions is left
alone -- the rules then see the code as written.
"""
from __future__ import annotations

import ast
import copy
import json
import os
from typing import Dict, List, Optional, Tuple

HERE = os.path.dirname(os.path.abspath(__file__))
REF_PATH = os.path.join(HERE, 'reference.json')
FN = (ast.FunctionDef, ast.AsyncFunctionDef)
SCOPES = FN + (ast.ClassDef, ast.Lambda, ast.ListComp, ast.SetComp,
               ast.DictComp, ast.GeneratorExp)
PURE_CALLS = {'str', 'int', 'bool', 'float', 'len', 'set', 'list', 'tuple',
              'dict', 'frozenset', 'sorted', 'min', 'max', 'isinstance',
              'repr', 'abs', 'any', 'all', 'sum', 'reversed', 'enumerate',
              'zip', 'range', 'Path', 'quote', 'compile',
              # (reading an attribute by name is as pure as `x.a`)
              'getattr', 'hasattr'}

_REF = None


def load_reference() -> dict:
    global _REF
    if _REF is None:
        try:
            with open(REF_PATH) as fh:
                _REF = json.load(fh)
        except FileNotFoundError:
            _REF = {}
    return _REF


def _unparse(n) -> str:
    try:
        return ast.unparse(n)
    except Exception:
        return ast.dump(n)


# --------------------------------------------------------------------------
# bindings of a function (its own scope only)
def own_nodes(fnode):
    """Nodes of a function's own scope (nested defs / lambdas / comprehensions
    are separate scopes and are not entered)."""
    todo = list(ast.iter_child_nodes(fnode))
    while todo:
        n = todo.pop()
        yield n
        if isinstance(n, SCOPES):
            continue
        todo.extend(ast.iter_child_nodes(n))


def bindings(fnode) -> List[Tuple[str, str, str]]:
    """[(name, kind, rhs text)] of first bindings, in source order."""
    found = {}

    def add(name, kind, rhs, node):
        pos = (getattr(node, 'lineno', 0), getattr(node, 'col_offset', 0))
        if name not in found or pos < found[name][0]:
            found[name] = (pos, kind, rhs)
    a = fnode.args
    for i, arg in enumerate(a.posonlyargs + a.args):
        add(arg.arg, 'arg', str(i), fnode)
    for arg in a.kwonlyargs:
        add(arg.arg, 'arg', 'kw', fnode)
    if a.vararg:
        add(a.vararg.arg, 'arg', '*', fnode)
    if a.kwarg:
        add(a.kwarg.arg, 'arg', '**', fnode)

    def targets(t, kind, rhs, node, path=''):
        if isinstance(t, ast.Name):
            add(t.id, kind, rhs + path, node)
        elif isinstance(t, (ast.Tuple, ast.List)):
            for i, e in enumerate(t.elts):
                targets(e, kind, rhs, node, f'{path}[{i}]')
        elif isinstance(t, ast.Starred):
            targets(t.value, kind, rhs, node, path + '*')
    for n in own_nodes(fnode):
        if isinstance(n, ast.Assign):
            for t in n.targets:
                targets(t, 'assign', _unparse(n.value), n)
        elif isinstance(n, ast.AnnAssign) and n.value is not None:
            targets(n.target, 'assign', _unparse(n.value), n)
        elif isinstance(n, ast.AugAssign):
            targets(n.target, 'assign', 'aug ' + _unparse(n.value), n)
        elif isinstance(n, (ast.For, ast.AsyncFor)):
            targets(n.target, 'for', _unparse(n.iter), n)
        elif isinstance(n, (ast.With, ast.AsyncWith)):
            for it in n.items:
                if it.optional_vars is not None:
                    targets(it.optional_vars, 'with',
                            _unparse(it.context_expr), n)
        elif isinstance(n, ast.ExceptHandler) and n.name:
            add(n.name, 'except', _unparse(n.type) if n.type else '', n)
        elif isinstance(n, (ast.Import, ast.ImportFrom)):
            for al in n.names:
                add((al.asname or al.name).split('.')[0], 'import',
                    al.name, n)
        elif isinstance(n, ast.NamedExpr):
            targets(n.target, 'walrus', _unparse(n.value), n)
    # comprehension variables (own scopes, but renamed with the rest of the
    # function when a clean-up renames them): kind 'comp', text = iterable
    todo = list(ast.iter_child_nodes(fnode))
    while todo:
        n = todo.pop()
        if isinstance(n, FN + (ast.ClassDef, ast.Lambda)):
            continue
        if isinstance(n, (ast.ListComp, ast.SetComp, ast.DictComp,
                          ast.GeneratorExp)):
            for g in n.generators:
                for t in ast.walk(g.target):
                    if isinstance(t, ast.Name) and t.id not in found:
                        add(t.id, 'comp', _unparse(g.iter), t)
        todo.extend(ast.iter_child_nodes(n))
    out = sorted((pos, name, kind, rhs) for name, (pos, kind, rhs)
                 in found.items())
    return [(name, kind, rhs) for _pos, name, kind, rhs in out]


def functions(tree) -> Dict[str, ast.AST]:
    """qualname -> def node (first definition wins)."""
    out = {}

    def visit(node, quals):
        for ch in ast.iter_child_nodes(node):
            if isinstance(ch, FN):
                q = '.'.join(quals + [ch.name])
                out.setdefault(q, ch)
                visit(ch, quals + [ch.name])
            elif isinstance(ch, ast.ClassDef):
                visit(ch, quals + [ch.name])
            else:
                visit(ch, quals)
    visit(tree, [])
    return out


def rebinds(fnode) -> List[List[str]]:
    """[[name, rhs text]] of the plain assignments `name = E(name)` that
    re-bind a local from its own old value (the reference for T2's
    rebinding step: a clean-up that gives the new value its own name)."""
    out = []
    for n in own_nodes(fnode):
        if isinstance(n, ast.Assign) and len(n.targets) == 1 and isinstance(
                n.targets[0], ast.Name):
            w = n.targets[0].id
            if any(isinstance(x, ast.Name) and x.id == w
                   for x in ast.walk(n.value)):
                out.append([w, _unparse(n.value)])
    return sorted(out)


REBINDS = '#rebinds'


def snapshot(trees: Dict[str, ast.AST]) -> dict:
    snap = {rel: {q: [list(b) for b in bindings(f)]
                  for q, f in sorted(functions(t).items())}
            for rel, t in sorted(trees.items())}
    rb = {}
    for rel, t in sorted(trees.items()):
        per = {q: rebinds(f) for q, f in sorted(functions(t).items())}
        per = {q: v for q, v in per.items() if v}
        if per:
            rb[rel] = per
    snap[REBINDS] = rb
    return snap


# --------------------------------------------------------------------------
class _Subst(ast.NodeTransformer):
    """Replace loads of given names by expressions / rename names."""

    def __init__(self, exprs: Dict[str, ast.AST], renames: Dict[str, str]):
        self.exprs = exprs
        self.renames = renames

    def visit_Name(self, node):
        if isinstance(node.ctx, ast.Load) and node.id in self.exprs:
            new = copy.deepcopy(self.exprs[node.id])
            if hasattr(node, 'lineno'):
                _relocate([new], node.lineno, 0, step=0.0)
            return new
        if node.id in self.renames:
            node.id = self.renames[node.id]
        return node

    def visit_arg(self, node):
        if node.arg in self.renames:
            node.arg = self.renames[node.arg]
        return node

    def visit_ExceptHandler(self, node):
        if node.name in self.renames:
            node.name = self.renames[node.name]
        return self.generic_visit(node)


def _relocate(nodes, base, k, step=1e-4):
    """Give every node under `nodes` the position base + k*step (k counts
    statements in order), so that source-order comparisons on line numbers
    keep working for code that was moved here from elsewhere.  Line numbers
    become floats; reports print their integer part (= the line of the call
    or use site in the file on disk)."""
    def rec(n):
        nonlocal k
        if isinstance(n, ast.stmt):
            k += 1
        if hasattr(n, 'lineno') or isinstance(
                n, (ast.expr, ast.stmt, ast.excepthandler)):
            n.lineno = base + k * step
            n.end_lineno = n.lineno
            n.col_offset = getattr(n, 'col_offset', 0) or 0
            n.end_col_offset = getattr(n, 'end_col_offset', 0) or 0
        for ch in ast.iter_child_nodes(n):
            rec(ch)
    for root in nodes:
        rec(root)
    return k


def _simple(e) -> bool:
    if isinstance(e, (ast.Name, ast.Constant)):
        return True
    if isinstance(e, ast.Attribute):
        return _simple(e.value)
    if isinstance(e, ast.Subscript):
        return _simple(e.value) and _simple(e.slice)
    if isinstance(e, ast.Starred):
        return False
    return False


def _names(node, ctx=None) -> set:
    return {n.id for n in ast.walk(node) if isinstance(n, ast.Name)
            and (ctx is None or isinstance(n.ctx, ctx))}


def _stored_names(node) -> set:
    out = set()
    for n in ast.walk(node):
        if isinstance(n, ast.Name) and isinstance(n.ctx, (ast.Store, ast.Del)):
            out.add(n.id)
        elif isinstance(n, ast.arg):
            out.add(n.arg)
        elif isinstance(n, ast.ExceptHandler) and n.name:
            out.add(n.name)
    return out


def _strip_doc(body):
    if body and isinstance(body[0], ast.Expr) and isinstance(
            body[0].value, ast.Constant) and isinstance(
            body[0].value.value, str):
        return body[1:]
    return body


def _tail_return(stmts):
    """The `return` in tail position of a block whose every other exit
    raises, or None: last statement is the return, or a try (no else /
    finally) whose body ends that way and whose handlers all end in raise,
    or a `with` whose body ends that way."""
    if not stmts:
        return None
    last = stmts[-1]
    if isinstance(last, ast.Return) and last.value is not None:
        return last
    if isinstance(last, ast.Try) and not last.orelse and not last.finalbody \
            and all(h.body and isinstance(h.body[-1], ast.Raise)
                    for h in last.handlers):
        return _tail_return(last.body)
    if isinstance(last, (ast.With, ast.AsyncWith)):
        return _tail_return(last.body)
    return None


def _replace_stmt(stmts, old, new) -> bool:
    for i, s in enumerate(stmts):
        if s is old:
            stmts[i] = new
            return True
        for field in ('body', 'orelse', 'finalbody'):
            blk = getattr(s, field, None)
            if isinstance(blk, list) and _replace_stmt(blk, old, new):
                return True
        for h in getattr(s, 'handlers', []) or []:
            if _replace_stmt(h.body, old, new):
                return True
    return False


def _as_expr(stmts):
    """The single expression a body of `return`s denotes, or None:
    [return e] -> e;  [if c: A (else: B)] + rest -> (A if c else B+rest)."""
    if len(stmts) == 1 and isinstance(stmts[0], ast.Return) and \
            stmts[0].value is not None:
        return stmts[0].value
    if stmts and isinstance(stmts[0], ast.If):
        s, rest = stmts[0], list(stmts[1:])
        a = _as_expr(s.body)
        b = _as_expr(list(s.orelse) + rest) if (s.orelse or rest) else None
        if a is not None and b is not None:
            e = ast.IfExp(test=s.test, body=a, orelse=b)
            return ast.copy_location(e, s)
    return None


def _tailify(stmts, mk, proc):
    """A block whose `return`s are all in tail position, with each
    `return e` replaced by mk(<the return>) and the code after an exiting
    `if` moved into its `else`; None when a return is not in tail position
    (inside a loop / try / with), or -- unless `proc` (bare returns, value
    unused) -- when some path falls off the end or returns nothing."""
    out = []
    for i, s in enumerate(stmts):
        rest = list(stmts[i + 1:])
        if isinstance(s, ast.Return):
            if rest:
                return None
            if s.value is None:
                return out if proc else None
            out.append(mk(s))
            return out
        if not any(isinstance(x, ast.Return) for x in ast.walk(s)):
            out.append(s)
            continue
        if not isinstance(s, ast.If):
            return None
        b_exit = _exits(s.body)
        o_exit = bool(s.orelse) and _exits(s.orelse)
        if b_exit and o_exit:
            if rest:
                return None
            nb = _tailify(s.body, mk, proc)
            no = _tailify(s.orelse, mk, proc)
        elif b_exit:
            nb = _tailify(s.body, mk, proc)
            no = _tailify(list(s.orelse) + rest, mk, proc)
        elif o_exit:
            nb = _tailify(list(s.body) + rest, mk, proc)
            no = _tailify(s.orelse, mk, proc)
        else:
            return None
        if nb is None or no is None:
            return None
        new = ast.If(test=s.test, body=nb or [ast.copy_location(
            ast.Pass(), s)], orelse=no)
        ast.copy_location(new, s)
        out.append(new)
        return out
    return out if proc else None


class _Helper:
    """A new function and what shape of inlining it admits."""

    def __init__(self, qual, node, cls):
        self.qual = qual
        self.node = node
        self.cls = cls            # enclosing ClassDef or None
        self.kind = None          # 'expr' | 'stmt' | 'value'
        self.static = False
        self.ok = self._classify()

    def _classify(self) -> bool:
        f = self.node
        decs = [_unparse(d) for d in f.decorator_list]
        if any(d not in ('staticmethod',) for d in decs):
            return False
        self.static = 'staticmethod' in decs or self.cls is None
        a = f.args
        if a.vararg or a.kwarg or a.posonlyargs:
            return False
        body = _strip_doc(f.body)
        if not body:
            return False
        for n in ast.walk(f):
            if n is f:
                continue
            if isinstance(n, FN + (ast.ClassDef, ast.Global, ast.Nonlocal,
                                   ast.Yield, ast.YieldFrom)):
                return False
            if isinstance(n, ast.Call) and (
                    (isinstance(n.func, ast.Attribute)
                     and n.func.attr == f.name)
                    or (isinstance(n.func, ast.Name)
                        and n.func.id == f.name)):
                return False      # recursive
        rets = [n for n in ast.walk(f) if isinstance(n, ast.Return)]
        if _as_expr(body) is not None:
            # `return e`, or a chain of `if c: return a` ... `return b`
            self.kind = 'expr'
            return True
        valued = [r for r in rets if r.value is not None]
        if not valued:
            # bare returns only as the very last statement
            if all(r is body[-1] for r in rets):
                self.kind = 'stmt'
                return True
            if _tailify(body, None, True) is not None:
                # early `return`s, all in tail position of an if-tree
                self.kind = 'procbody'
                return True
            return False
        if len(rets) == 1 and rets[0] is body[-1]:
            self.kind = 'value'
            self.split = len(body) - 1
            return True
        # statements without returns, then a chain of `if c: return a` ...
        # `return b` that denotes one expression
        for k in range(1, len(body)):
            if any(isinstance(x, ast.Return) for st in body[:k]
                   for x in ast.walk(st)):
                break
            if _as_expr(body[k:]) is not None:
                self.kind = 'value'
                self.split = k
                return True
        if len(rets) == 1 and _tail_return(body) is rets[0]:
            # `try: return e / except X: raise ...` as the last statement:
            # the return is in tail position and every other way out raises
            self.kind = 'tail'
            return True
        if len(valued) == len(rets) and _tailify(
                body, lambda r: r, False) is not None:
            # every path ends in `return e`, each in tail position of an
            # if-tree: the body takes the place of `return h()` / `x = h()`
            self.kind = 'retbody'
            return True
        return False

    def params(self):
        a = self.node.args
        names = [x.arg for x in a.args]
        defaults = dict(zip(names[len(names) - len(a.defaults):], a.defaults))
        for x, d in zip(a.kwonlyargs, a.kw_defaults):
            if d is not None:
                defaults[x.arg] = d
        return names, [x.arg for x in a.kwonlyargs], defaults


def _bind(helper: _Helper, call: ast.Call, recv) -> Optional[dict]:
    """param -> argument expression, or None when the call does not fit."""
    names, kwonly, defaults = helper.params()
    names = list(names)
    m = {}
    if not helper.static:
        if not names:
            return None
        m[names.pop(0)] = recv
    if any(isinstance(a, ast.Starred) for a in call.args) or any(
            k.arg is None for k in call.keywords):
        return None
    if len(call.args) > len(names):
        return None
    for p, a in zip(names, call.args):
        m[p] = a
    for k in call.keywords:
        if k.arg in m or k.arg not in names + kwonly:
            return None
        m[k.arg] = k.value
    for p in names + kwonly:
        if p not in m:
            if p not in defaults:
                return None
            m[p] = defaults[p]
    return m


def _live_across(fnode, name, site) -> bool:
    """May a value of the caller's variable `name` be read after the call
    site that was written before it (so that expanding a helper that also
    writes `name` would clobber it)?  Without position information: yes.
    Otherwise: the first occurrence of the name after the site is a read, or
    the site sits in a loop whose body reads the name before any write."""
    if fnode is None or site is None or not hasattr(site, 'lineno'):
        return True
    line = site.lineno
    end = getattr(site, 'end_lineno', line) or line
    occ = sorted(((n.lineno, n.col_offset, isinstance(n.ctx, ast.Load))
                  for n in ast.walk(fnode) if isinstance(n, ast.Name)
                  and n.id == name and hasattr(n, 'lineno')))
    after = [o for o in occ if o[0] > end]
    if after and after[0][2]:
        return True
    # enclosing loops: a read at the top of the body sees the previous
    # iteration's write
    for lp in ast.walk(fnode):
        if isinstance(lp, (ast.For, ast.AsyncFor, ast.While)) and \
                lp.lineno <= line <= (getattr(lp, 'end_lineno', line) or line):
            inside = [o for o in occ if lp.lineno <= o[0] < line]
            if isinstance(lp, (ast.For, ast.AsyncFor)):
                tgt = {t.id for t in ast.walk(lp.target)
                       if isinstance(t, ast.Name)}
                if name in tgt:
                    continue
            if inside and inside[0][2]:
                return True
    return False


def _expand(helper: _Helper, binding: dict, caller_names: set, tag: str,
            fnode=None, site=None):
    """(prefix statements, body statements, value expression or None)."""
    f = helper.node
    body = copy.deepcopy(_strip_doc(f.body))
    stored = set()
    for s in body:
        stored |= _stored_names(s)
    used = {}
    for s in body:
        for n in ast.walk(s):
            if isinstance(n, ast.Name) and isinstance(n.ctx, ast.Load):
                used[n.id] = used.get(n.id, 0) + 1
    exprs, prefix, renames = {}, [], {}
    params = set(binding)
    for p, arg in binding.items():
        if isinstance(arg, ast.Name) and arg.id == p and p not in stored:
            continue
        if p in stored or (not _simple(arg) and used.get(p, 0) > 1
                           and helper.kind != 'expr'):
            newp = p
            same = isinstance(arg, ast.Name) and arg.id == p
            # (same name, written by the helper: the caller's variable would
            # be clobbered unless its value is dead after the site or the
            # site itself re-binds it)
            rebound = isinstance(site, ast.Assign) and len(
                site.targets) == 1 and isinstance(
                site.targets[0], ast.Name) and site.targets[0].id == p
            if p in caller_names and (not same or (
                    p in stored and not rebound
                    and _live_across(fnode, p, site))):
                newp = f'{p}__{tag}'
                renames[p] = newp
            prefix.append(ast.Assign(
                targets=[ast.Name(id=newp, ctx=ast.Store())],
                value=copy.deepcopy(arg), lineno=f.lineno, col_offset=0))
        else:
            exprs[p] = arg
    arg_names = {n.id for a in binding.values() if isinstance(a, ast.AST)
                 for n in ast.walk(a) if isinstance(n, ast.Name)}
    for loc in stored - params:
        if isinstance(site, ast.Assign) and len(site.targets) == 1 and \
                isinstance(site.targets[0], ast.Name) and \
                site.targets[0].id == loc and loc not in arg_names and \
                helper.kind in ('value', 'retbody', 'tail'):
            # the site re-binds this very variable from the helper's result:
            # its old value is dead and no argument reads it
            continue
        if loc in caller_names and _live_across(fnode, loc, site):
            renames[loc] = f'{loc}__{tag}'
    sub = _Subst(exprs, renames)
    body = [sub.visit(s) for s in body]
    value = None
    if helper.kind == 'expr':
        value = _as_expr(body)
        body = []
    elif helper.kind == 'value':
        k = getattr(helper, 'split', len(body) - 1)
        value = _as_expr(body[k:])
        body = body[:k]
    elif helper.kind == 'tail':
        # the site statement takes the place of the tail `return e`
        ret = _tail_return(body)
        if isinstance(site, ast.Return):
            new = ast.Return(value=ret.value)
        elif isinstance(site, ast.Expr):
            new = ast.Expr(value=ret.value)
        else:
            new = copy.copy(site)
            new.value = ret.value
        ast.copy_location(new, ret)
        _replace_stmt(body, ret, new)
    elif helper.kind in ('retbody', 'procbody'):
        def mk(ret):
            if isinstance(site, ast.Return):
                return ret
            if isinstance(site, ast.Expr):
                new = ast.Expr(value=ret.value)
            else:
                new = copy.deepcopy(site)
                new.value = ret.value
            return ast.copy_location(new, ret)
        body = _tailify(body, mk, helper.kind == 'procbody') or [
            ast.Pass(lineno=f.lineno, col_offset=0)]
    elif body and isinstance(body[-1], ast.Return):
        body = body[:-1]
    for s in prefix + body:
        ast.fix_missing_locations(s)
    return prefix, body, value


class _Inliner:
    def __init__(self, tree, helpers: Dict[str, _Helper], notes, rel):
        self.tree = tree
        self.helpers = helpers          # name -> helper (unique names only)
        self.notes = notes
        self.rel = rel
        self.inlined = {h: 0 for h in helpers}
        self.blocked = set()            # helper names with non-inlined uses

    def _match(self, call, cls) -> Optional[Tuple[_Helper, ast.AST]]:
        fn = call.func
        if isinstance(fn, ast.Attribute) and fn.attr in self.helpers:
            h = self.helpers[fn.attr]
            if h.cls is None or h.cls is not cls:
                return None
            if isinstance(fn.value, ast.Name) and fn.value.id in (
                    'self', 'cls', h.cls.name):
                if fn.value.id != 'self' and not h.static:
                    return None
                return h, fn.value
            return None
        if isinstance(fn, ast.Name) and fn.id in self.helpers:
            h = self.helpers[fn.id]
            if h.cls is None:
                return h, None
        return None

    def run(self):
        def in_func(fnode, cls):
            if any(h.node is fnode for h in self.helpers.values()):
                return
            caller_names = _names(fnode) | {a.arg for a in ast.walk(fnode)
                                            if isinstance(a, ast.arg)}
            self._block(fnode, 'body', cls, caller_names, fnode)

        def visit(node, cls):
            for ch in ast.iter_child_nodes(node):
                if isinstance(ch, FN):
                    in_func(ch, cls)
                elif isinstance(ch, ast.ClassDef):
                    visit(ch, ch)
                else:
                    visit(ch, cls)
        visit(self.tree, None)

    def _call_of(self, value):
        if isinstance(value, ast.Await):
            value = value.value
        return value if isinstance(value, ast.Call) else None

    def _block(self, owner, field, cls, caller_names, fnode):
        stmts = getattr(owner, field)
        out = []
        for s in stmts:
            done = False
            if isinstance(s, ast.If):
                # `if self._h(..):` / `if not self._h(..):` with a multi-
                # statement helper ending in `return e`: the statements are
                # hoisted in front of the `if`, the test becomes e
                t = s.test
                neg = isinstance(t, ast.UnaryOp) and isinstance(t.op, ast.Not)
                if neg:
                    t = t.operand
                call = self._call_of(t)
                m = self._match(call, cls) if call is not None else None
                if m is not None and m[0].ok and m[0].kind == 'value' and \
                        isinstance(t, ast.Await) == isinstance(
                            m[0].node, ast.AsyncFunctionDef):
                    h, recv = m
                    b = _bind(h, call, recv)
                    if b is not None:
                        pre, body, val = _expand(
                            h, b, caller_names, h.node.name.strip('_'),
                            fnode, s)
                        new = pre + body
                        line = getattr(s, 'lineno', 0)
                        _relocate(new, int(line) - 0.5, 0)
                        _relocate([val], line, 0, step=0.0)
                        s.test = ast.UnaryOp(op=ast.Not(), operand=val,
                                             lineno=line, col_offset=0,
                                             end_lineno=line,
                                             end_col_offset=0) if neg else val
                        for x in new:
                            self._descend(x, cls, caller_names, fnode)
                        out.extend(new)
                        self.inlined[h.node.name] += 1
            if isinstance(s, (ast.Expr, ast.Assign, ast.AnnAssign,
                              ast.Return)) and getattr(s, 'value', None) \
                    is not None:
                call = self._call_of(s.value)
                m = self._match(call, cls) if call is not None else None
                if m is not None and m[0].ok and m[0].kind in (
                        'stmt', 'value', 'tail', 'retbody', 'procbody') and (
                        isinstance(s, ast.Expr)
                        or m[0].kind in ('value', 'tail', 'retbody')) and not (
                        m[0].kind in ('tail', 'retbody', 'procbody')
                        and isinstance(s.value, ast.Await)):
                    h, recv = m
                    is_await = isinstance(s.value, ast.Await)
                    if is_await == isinstance(h.node, ast.AsyncFunctionDef):
                        b = _bind(h, call, recv)
                        if b is not None:
                            pre, body, val = _expand(
                                h, b, caller_names, h.node.name.strip('_'),
                                fnode, s)
                            new = pre + body
                            if val is not None:
                                s2 = copy.copy(s)
                                s2.value = val
                                new.append(s2)
                            _relocate(new, int(getattr(s, 'lineno', 0)), 0)
                            # (statements of the call site's line L are placed
                            # at L + k/10000, in order, before line L + 1)
                            for x in new:
                                self._descend(x, cls, caller_names, fnode)
                            out.extend(new)
                            self.inlined[h.node.name] += 1
                            done = True
            if not done:
                self._descend(s, cls, caller_names, fnode)
                out.append(s)
        if not out:
            out = [ast.Pass(lineno=getattr(owner, 'lineno', 0), col_offset=0)]
        setattr(owner, field, out)

    def _descend(self, s, cls, caller_names, fnode):
        """Inline expression helpers inside s; recurse into its blocks."""
        if isinstance(s, FN):
            # a nested function has call sites of its own
            if not any(h.node is s for h in self.helpers.values()):
                inner_names = _names(s) | {a.arg for a in ast.walk(s)
                                           if isinstance(a, ast.arg)}
                self._block(s, 'body', cls, inner_names | caller_names, s)
            return
        if isinstance(s, ast.ClassDef):
            return
        for field in ('body', 'orelse', 'finalbody'):
            if isinstance(getattr(s, field, None), list) and getattr(
                    s, field) and isinstance(getattr(s, field)[0], ast.stmt):
                self._block(s, field, cls, caller_names, fnode)
        for h in getattr(s, 'handlers', []) or []:
            self._block(h, 'body', cls, caller_names, fnode)
        for c in getattr(s, 'cases', []) or []:
            self._block(c, 'body', cls, caller_names, fnode)
        inl = self

        class X(ast.NodeTransformer):
            def visit_Call(self, node):
                self.generic_visit(node)
                m = inl._match(node, cls)
                if m is None:
                    return node
                h, recv = m
                if h.ok and h.kind == 'expr' and not isinstance(
                        h.node, ast.AsyncFunctionDef):
                    b = _bind(h, node, recv)
                    if b is not None:
                        _pre, _body, val = _expand(
                            h, b, caller_names, h.node.name.strip('_'),
                            fnode, node)
                        inl.inlined[h.node.name] += 1
                        _relocate([val], getattr(node, 'lineno', 0), 0,
                                  step=0.0)
                        return val
                return node

            def generic_visit(self, node):
                # do not enter nested statement blocks twice
                for field, old in ast.iter_fields(node):
                    if isinstance(old, list):
                        if old and isinstance(old[0], ast.stmt):
                            continue
                        new = []
                        for v in old:
                            if isinstance(v, ast.AST):
                                v = self.visit(v)
                            new.append(v)
                        old[:] = new
                    elif isinstance(old, ast.AST):
                        setattr(node, field, self.visit(old))
                return node
        X().generic_visit(s)


_IDENTS: Dict[int, Tuple[ast.AST, set]] = {}


def _idents(tree) -> set:
    """All attribute names, bare names and string constants of a module
    (cached per tree object; other modules are not modified by T1)."""
    hit = _IDENTS.get(id(tree))
    if hit is not None and hit[0] is tree:
        return hit[1]
    s = set()
    for x in ast.walk(tree):
        if isinstance(x, ast.Attribute):
            s.add(x.attr)
        elif isinstance(x, ast.Name):
            s.add(x.id)
        elif isinstance(x, ast.Constant) and isinstance(x.value, str) \
                and len(x.value) < 80:
            s.add(x.value)
        elif isinstance(x, ast.alias):
            s.add(x.name.split('.')[-1])
            if x.asname:
                s.add(x.asname)
    _IDENTS[id(tree)] = (tree, s)
    return s


def _refs(tree, name):
    n = 0
    for x in ast.walk(tree):
        if isinstance(x, ast.Attribute) and x.attr == name:
            n += 1
        elif isinstance(x, ast.Name) and x.id == name:
            n += 1
        elif isinstance(x, ast.Constant) and x.value == name:
            n += 1
    return n


def _t1_inline(rel, tree, ref_funcs, all_trees, notes):
    for _round in range(3):
        funcs = {}
        dup = set()

        def visit(node, quals, cls):
            for ch in ast.iter_child_nodes(node):
                if isinstance(ch, FN):
                    q = '.'.join(quals + [ch.name])
                    if ch.name in funcs:
                        dup.add(ch.name)
                    if q not in ref_funcs and len(quals) <= 1:
                        funcs[ch.name] = _Helper(q, ch, cls)
                    elif q in ref_funcs:
                        funcs.setdefault(ch.name, None)
                    # a new local closure defined directly in the body of a
                    # function: called by its bare name inside that function
                    for g in ch.body:
                        if isinstance(g, FN) and f'{q}.{g.name}' not in \
                                ref_funcs:
                            if g.name in funcs:
                                dup.add(g.name)
                            h = _Helper(f'{q}.{g.name}', g, None)
                            h.container = ch     # (its body list is rebuilt)
                            funcs[g.name] = h
                elif isinstance(ch, ast.ClassDef) and not quals:
                    visit(ch, [ch.name], ch)
        visit(tree, [], None)
        helpers = {n: h for n, h in funcs.items()
                   if h is not None and n not in dup and h.ok
                   and not (n.startswith('__') and n.endswith('__'))}
        # a name used in another module is not a private helper of this one
        for n in list(helpers):
            for orel, ot in all_trees.items():
                if orel != rel and n in _idents(ot):
                    del helpers[n]
                    break
        if not helpers:
            return
        inl = _Inliner(tree, helpers, notes, rel)
        inl.run()
        progress = False
        for n, h in helpers.items():
            if not inl.inlined[n]:
                continue
            progress = True
            # any reference left (outside the def itself)?
            left = _refs(tree, n) - _refs(h.node, n)
            outer = getattr(h, 'container', None)
            where = outer.body if outer is not None else (
                h.cls.body if h.cls is not None else tree.body)
            if left == 0 and h.node in where:
                where.remove(h.node)
                if not where:
                    where.append(ast.Pass(lineno=0, col_offset=0))
                notes.append(f'{rel}: new helper {h.qual} expanded at its '
                             f'{inl.inlined[n]} call site(s) and dropped')
            else:
                notes.append(f'{rel}: new helper {h.qual} expanded at '
                             f'{inl.inlined[n]} call site(s); {left} other '
                             'reference(s) keep the definition')
        if not progress:
            return


def _rename_in(fnode, renames):
    sub = _Subst({}, renames)
    for field in ('args', 'body'):
        v = getattr(fnode, field)
        if isinstance(v, list):
            for s in v:
                sub.visit(s)
        else:
            sub.visit(v)


def _t2_rename(rel, tree, ref_funcs, notes, only=None):
    for q, f in functions(tree).items():
        if q not in ref_funcs or (only is not None and q != only):
            continue
        old = [tuple(b) for b in ref_funcs[q]]
        new = bindings(f)
        # function-level names and comprehension variables are separate
        # name spaces (`required = {.. for .., required in ..}`)
        def ns(b):
            return (b[0], b[1] == 'comp')
        old_names = {ns(b) for b in old}
        new_names = {ns(b) for b in new}
        vanished = [b for b in old if ns(b) not in new_names]
        appeared = [b for b in new if ns(b) not in old_names]
        if not vanished or not appeared:
            continue
        renames = {}
        # 1. same first binding (kind and text)
        for a in list(appeared):
            for v in vanished:
                if v[1] == a[1] and v[2] == a[2]:
                    renames[a[0]] = v[0]
                    vanished.remove(v)
                    appeared.remove(a)
                    break
        # 2. same text once the renames found so far are applied (bindings
        #    are in source order, so a binding's text mentions only locals
        #    bound before it); repeated to a fixpoint.  A binding whose text
        #    is not unique among the candidates is not paired here.
        progress = True
        while vanished and appeared and progress:
            progress = False
            inv = {o: n for n, o in renames.items()}

            def translated(v):
                return _translate(v[2], inv)
            for a in list(appeared):
                cands = [v for v in vanished
                         if v[1] == a[1] and translated(v) == a[2]]
                same = [x for x in appeared
                        if x[1] == a[1] and x[2] == a[2]]
                if len(cands) == 1 and len(same) == 1:
                    v = cands[0]
                    renames[a[0]] = v[0]
                    vanished.remove(v)
                    appeared.remove(a)
                    inv[v[0]] = a[0]
                    progress = True
        # 2b. what is left has the same length and the same sequence of
        #     binding kinds in source order: a pure renaming, pair by order
        #     (only when the texts agree once all pairs are applied)
        if vanished and len(vanished) == len(appeared) and [
                v[1] for v in vanished] == [a[1] for a in appeared]:
            trial = dict(renames)
            trial.update({a[0]: v[0] for v, a in zip(vanished, appeared)})
            inv = {o: n for n, o in trial.items()}
            if all(_translate(v[2], inv) == a[2]
                   for v, a in zip(vanished, appeared)):
                renames = trial
                vanished, appeared = [], []
        # 3. leftovers of one kind, pairwise in binding order, when the
        #    counts agree (arguments only by position)
        for kind in ('arg', 'for', 'with', 'except'):
            vs = [v for v in vanished if v[1] == kind]
            as_ = [a for a in appeared if a[1] == kind]
            if vs and len(vs) == len(as_):
                for v, a in zip(vs, as_):
                    if kind == 'arg' and v[2] != a[2]:
                        continue
                    renames[a[0]] = v[0]
                    vanished.remove(v)
                    appeared.remove(a)
        if renames:
            _rename_in(f, renames)
            notes.append(f'{rel}: {q}: local(s) renamed back to the '
                         'reference names: ' + ', '.join(
                             f'{n}->{o}' for n, o in sorted(renames.items())))


def _pos(n):
    return (getattr(n, 'lineno', 0), getattr(n, 'col_offset', 0))


def _t2_rebind(rel, tree, ref_funcs, ref_rebinds, notes, only=None):
    """The reference re-binds a local from its own value (`w = E(w)`); the
    tree gives the new value a new name (`v = E(w)`) and no longer mentions
    `w` afterwards: `v` is renamed to `w` (same slot, same values)."""
    for q, f in functions(tree).items():
        if q not in ref_funcs or q not in ref_rebinds or (
                only is not None and q != only):
            continue
        old_names = {b[0] for b in ref_funcs[q]}
        for w, rtext in ref_rebinds[q]:
            stmts = [n for n in own_nodes(f) if isinstance(n, ast.Assign)
                     and len(n.targets) == 1
                     and isinstance(n.targets[0], ast.Name)
                     and n.targets[0].id not in old_names
                     and _unparse(n.value) == rtext]
            if len(stmts) != 1:
                continue
            st = stmts[0]
            v = st.targets[0].id
            # (`v = v`, left behind by an expanded helper, is not a binding)
            selfs = {id(a.targets[0]) for a in ast.walk(f)
                     if isinstance(a, ast.Assign) and len(a.targets) == 1
                     and isinstance(a.targets[0], ast.Name)
                     and isinstance(a.value, ast.Name)
                     and a.value.id == a.targets[0].id}
            stores = [n for n in ast.walk(f) if isinstance(n, ast.Name)
                      and n.id == v and isinstance(n.ctx, (ast.Store, ast.Del))
                      and id(n) not in selfs]
            if len(stores) != 1:
                continue
            inside = {id(n) for n in ast.walk(st)}
            own = {id(n) for n in own_nodes(f)}
            ok = True
            for n in ast.walk(f):
                if isinstance(n, ast.arg) and n.arg == w and id(n) not in own:
                    ok = False
                if not (isinstance(n, ast.Name) and n.id == w):
                    continue
                if id(n) not in own:
                    ok = False      # a nested scope sees `w`
                elif id(n) not in inside and _pos(n) > _pos(st):
                    ok = False      # the old value is still used
            # not in a loop (a later iteration would read the new value)
            p = _parent_map(f)
            x = st
            while ok and id(x) in p:
                x = p[id(x)]
                if isinstance(x, (ast.For, ast.AsyncFor, ast.While)):
                    ok = False
            if not ok:
                continue
            _rename_in(f, {v: w})
            notes.append(f'{rel}: {q}: new local `{v}` holds the re-bound '
                         f'value of `{w}` (`{w} = {rtext}` in the reference, '
                         f'`{w}` not used afterwards): renamed to `{w}`')


def _parent_map(fnode):
    out = {}
    for n in ast.walk(fnode):
        for ch in ast.iter_child_nodes(n):
            out[id(ch)] = n
    return out


def _translate(txt: str, inv: Dict[str, str]) -> str:
    """The binding text `txt` with the variables in `inv` renamed (names
    only: keyword-argument names and attributes are left alone)."""
    if not inv:
        return txt
    pre = 'aug ' if txt.startswith('aug ') else ''
    core = txt[len(pre):]
    star = ''
    while core.endswith('*'):
        core, star = core[:-1], star + '*'
    try:
        e = ast.parse(core, mode='eval')
    except SyntaxError:
        for o, n in inv.items():
            core = _replace_word(core, o, n)
        return pre + core + star
    for n in ast.walk(e):
        if isinstance(n, ast.Name) and n.id in inv:
            n.id = inv[n.id]
    return pre + ast.unparse(e) + star


def _replace_word(txt, old, new):
    import re
    return re.sub(r'(?<![\w.])' + re.escape(old) + r'(?!\w)', new, txt)


def _mapping_read(call) -> bool:
    """`<chain>.get(<constants / names>)` (also items / keys / values):
    taken for a read of a mapping (assumption A-alias covers what may change
    the mapping in between; the stability of the chain is checked by the
    caller like that of a subscript)."""
    fn = call.func
    if not (isinstance(fn, ast.Attribute) and fn.attr in (
            'get', 'items', 'keys', 'values')):
        return False
    root = fn.value
    while isinstance(root, (ast.Attribute, ast.Subscript)):
        root = root.value
    if not isinstance(root, ast.Name):
        return False
    def plain(a):
        if isinstance(a, (ast.Constant, ast.Name)):
            return True
        if isinstance(a, ast.Dict):
            return not a.keys               # `{}` default
        return isinstance(a, (ast.List, ast.Tuple)) and not a.elts
    return all(plain(a) for a in list(call.args)
               + [k.value for k in call.keywords])


def _pure(e) -> bool:
    for n in ast.walk(e):
        if isinstance(n, ast.Call):
            name = n.func.id if isinstance(n.func, ast.Name) else None
            if isinstance(n.func, ast.Attribute) and isinstance(
                    n.func.value, ast.Constant) and isinstance(
                    n.func.value.value, str):
                continue        # a str method on a literal: ', '.join(xs)
            if _mapping_read(n):
                continue        # `conf.get('k', {})` on a name / chain
            if name not in PURE_CALLS:
                return False
        elif isinstance(n, (ast.Await, ast.Yield, ast.YieldFrom,
                            ast.NamedExpr, ast.Lambda)):
            return False
    return True


def _t3_propagate(rel, tree, ref_funcs, notes, ref_rebinds=None):
    for q, f in functions(tree).items():
        if q not in ref_funcs:
            continue
        old_names = {b[0] for b in ref_funcs[q]}
        tried = set()
        for _round in range(200):
            cands = [b[0] for b in bindings(f)
                     if b[0] not in old_names and b[1] == 'assign'
                     and b[0] not in tried]
            if not cands:
                break
            tried.add(cands[0])
            if _propagate_one(rel, q, f, cands[0], notes, tree):
                # with the temporary gone, more of what is left may pair up
                # with the reference names (`d = f(x, tmp)` vs `v = f(x, E)`)
                _t2_rename(rel, tree, ref_funcs, notes, only=q)
                _t2_rebind(rel, tree, ref_funcs, ref_rebinds or {}, notes,
                           only=q)
                tried = set()


def _blocks(fnode):
    """Every statement list of the function's own scope."""
    todo = [fnode]
    while todo:
        n = todo.pop()
        for field in ('body', 'orelse', 'finalbody'):
            v = getattr(n, field, None)
            if isinstance(v, list) and v and isinstance(v[0], ast.stmt):
                yield n, field, v
                for s in v:
                    if not isinstance(s, FN + (ast.ClassDef,)):
                        todo.append(s)
        for h in getattr(n, 'handlers', []) or []:
            todo.append(h)
        for c in getattr(n, 'cases', []) or []:
            todo.append(c)


_UNSTABLE: Dict[int, Tuple[ast.AST, set]] = {}
_ALL_TREES: Optional[Dict[str, ast.AST]] = None
_EFFECTS: Dict[int, Tuple[ast.AST, dict]] = {}


def _effects(tree) -> dict:
    """name -> [(called names, stored attribute names)] for every function
    of a module (cached per tree)."""
    hit = _EFFECTS.get(id(tree))
    if hit is not None and hit[0] is tree:
        return hit[1]
    out: Dict[str, list] = {}
    for f in ast.walk(tree):
        if not isinstance(f, FN):
            continue
        calls, stores = set(), set()
        for n in ast.walk(f):
            if isinstance(n, ast.Call):
                fn_ = n.func
                nm = fn_.attr if isinstance(fn_, ast.Attribute) else getattr(
                    fn_, 'id', None)
                if nm:
                    calls.add(nm)
                if nm in ('setattr', 'delattr') and len(n.args) >= 2:
                    a = n.args[1]
                    stores.add(a.value if isinstance(a, ast.Constant)
                               else '*')
            elif isinstance(n, ast.Attribute) and isinstance(
                    n.ctx, (ast.Store, ast.Del)):
                stores.add(n.attr)
        out.setdefault(f.name, []).append((calls, stores))
    _EFFECTS[id(tree)] = (tree, out)
    return out


def _may_store(trees, attrs: set, called: set, depth: int = 4) -> bool:
    """Can a call to one of `called` (resolved by name over the whole
    package, transitively to `depth`) assign one of the attribute names?"""
    # exhaustive reverse closure: R = every function *name* from which (by
    # name, over all definitions of that name in the package) a function
    # that assigns one of the attributes -- or uses setattr -- is reachable
    key = (id(trees), len(trees), tuple(sorted(attrs)))
    reach = _REACH.get(key)
    if reach is None:
        eff: Dict[str, list] = {}
        for t in trees.values():
            for name, lst in _effects(t).items():
                eff.setdefault(name, []).extend(lst)
        # (setattr with a computed name is not counted: assumption A-alias,
        # stated in DESIGN 9.1a -- otherwise every function reaching any
        # generic option/protobuf setter would count as a writer)
        reach = {n for n, lst in eff.items()
                 if any(s & attrs for _c, s in lst)}
        changed = True
        while changed:
            changed = False
            for n, lst in eff.items():
                if n not in reach and any(c & reach for c, _s in lst):
                    reach.add(n)
                    changed = True
        if len(_REACH) > 64:
            _REACH.clear()
        _REACH[key] = reach
    return bool(set(called) & reach)


_REACH: Dict[tuple, set] = {}


def _class_of(tree, qual: str):
    """ClassDef enclosing the function with this qualname (top level)."""
    if '.' not in qual:
        return None
    cname = qual.split('.')[0]
    for n in tree.body:
        if isinstance(n, ast.ClassDef) and n.name == cname:
            return n
    return None


def _self_refs(nodes) -> set:
    return {n.attr for st in nodes for n in ast.walk(st)
            if isinstance(n, ast.Attribute) and isinstance(n.value, ast.Name)
            and n.value.id in ('self', 'cls')}


def _self_closure_stores(tree, cls, span, attrs: set) -> bool:
    """Does the span, or any method of cls (or of its bases defined in this
    module) reachable from it through `self.<name>` references, assign one
    of the attribute names?"""
    methods: Dict[str, list] = {}
    todo_cls = [cls]
    seen_cls = set()
    while todo_cls:
        k = todo_cls.pop()
        if id(k) in seen_cls:
            continue
        seen_cls.add(id(k))
        for m in k.body:
            if isinstance(m, FN):
                methods.setdefault(m.name, []).append(m)
        for b in k.bases:
            bn = b.id if isinstance(b, ast.Name) else getattr(b, 'attr', None)
            for n in tree.body:
                if isinstance(n, ast.ClassDef) and n.name == bn:
                    todo_cls.append(n)

    def stores(nodes):
        for st in nodes:
            for n in ast.walk(st):
                if isinstance(n, ast.Attribute) and isinstance(
                        n.ctx, (ast.Store, ast.Del)) and n.attr in attrs:
                    return True
                # `self.d[k] = v` / `del self.d[k]` re-bind an entry of d
                if isinstance(n, ast.Subscript) and isinstance(
                        n.ctx, (ast.Store, ast.Del)) and isinstance(
                        n.value, ast.Attribute) and n.value.attr in attrs:
                    return True
                # so do the mutating container methods
                if isinstance(n, ast.Call) and isinstance(
                        n.func, ast.Attribute) and n.func.attr in (
                        'pop', 'popitem', 'clear', 'update', 'setdefault',
                        'remove', 'discard', 'insert', 'append', 'extend',
                        'add') and isinstance(
                        n.func.value, ast.Attribute) and \
                        n.func.value.attr in attrs:
                    return True
        return False
    if stores(span):
        return True
    seen = set()
    frontier = _self_refs(span)
    while frontier:
        name = frontier.pop()
        if name in seen:
            continue
        seen.add(name)
        for m in methods.get(name, []):
            if stores([m]):
                return True
            frontier |= _self_refs([m]) - seen
    return False


def _unstable_attrs(tree) -> set:
    """Attribute names assigned somewhere in the module outside __init__
    (or named in a setattr/delattr call)."""
    hit = _UNSTABLE.get(id(tree))
    if hit is not None and hit[0] is tree:
        return hit[1]
    out = set()

    def visit(node, in_init):
        for ch in ast.iter_child_nodes(node):
            if isinstance(ch, FN):
                visit(ch, ch.name == '__init__')
                continue
            if isinstance(ch, ast.Attribute) and isinstance(
                    ch.ctx, (ast.Store, ast.Del)) and not in_init:
                out.add(ch.attr)
            elif isinstance(ch, ast.Call) and isinstance(
                    ch.func, ast.Name) and ch.func.id in (
                    'setattr', 'delattr') and len(ch.args) >= 2:
                a = ch.args[1]
                out.add(a.value if isinstance(a, ast.Constant) else '*')
            visit(ch, in_init)
    visit(tree, False)
    if '*' in out:
        out = _AllNames()
    _UNSTABLE[id(tree)] = (tree, out)
    return out


class _AllNames(set):
    def __and__(self, other):
        return set(other)

    def __rand__(self, other):
        return set(other)


def _derived(f, names) -> set:
    """Locals of f (transitively) bound from an expression that mentions one
    of `names` -- including the names themselves."""
    out = set(names)
    grew = True
    while grew:
        grew = False
        for n in ast.walk(f):
            tgt, val = [], None
            if isinstance(n, ast.Assign):
                tgt, val = n.targets, n.value
            elif isinstance(n, (ast.AnnAssign, ast.AugAssign)):
                tgt, val = [n.target], n.value
            elif isinstance(n, (ast.For, ast.AsyncFor, ast.comprehension)):
                tgt, val = [n.target], n.iter
            elif isinstance(n, ast.NamedExpr):
                tgt, val = [n.target], n.value
            elif isinstance(n, ast.withitem) and n.optional_vars is not None:
                tgt, val = [n.optional_vars], n.context_expr
            if val is None:
                continue
            vn = {x.id for x in ast.walk(val) if isinstance(x, ast.Name)}
            tn = {x.id for t in tgt for x in ast.walk(t)
                  if isinstance(x, ast.Name)
                  and isinstance(x.ctx, ast.Store)}
            # either direction: `q = p.a` and `p = q` both relate p and q
            if (vn & out and tn - out) or (tn & out and vn - out):
                out |= vn | tn
                grew = True
    return out


def _header_exprs(s):
    """Expressions of a compound statement evaluated once, before its
    blocks (`while` tests are re-evaluated: none)."""
    if isinstance(s, ast.If):
        return [s.test]
    if isinstance(s, (ast.For, ast.AsyncFor)):
        return [s.iter]
    if isinstance(s, (ast.With, ast.AsyncWith)):
        return [it.context_expr for it in s.items]
    return []


def _evaluated_first(stmt, use) -> bool:
    """Is the name node `use` evaluated on every execution of `stmt`, and
    before any call / await of that statement?  (Where a call with effects
    may be moved from the statement just before.)"""
    if isinstance(stmt, (ast.Assign, ast.AnnAssign, ast.AugAssign)):
        roots = [stmt.value] if isinstance(stmt, (ast.Assign, ast.AnnAssign)) \
            else []         # (an aug-assign reads its target first)
    elif isinstance(stmt, (ast.Expr, ast.Return)):
        roots = [stmt.value] if stmt.value is not None else []
    elif isinstance(stmt, ast.Raise):
        roots = [stmt.exc] if stmt.exc is not None else []
    else:
        roots = _header_exprs(stmt)[:1]
    state = {'found': False, 'bad': False}

    def ev(n, cond):
        """Post-order in evaluation order."""
        if state['found'] or state['bad']:
            return
        if n is use:
            if cond:
                state['bad'] = True
            else:
                state['found'] = True
            return
        if isinstance(n, (ast.Lambda, ast.ListComp, ast.SetComp, ast.DictComp,
                          ast.GeneratorExp)):
            # only the first iterable of a comprehension is evaluated here
            if not isinstance(n, ast.Lambda):
                ev(n.generators[0].iter, cond)
            if not state['found'] and any(x is use for x in ast.walk(n)):
                state['bad'] = True
            return
        if isinstance(n, ast.BoolOp):
            ev(n.values[0], cond)
            for v in n.values[1:]:
                ev(v, True)
            return
        if isinstance(n, ast.IfExp):
            ev(n.test, cond)
            ev(n.body, True)
            ev(n.orelse, True)
            return
        if isinstance(n, ast.Compare) and len(n.comparators) > 1:
            ev(n.left, cond)
            ev(n.comparators[0], cond)
            for v in n.comparators[1:]:
                ev(v, True)
            return
        for ch in ast.iter_child_nodes(n):
            ev(ch, cond)
        if isinstance(n, (ast.Call, ast.Await, ast.Yield, ast.YieldFrom,
                          ast.NamedExpr)) and not state['found']:
            state['bad'] = True
    for r in roots:
        ev(r, False)
    return state['found'] and not state['bad']


READONLY_METHODS = {'get', 'items', 'keys', 'values', 'copy', 'index',
                    'count', 'startswith', 'endswith', 'format', 'join',
                    'split', 'strip', 'lower', 'upper', 'issubset',
                    'issuperset', 'isdisjoint', 'union', 'intersection',
                    'difference'}


def _local_root_stable(f, rhs, stmts) -> bool:
    """The alias `rhs` (an attribute / subscript chain rooted at a local
    name p of f) denotes the same object throughout `stmts`: no statement
    stores through p, calls a method (other than a read-only builtin one) on
    p or on a member reached from p, or lets p or a proper prefix of the
    chain escape (argument, assignment, return, container element).
    Assumption A-alias: code that is not handed the object does not re-bind
    its members."""
    root = rhs
    if isinstance(root, ast.Call) and _mapping_read(root):
        root = root.func.value
    while isinstance(root, (ast.Attribute, ast.Subscript)):
        root = root.value
    if not isinstance(root, ast.Name) or root.id in ('self', 'cls'):
        return False
    p = root.id
    if p not in {b[0] for b in bindings(f) if b[1] != 'import'}:
        return False        # a global / imported object: anyone can reach it
    chain = _unparse(rhs)
    pm = {}
    for st in stmts:
        for n in ast.walk(st):
            for ch in ast.iter_child_nodes(n):
                pm[id(ch)] = n
    reads = (ast.Compare, ast.BoolOp, ast.UnaryOp, ast.BinOp,
             ast.FormattedValue, ast.JoinedStr, ast.IfExp)
    for st in stmts:
        for n in ast.walk(st):
            if not (isinstance(n, ast.Name) and n.id == p):
                continue
            if not isinstance(n.ctx, ast.Load):
                return False
            top, par = n, pm.get(id(n))
            while isinstance(par, (ast.Attribute, ast.Subscript)) and \
                    par.value is top:
                if not isinstance(par.ctx, ast.Load):
                    return False        # p.x = .. / p[k] = .. / del p[k]
                top, par = par, pm.get(id(par))
            if isinstance(par, ast.Call) and par.func is top:
                if not (isinstance(top, ast.Attribute)
                        and top.attr in READONLY_METHODS):
                    return False        # a method call that may mutate
                continue
            if isinstance(par, reads):
                continue
            if isinstance(par, ast.Subscript) and par.slice is top:
                continue
            if isinstance(par, (ast.If, ast.While)) and par.test is top:
                continue
            if isinstance(par, (ast.For, ast.AsyncFor, ast.comprehension)) \
                    and par.iter is top:
                continue
            if isinstance(par, ast.Call) and isinstance(
                    par.func, ast.Name) and par.func.id in PURE_CALLS:
                continue
            # it escapes: harmless unless it is p itself or a proper prefix
            # of the aliased chain (whoever gets it can re-bind the member)
            t = _unparse(top)
            if t == chain or not (chain.startswith(t + '.')
                                  or chain.startswith(t + '[')):
                continue
            return False
    return True


def _propagate_one(rel, q, f, name, notes, tree=None):
    stores = [n for n in ast.walk(f) if isinstance(n, ast.Name)
              and n.id == name and isinstance(n.ctx, (ast.Store, ast.Del))]
    if len(stores) != 1:
        return
    for owner, field, block in _blocks(f):
        for i, s in enumerate(block):
            if isinstance(s, ast.Assign) and len(s.targets) == 1 and \
                    s.targets[0] is stores[0]:
                break
            if isinstance(s, ast.AnnAssign) and s.target is stores[0] \
                    and s.value is not None:
                break
        else:
            continue
        rhs = s.value
        rest = block[i + 1:]
        loads = [n for n in ast.walk(f) if isinstance(n, ast.Name)
                 and n.id == name and isinstance(n.ctx, ast.Load)]
        inside = [n for st in rest for n in ast.walk(st)
                  if isinstance(n, ast.Name) and n.id == name
                  and isinstance(n.ctx, ast.Load)]
        if not loads or len(inside) != len(loads):
            return          # used before / outside the block it is set in
        # a loop around the block would re-evaluate: fine, the assignment is
        # inside the same iteration.  Operands must be stable up to the last
        # use.
        last = max(k for k, st in enumerate(rest) if any(
            n in inside for n in ast.walk(st)))
        span = rest[:last + 1]
        rhs_names = _names(rhs)
        rhs_attrs = {n.attr for n in ast.walk(rhs)
                     if isinstance(n, ast.Attribute)}
        pure = _pure(rhs)
        only_names = all(isinstance(n, (ast.Name, ast.Constant, ast.BoolOp,
                                        ast.UnaryOp, ast.Compare, ast.And,
                                        ast.Or, ast.Not, ast.Load, ast.cmpop,
                                        ast.BinOp, ast.operator,
                                        ast.unaryop, ast.Set, ast.Tuple,
                                        ast.List))
                         for n in ast.walk(rhs))
        if not pure:
            # a call with effects may move only to an immediately following
            # single use
            if len(loads) != 1 or last != 0:
                return
            # ... and only to where it is evaluated unconditionally and
            # before anything else with effects in that statement
            if not _evaluated_first(span[0], loads[0]):
                return
        # what happens strictly before the (last) use
        before = span[:-1]
        stored = set()
        attr_stored = set()
        calls = False
        for st in before:
            stored |= _stored_names(st)
        # (a compound last statement with a use outside its header: what its
        # blocks do happens before that use, too)
        scan = list(before)
        lst = span[-1]
        if isinstance(getattr(lst, 'body', None), list):
            hdr = {id(n) for h in _header_exprs(lst) for n in ast.walk(h)}
            if any(isinstance(n, ast.Name) and n.id == name
                   and id(n) not in hdr for n in ast.walk(lst)):
                scan.append(lst)
        # (a store `q.a = ..` through a local q that is not derived from
        # anything the expression reads cannot re-bind what it reads --
        # A-alias: distinct locals not assigned from one another are distinct
        # objects)
        related = _derived(f, rhs_names)
        fn_locals = {b[0] for b in bindings(f) if b[1] != 'import'}
        # within a loop-free compound last statement, what lies after the
        # last use (in source order; the targets of the assignment whose
        # value holds that use are stored after it) happens after it
        after = set()
        if scan and scan[-1] is lst and not any(isinstance(x, (
                ast.For, ast.AsyncFor, ast.While, ast.comprehension,
                ast.Lambda, ast.FunctionDef, ast.AsyncFunctionDef))
                for x in ast.walk(lst)):
            uses = [n for n in ast.walk(lst) if isinstance(n, ast.Name)
                    and n.id == name]
            last_use = max(uses, key=_pos)
            simple = None
            for x in ast.walk(lst):
                if isinstance(x, ast.stmt) and not isinstance(getattr(
                        x, 'body', None), list) and any(
                        y is last_use for y in ast.walk(x)):
                    simple = x
            inside = {id(y) for y in ast.walk(simple)} if simple else set()
            for x in ast.walk(lst):
                if id(x) in inside:
                    continue
                if hasattr(x, 'lineno') and _pos(x) > _pos(last_use):
                    after.add(id(x))
            if isinstance(simple, (ast.Assign, ast.AnnAssign)):
                tg = simple.targets if isinstance(simple, ast.Assign) \
                    else [simple.target]
                for t in tg:
                    after |= {id(y) for y in ast.walk(t)}
        for st in scan:
            for n in ast.walk(st):
                if id(n) in after:
                    continue
                if isinstance(n, ast.Attribute) and isinstance(
                        n.ctx, (ast.Store, ast.Del)):
                    r = n.value
                    while isinstance(r, (ast.Attribute, ast.Subscript)):
                        r = r.value
                    if isinstance(r, ast.Name) and r.id in fn_locals and \
                            r.id not in related and r.id != 'self':
                        continue
                    attr_stored.add(n.attr)
                elif isinstance(n, (ast.Call, ast.Await)):
                    calls = True
        if stored & rhs_names:
            return
        if not only_names and attr_stored & rhs_attrs:
            return
        if not only_names and calls:
            # calls in between could rebind what the alias reads; accepted
            # only for an alias of attribute chains (no subscripts, only
            # pure builtin calls) none of whose attribute names is assigned
            # anywhere in this module outside __init__ (nor via setattr)
            chain_only = all(isinstance(n, (
                ast.Name, ast.Attribute, ast.Constant, ast.Call, ast.BoolOp,
                ast.UnaryOp, ast.Compare, ast.BinOp, ast.IfExp, ast.boolop,
                ast.unaryop, ast.cmpop, ast.operator, ast.expr_context,
                ast.Subscript, ast.Dict, ast.List, ast.Tuple, ast.keyword))
                for n in ast.walk(rhs))
            if not (pure and chain_only):
                return
            has_sub = any(isinstance(n, ast.Subscript) or (
                isinstance(n, ast.Call) and _mapping_read(n))
                for n in ast.walk(rhs))
            if has_sub or rhs_attrs & _unstable_attrs(tree):
                # (a subscripted chain `self.d[k]` always goes this way: the
                # entry can be re-bound by item assignment / dict methods)
                # assigned somewhere in this module.  Accepted only for an
                # alias rooted at `self` inside a class, when no method of
                # that class reachable from the span through `self.m` (called
                # or passed as a callback; closure within the class and its
                # in-module bases) assigns one of the attributes.  Assumption
                # A-alias (DESIGN 9.1a): calls on *other* objects do not
                # re-bind attributes of `self` behind its back.
                root = rhs
                if isinstance(root, ast.Call) and _mapping_read(root):
                    root = root.func.value
                while isinstance(root, (ast.Attribute, ast.Subscript)):
                    root = root.value
                if not isinstance(root, ast.Name):
                    return
                # index expressions must be plain names / constants that are
                # not re-bound in the span
                for n in ast.walk(rhs):
                    if isinstance(n, ast.Subscript) and not isinstance(
                            n.slice, (ast.Name, ast.Constant)):
                        return
                if root.id != 'self':
                    # rooted at a local of this function (`job_conf['k']`,
                    # `itask.tdef.name`): nothing in the span may touch the
                    # object other than by reading it
                    if any(isinstance(n, ast.Call) and not _mapping_read(n)
                           for n in ast.walk(rhs)):
                        return
                    if not _local_root_stable(f, rhs, before + [span[-1]]):
                        return
                else:
                    cls = _class_of(tree, q)
                    if cls is None:
                        return
                    if _self_closure_stores(tree, cls, before + [span[-1]],
                                            rhs_attrs):
                        return
        # stores inside the last-use statement itself (e.g. a loop body)
        if _stored_names(span[-1]) & rhs_names and not isinstance(
                span[-1], (ast.Assign, ast.AnnAssign, ast.AugAssign,
                           ast.Expr, ast.Return)):
            # fine when every use in that statement is in its header, which
            # is evaluated once and before the body (`if t:`, `for x in t:`,
            # `with t:`) -- not for `while t:`, whose test is re-evaluated
            lst = span[-1]
            header = []
            if isinstance(lst, ast.If):
                header = [lst.test]
            elif isinstance(lst, (ast.For, ast.AsyncFor)):
                header = [lst.iter]
            elif isinstance(lst, (ast.With, ast.AsyncWith)):
                header = [it.context_expr for it in lst.items]
            in_header = {id(n) for h in header for n in ast.walk(h)}
            uses_here = [n for n in ast.walk(lst) if isinstance(n, ast.Name)
                         and n.id == name and isinstance(n.ctx, ast.Load)]
            if not header or any(id(n) not in in_header for n in uses_here):
                return
        sub = _Subst({name: rhs}, {})
        for k, st in enumerate(rest):
            rest[k] = sub.visit(st)
        block[i + 1:] = rest
        del block[i]
        if not block:
            block.append(ast.Pass(lineno=s.lineno, col_offset=s.col_offset))
        ast.fix_missing_locations(f)
        notes.append(f'{rel}: {q}: new local `{name}` replaced by its '
                     f'definition `{_unparse(rhs)[:80]}`')
        return True


def _exits(stmts) -> bool:
    """Every path through the block ends in return/raise/continue/break."""
    if not stmts:
        return False
    last = stmts[-1]
    if isinstance(last, (ast.Return, ast.Raise, ast.Continue, ast.Break)):
        return True
    if isinstance(last, ast.If):
        return _exits(last.body) and _exits(last.orelse)
    return False


def _t0_canon_ifs(tree) -> int:
    """Canonical spelling of two equivalent `if` shapes (applied to every
    module, also on the reference tree -- it is not relative to the snapshot):
      if c: A(always exits) else: B     ->  if c: A ; B
      if a: (only) if b: X  (no elses)  ->  if a and b: X
    Both directions of each are the same program; choosing one spelling means
    a rule sees the same shape whichever the source uses."""
    n = 0

    def canon_block(blk, loop_body=False, in_func=False):
        nonlocal n
        changed = True
        while changed:
            changed = False
            out = []
            for k, s in enumerate(blk):
                # `x = x` does nothing (left behind by an expanded helper)
                if isinstance(s, ast.Assign) and len(s.targets) == 1 and \
                        isinstance(s.targets[0], ast.Name) and isinstance(
                            s.value, ast.Name) and in_func and \
                        s.value.id == s.targets[0].id:
                    out.extend(blk[k + 1:])
                    blk[:] = out or [ast.copy_location(ast.Pass(), s)]
                    changed = True
                    n += 1
                    break
                # `if c: pass  else: B`  ->  `if not c: B`
                if isinstance(s, ast.If) and s.orelse and all(
                        isinstance(x, ast.Pass) for x in s.body):
                    if isinstance(s.test, ast.UnaryOp) and isinstance(
                            s.test.op, ast.Not):
                        s.test = s.test.operand
                    else:
                        neg = ast.UnaryOp(op=ast.Not(), operand=s.test)
                        ast.copy_location(neg, s.test)
                        neg.end_lineno = getattr(s.test, 'end_lineno', None)
                        s.test = neg
                    s.body, s.orelse = s.orelse, []
                    out.extend(blk[k:])
                    blk[:] = out
                    changed = True
                    n += 1
                    break
                # directly in a loop body: `if c: continue` + rest  ->
                # `if not c: rest` (the rest runs to the end of the iteration)
                if loop_body and isinstance(s, ast.If) and not s.orelse \
                        and len(s.body) == 1 and isinstance(
                            s.body[0], ast.Continue) and k + 1 < len(blk):
                    if isinstance(s.test, ast.UnaryOp) and isinstance(
                            s.test.op, ast.Not):
                        neg = s.test.operand
                    else:
                        neg = ast.UnaryOp(op=ast.Not(), operand=s.test)
                        ast.copy_location(neg, s.test)
                        neg.end_lineno = getattr(s.test, 'end_lineno', None)
                    new = ast.If(test=neg, body=list(blk[k + 1:]), orelse=[])
                    ast.copy_location(new, s)
                    new.end_lineno = getattr(blk[-1], 'end_lineno', None)
                    out.append(new)
                    canon_block(new.body, in_func=in_func)
                    changed = True
                    n += 1
                    blk[:] = out
                    break
                if isinstance(s, ast.If) and s.orelse and _exits(s.body):
                    rest = s.orelse
                    s.orelse = []
                    out.append(s)
                    out.extend(rest)
                    changed = True
                    n += 1
                    continue
                if isinstance(s, ast.If) and not s.orelse and len(
                        s.body) == 1 and isinstance(s.body[0], ast.If) \
                        and not s.body[0].orelse:
                    inner = s.body[0]
                    vals = (s.test.values if isinstance(s.test, ast.BoolOp)
                            and isinstance(s.test.op, ast.And)
                            else [s.test]) + (
                        inner.test.values if isinstance(
                            inner.test, ast.BoolOp) and isinstance(
                            inner.test.op, ast.And) else [inner.test])
                    test = ast.BoolOp(op=ast.And(), values=list(vals))
                    ast.copy_location(test, s.test)
                    test.end_lineno = getattr(inner.test, 'end_lineno',
                                              getattr(test, 'lineno', 0))
                    s.test = test
                    s.body = inner.body
                    out.append(s)
                    changed = True
                    n += 1
                    continue
                out.append(s)
            blk[:] = out
        return blk

    def rec(node, in_func=False):
        if isinstance(node, FN):
            in_func = True
        elif isinstance(node, ast.ClassDef):
            in_func = False
        for field in ('body', 'orelse', 'finalbody'):
            blk = getattr(node, field, None)
            if isinstance(blk, list) and blk and isinstance(blk[0], ast.stmt):
                for s in list(blk):
                    rec(s, in_func)
                canon_block(blk, loop_body=(field == 'body' and isinstance(
                    node, (ast.For, ast.AsyncFor, ast.While))),
                    in_func=in_func)
        for h in getattr(node, 'handlers', []) or []:
            rec(h, in_func)
        for c in getattr(node, 'cases', []) or []:
            rec(c, in_func)
    rec(tree)
    return n


def _simple_target(e) -> bool:
    return isinstance(e, ast.Name) or (
        isinstance(e, ast.Attribute) and _simple_target(e.value))


def _t0_canon_stmts(tree) -> int:
    """More canonical spellings (every module, also the reference tree):
      x = a if c else b            ->  if c: x = a  else: x = b
      return a if c else b         ->  if c: return a ; return b
      T = T + <number>  (T a name / attribute chain)   ->  T += <number>
      X = [] ; for v in S: [if c:] X.append(e)   ->  X = [e for v in S if c]
         (only when v is used nowhere else in the function, X occurs in the
          loop only as the append receiver, no else/await/yield/walrus)
    Each pair is the same program; rules then see one shape."""
    n = 0
    for f in [x for x in ast.walk(tree) if isinstance(x, FN)]:
        counts: Dict[str, int] = {}
        for x in ast.walk(f):
            if isinstance(x, ast.Name):
                counts[x.id] = counts.get(x.id, 0) + 1

        def canon_block(blk, counts=counts, f=f):
            nonlocal n
            out = []
            i = 0
            while i < len(blk):
                s = blk[i]
                nxt = blk[i + 1] if i + 1 < len(blk) else None
                # ---- loop-with-append -> comprehension
                if isinstance(s, ast.Assign) and len(s.targets) == 1 and \
                        isinstance(s.targets[0], ast.Name) and isinstance(
                            s.value, ast.List) and not s.value.elts and \
                        isinstance(nxt, ast.For) and not nxt.orelse and \
                        len(nxt.body) == 1:
                    x = s.targets[0].id
                    # nested `for` / `if` chain down to the append
                    gens = []
                    inner = nxt
                    while True:
                        if isinstance(inner, ast.For) and not inner.orelse \
                                and len(inner.body) == 1:
                            gens.append([inner.target, inner.iter, []])
                            inner = inner.body[0]
                        elif isinstance(inner, ast.If) and not inner.orelse \
                                and len(inner.body) == 1 and gens:
                            gens[-1][2].append(inner.test)
                            inner = inner.body[0]
                        else:
                            break
                    if isinstance(inner, ast.Expr) and isinstance(
                            inner.value, ast.Call) and isinstance(
                            inner.value.func, ast.Attribute) and \
                            inner.value.func.attr == 'append' and \
                            isinstance(inner.value.func.value, ast.Name) \
                            and inner.value.func.value.id == x and len(
                                inner.value.args) == 1 and not \
                            inner.value.keywords and not isinstance(
                                inner.value.args[0], ast.Starred):
                        tv = {t.id for g in gens for t in ast.walk(g[0])
                              if isinstance(t, ast.Name)}
                        inside: Dict[str, int] = {}
                        for y in ast.walk(nxt):
                            if isinstance(y, ast.Name):
                                inside[y.id] = inside.get(y.id, 0) + 1
                        plain_target = all(isinstance(t, (
                            ast.Name, ast.Tuple, ast.List, ast.expr_context))
                            for g in gens for t in ast.walk(g[0]))
                        if plain_target and all(
                                counts.get(v, 0) == inside.get(v, 0)
                                or not _live_across(f, v, nxt)
                                for v in tv) and inside.get(x, 0) == 1 and \
                                not any(isinstance(y, (
                                    ast.Await, ast.Yield, ast.YieldFrom,
                                    ast.NamedExpr)) for y in ast.walk(nxt)):
                            comp = ast.ListComp(
                                elt=inner.value.args[0], generators=[
                                    ast.comprehension(
                                        target=g[0], iter=g[1], ifs=g[2],
                                        is_async=0) for g in gens])
                            ast.copy_location(comp, s.value)
                            comp.end_lineno = getattr(nxt, 'end_lineno',
                                                      getattr(s, 'lineno', 0))
                            s.value = comp
                            s.end_lineno = comp.end_lineno
                            out.append(s)
                            i += 2
                            n += 1
                            continue
                # ---- for x in S: if c: return K   ->   if any(c for x in S):
                #      return K        (K a constant; x used nowhere else)
                #      (several `if c_i: return K` with the same K: any(c_1 or
                #      c_2 ...))
                if isinstance(s, ast.For) and not s.orelse and s.body and all(
                        isinstance(b, ast.If) and not b.orelse and len(
                            b.body) == 1 and isinstance(
                            b.body[0], ast.Return) and isinstance(
                            b.body[0].value, ast.Constant)
                        and b.body[0].value.value ==
                        s.body[0].body[0].value.value
                        and type(b.body[0].value.value) is type(
                            s.body[0].body[0].value.value)
                        for b in s.body):
                    tv = {t.id for t in ast.walk(s.target)
                          if isinstance(t, ast.Name)}
                    inside = {}
                    for y in ast.walk(s):
                        if isinstance(y, ast.Name):
                            inside[y.id] = inside.get(y.id, 0) + 1
                    if all(isinstance(t, (ast.Name, ast.Tuple, ast.List,
                                          ast.expr_context))
                           for t in ast.walk(s.target)) and all(
                            counts.get(v, 0) == inside.get(v, 0)
                            or not _live_across(f, v, s)
                            for v in tv) and not any(isinstance(y, (
                                ast.Await, ast.Yield, ast.YieldFrom,
                                ast.NamedExpr)) for y in ast.walk(s)):
                        tests = [b.test for b in s.body]
                        elt = tests[0] if len(tests) == 1 else ast.BoolOp(
                            op=ast.Or(), values=tests)
                        if len(tests) > 1:
                            ast.copy_location(elt, tests[0])
                        gen = ast.GeneratorExp(
                            elt=elt, generators=[
                                ast.comprehension(target=s.target,
                                                  iter=s.iter, ifs=[],
                                                  is_async=0)])
                        call = ast.Call(func=ast.Name(id='any',
                                                      ctx=ast.Load()),
                                        args=[gen], keywords=[])
                        new = ast.If(test=call, body=s.body[0].body,
                                     orelse=[])
                        ast.copy_location(new, s)
                        for t in (call, gen, call.func):
                            ast.copy_location(t, s)
                        out.append(new)
                        i += 1
                        n += 1
                        continue
                # ---- return not X  ->  if X: return False ; return True
                #      return bool(X) -> if X: return True ; return False
                if isinstance(s, ast.Return) and s.value is not None:
                    v, first = s.value, None
                    if isinstance(v, ast.UnaryOp) and isinstance(
                            v.op, ast.Not):
                        cond, first = v.operand, False
                    elif isinstance(v, ast.Call) and isinstance(
                            v.func, ast.Name) and v.func.id == 'bool' and \
                            len(v.args) == 1 and not v.keywords:
                        cond, first = v.args[0], True
                    if first is not None:
                        r1 = ast.Return(value=ast.Constant(value=first))
                        r2 = ast.Return(value=ast.Constant(value=not first))
                        new = ast.If(test=cond, body=[r1], orelse=[])
                        for t in (new, r1, r1.value, r2, r2.value):
                            ast.copy_location(t, s)
                        out.append(new)
                        out.append(r2)
                        i += 1
                        n += 1
                        continue
                # ---- f(a if c else b)  (a statement; f a plain name / attribute
                #      chain; the only argument)  ->  if c: f(a)  else: f(b)
                if isinstance(s, ast.Expr) and isinstance(
                        s.value, ast.Call) and len(s.value.args) == 1 and \
                        not s.value.keywords and isinstance(
                            s.value.args[0], ast.IfExp) and _simple_target(
                            s.value.func):
                    v = s.value.args[0]

                    def call_with(val, s=s):
                        e = ast.Expr(value=ast.Call(
                            func=copy.deepcopy(s.value.func), args=[val],
                            keywords=[]))
                        ast.copy_location(e, val)
                        ast.copy_location(e.value, val)
                        for t in ast.walk(e.value.func):
                            ast.copy_location(t, val)
                        return e
                    new = ast.If(test=v.test, body=[call_with(v.body)],
                                 orelse=[call_with(v.orelse)])
                    ast.copy_location(new, s)
                    out.append(new)
                    i += 1
                    n += 1
                    continue
                # ---- x = a if c else b  /  return a if c else b
                if isinstance(s, (ast.Assign, ast.Return)) and isinstance(
                        getattr(s, 'value', None), ast.IfExp) and (
                        isinstance(s, ast.Return) or (
                            len(s.targets) == 1 and isinstance(
                                s.targets[0], ast.Name))):
                    v = s.value

                    def arm(val, s=s):
                        if isinstance(s, ast.Return):
                            r = ast.Return(value=val)
                        else:
                            r = ast.Assign(targets=[ast.Name(
                                id=s.targets[0].id, ctx=ast.Store())],
                                value=val)
                        ast.copy_location(r, val)
                        for t in ast.walk(r):
                            if not hasattr(t, 'lineno') and isinstance(
                                    t, (ast.expr, ast.stmt)):
                                ast.copy_location(t, val)
                        return r
                    new = ast.If(test=v.test, body=[arm(v.body)],
                                 orelse=[] if isinstance(s, ast.Return)
                                 else [arm(v.orelse)])
                    ast.copy_location(new, s)
                    out.append(new)
                    if isinstance(s, ast.Return):
                        out.append(arm(v.orelse))
                    i += 1
                    n += 1
                    continue
                # ---- T = T + <number>  ->  T += <number>
                if isinstance(s, ast.Assign) and len(s.targets) == 1 and \
                        _simple_target(s.targets[0]) and isinstance(
                            s.value, ast.BinOp) and isinstance(
                            s.value.op, (ast.Add, ast.Sub)) and isinstance(
                            s.value.right, ast.Constant) and isinstance(
                            s.value.right.value, (int, float)) and not \
                        isinstance(s.value.right.value, bool) and \
                        _unparse(s.value.left) == _unparse(s.targets[0]):
                    new = ast.AugAssign(target=s.targets[0], op=s.value.op,
                                        value=s.value.right)
                    ast.copy_location(new, s)
                    out.append(new)
                    i += 1
                    n += 1
                    continue
                out.append(s)
                i += 1
            blk[:] = out

        def rec(node):
            for field in ('body', 'orelse', 'finalbody'):
                blk = getattr(node, field, None)
                if isinstance(blk, list) and blk and isinstance(
                        blk[0], ast.stmt):
                    for s in list(blk):
                        if not isinstance(s, FN + (ast.ClassDef,)):
                            rec(s)
                    canon_block(blk)
            for h in getattr(node, 'handlers', []) or []:
                rec(h)
            for c in getattr(node, 'cases', []) or []:
                rec(c)
        rec(f)
    return n


def _t0_name_aliases(tree) -> int:
    """`v = w` where v is bound exactly once in the function, w is a plain
    name that is not re-bound anywhere after that statement, and every read
    of v comes after it: v is just another name for w.  Reads of v become w
    and the assignment goes (always-on: a rule then never depends on whether
    the source keeps such an alias)."""
    n = 0
    for f in [x for x in ast.walk(tree) if isinstance(x, FN)]:
        if any(isinstance(x, (ast.Global, ast.Nonlocal)) for x in ast.walk(f)):
            continue
        again = True
        while again:
            again = False
            for owner, field, block in _blocks(f):
                for i, s in enumerate(block):
                    if not (isinstance(s, ast.Assign) and len(s.targets) == 1
                            and isinstance(s.targets[0], ast.Name)
                            and isinstance(s.value, ast.Name)
                            and s.targets[0].id != s.value.id):
                        continue
                    v, w = s.targets[0].id, s.value.id
                    line = getattr(s, 'lineno', 0)
                    names = [x for x in ast.walk(f) if isinstance(x, ast.Name)
                             and x.id in (v, w)]
                    args = {a.arg for a in ast.walk(f)
                            if isinstance(a, ast.arg)}
                    v_st = [x for x in names if x.id == v and isinstance(
                        x.ctx, (ast.Store, ast.Del))]
                    if len(v_st) != 1 or v in args:
                        continue
                    v_use_lines = [getattr(x, 'end_lineno', None) or getattr(
                        x, 'lineno', 0) for x in names if x.id == v
                        and isinstance(x.ctx, ast.Load)]
                    last_use = max(v_use_lines) if v_use_lines else line
                    # w must keep its value up to the last read of v
                    if any(x.id == w and isinstance(
                            x.ctx, (ast.Store, ast.Del)) and line <= getattr(
                            x, 'lineno', 0) <= last_use and x is not s.value
                            for x in names):
                        continue
                    # in a loop an earlier store of w runs again later
                    in_loop = False
                    for lp in ast.walk(f):
                        if isinstance(lp, (ast.For, ast.AsyncFor, ast.While)) \
                                and any(y is s for y in ast.walk(lp)):
                            if any(x.id == w and isinstance(
                                    x.ctx, (ast.Store, ast.Del))
                                    and any(y is x for y in ast.walk(lp))
                                    and not (isinstance(lp, (
                                        ast.For, ast.AsyncFor)) and any(
                                        t is x for t in ast.walk(lp.target)))
                                    for x in names):
                                in_loop = True
                    if in_loop:
                        continue
                    v_ld = [x for x in names if x.id == v and isinstance(
                        x.ctx, ast.Load)]
                    if any(getattr(x, 'lineno', 0) <= line for x in v_ld):
                        continue
                    # nested scopes that re-bind w or v would capture
                    if any(isinstance(x, (ast.Lambda,) + FN) and x is not f
                           and ({v, w} & {a.arg for a in ast.walk(x.args)
                                         if isinstance(a, ast.arg)})
                           for x in ast.walk(f)):
                        continue
                    comp_bound = set()
                    for x in ast.walk(f):
                        if isinstance(x, ast.comprehension):
                            comp_bound |= {t.id for t in ast.walk(x.target)
                                           if isinstance(t, ast.Name)}
                    if v in comp_bound or w in comp_bound:
                        continue
                    for x in v_ld:
                        x.id = w
                    del block[i]
                    if not block:
                        block.append(ast.Pass(lineno=line, col_offset=0))
                    n += 1
                    again = True
                    break
                if again:
                    break
    return n


def t0(tree) -> None:
    """The always-on canonical spellings (the reference snapshot is taken
    from the T0 form, too)."""
    _t0_canon_ifs(tree)
    a = _t0_canon_stmts(tree)
    b = _t0_name_aliases(tree)
    if a or b:
        _t0_canon_ifs(tree)     # new if/else may hoist / merge


def normalize(trees: Dict[str, ast.AST], only: Optional[set] = None,
              ref: Optional[dict] = None) -> List[str]:
    """Normalise (in place) the modules in `only` (default: all)."""
    global _ALL_TREES
    ref = load_reference() if ref is None else ref
    notes: List[str] = []
    _ALL_TREES = trees
    for rel in sorted(trees):
        if only is not None and rel not in only:
            continue
        t0(trees[rel])
        if rel not in ref:
            continue
        rf = ref[rel]
        tree = trees[rel]
        cur = functions(tree)
        if set(cur) == set(rf) and all(
                [list(b) for b in bindings(cur[q])] == rf[q] for q in cur):
            continue       # identical shape: nothing to do
        _t1_inline(rel, tree, rf, trees, notes)
        _t2_rename(rel, tree, rf, notes)
        _t2_rebind(rel, tree, rf, ref.get(REBINDS, {}).get(rel, {}), notes)
        _t3_propagate(rel, tree, rf, notes,
                      ref.get(REBINDS, {}).get(rel, {}))
        t0(tree)       # expanded / substituted code in canonical spelling
        ast.fix_missing_locations(tree)
    return notes

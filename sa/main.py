"""Driver: ./check <Cnn> [--tier quick|thorough] [--replay <file>]"""
from __future__ import annotations

import argparse
import importlib
import json
import os
import sys
import time
import traceback

HERE = os.path.dirname(os.path.abspath(__file__))
VERIF = os.path.dirname(HERE)
sys.path.insert(0, VERIF)

from sa.index import Index, AnalysisError  # noqa: E402
from sa.core import Checker, finish  # noqa: E402


def repo_root():
    return os.environ.get('VERIF_REPO', '/repo')


def run_rule(pid, idx, tier):
    mod = importlib.import_module(f'rules.{pid}')
    c = Checker(pid, idx, tier)
    mod.check(c)
    return c, mod


_BASE_IDX = None


def fails_of(c):
    return {(o.rule, o.key) for o in c.obs if not o.ok}


def _variant_job(args):
    pid, repo, v = args
    name, rel, old, new, expect = v[:5]
    path = os.path.join(repo, rel)
    try:
        with open(path, encoding='utf-8') as fh:
            src = fh.read()
    except OSError:
        return name, 'inapplicable', 'file missing'
    if src.count(old) != 1:
        return name, 'inapplicable', f'anchor text occurs {src.count(old)}x'
    new_src = src.replace(old, new)
    try:
        compile(new_src, rel, 'exec')
    except SyntaxError as exc:
        return name, 'error', f'variant does not compile: {exc}'
    try:
        if _BASE_IDX is not None and rel.startswith('cylc/flow/'):
            idx = Index.with_overlay(_BASE_IDX, {rel: new_src})
        else:
            idx = Index(repo, overlay={rel: new_src})
        c, _ = run_rule(pid, idx, 'quick')
    except AnalysisError as exc:
        # an anchor that vanished is reported, never silently passed
        if expect == 'ANALYSIS-ERROR':
            return name, 'fired', f'ANALYSIS-ERROR: {exc}'
        return name, 'fired-as-error', str(exc)
    except Exception as exc:
        return name, 'error', f'{type(exc).__name__}: {exc}'
    return name, 'ran', sorted(fails_of(c))


INVARIANCE = ('flip', 'notforms', 'demorgan', 'ifsplit', 'ifmerge',
              'elsedrop', 'elseadd', 'rename', 'temps', 'extract',
              'comp2loop', 'loop2comp', 'ternary', 'unternary', 'unaug')
_TOUCHED = None


def _invariance_job(args):
    """Re-run the rule on the current tree with one behaviour-preserving
    rewrite (tools/autorefactor.py) applied, in memory, to every module the
    rule looked at: the verdict must not change."""
    pid, repo, tname = args
    import ast as _ast
    import importlib.util
    spec = importlib.util.spec_from_file_location(
        'autorefactor', os.path.join(VERIF, 'tools', 'autorefactor.py'))
    ar = importlib.util.module_from_spec(spec)
    spec.loader.exec_module(ar)
    overlay = {}
    for rel in sorted(_TOUCHED or ()):
        try:
            with open(os.path.join(repo, rel), encoding='utf-8') as fh:
                src = fh.read()
            tree = _ast.parse(src)
            before = _ast.dump(tree)
            r = ar.T[tname](tree)
            tree = r if isinstance(r, _ast.AST) else tree
            _ast.fix_missing_locations(tree)
            if _ast.dump(tree) == before:
                continue
            out = _ast.unparse(tree)
            compile(out, rel, 'exec')
            overlay[rel] = out + '\n'
        except Exception as exc:
            return tname, 'error', f'{rel}: {type(exc).__name__}: {exc}'
    if not overlay:
        return tname, 'ran', (0, [])
    try:
        idx = Index.with_overlay(_BASE_IDX, overlay)
        c, _ = run_rule(pid, idx, 'quick')
    except AnalysisError as exc:
        return tname, 'ran', (len(overlay), [('ANALYSIS-ERROR', str(exc))])
    except Exception as exc:
        return tname, 'error', f'{type(exc).__name__}: {exc}'
    return tname, 'ran', (len(overlay), sorted(fails_of(c)))


def invariance(pid, repo, base, base_fails):
    """-> (summary, problems)"""
    global _TOUCHED
    mods = {fq.split(':')[0] for fq in base.funcs_seen}
    _TOUCHED = {m.path for m in _BASE_IDX.modules.values() if m.name in mods}
    jobs = [(pid, repo, t) for t in INVARIANCE]
    try:
        import multiprocessing as mp
        with mp.get_context('fork').Pool(min(15, len(jobs))) as pool:
            results = pool.map(_invariance_job, jobs)
    except Exception:
        results = [_invariance_job(j) for j in jobs]
    problems, detail = [], []
    for tname, status, info in results:
        if status == 'error':
            problems.append(f'invariance {tname}: {info}')
            continue
        nfiles, fails = info
        new = [x for x in fails if tuple(x) not in base_fails]
        detail.append({'transform': tname, 'modules_rewritten': nfiles,
                       'verdict_changed': bool(new)})
        if new:
            problems.append(
                f'verdict not invariant under behaviour-preserving rewrite '
                f'`{tname}` of {nfiles} module(s): {new[:2]}')
    return {'modules': len(_TOUCHED), 'transforms': len(INVARIANCE),
            'detail': detail}, problems


def selftest(pid, repo, base_fails, mod):
    """Apply each registered variant in memory; broken ones must fire on the
    named rule, benign ones must stay silent."""
    variants = getattr(mod, 'VARIANTS', [])
    if not variants:
        return {'variants': 0}, []
    jobs = [(pid, repo, v) for v in variants]
    results = []
    try:
        import multiprocessing as mp
        with mp.get_context('fork').Pool(min(16, len(jobs))) as pool:
            results = pool.map(_variant_job, jobs)
    except Exception:
        results = [_variant_job(j) for j in jobs]
    problems = []
    summary = {'variants': len(variants), 'fired': 0, 'benign_silent': 0,
               'inapplicable': 0, 'detail': []}
    for v, (name, status, info) in zip(variants, results):
        expect = v[4]
        if status == 'inapplicable':
            summary['inapplicable'] += 1
            summary['detail'].append({'variant': name, 'status': status,
                                      'info': info})
            continue
        if status == 'error':
            problems.append(f'variant {name}: {info}')
            continue
        if status in ('fired', 'fired-as-error'):
            new = [('ANALYSIS-ERROR', info)]
        else:
            new = [x for x in info if tuple(x) not in base_fails]
        if expect is None:
            if new:
                problems.append(
                    f'benign variant {name} raised {new[:2]}')
            else:
                summary['benign_silent'] += 1
                summary['detail'].append({'variant': name,
                                          'status': 'silent (benign)'})
        else:
            hit = [x for x in new if x[0].startswith(expect)
                   or expect == 'ANALYSIS-ERROR']
            if hit:
                summary['fired'] += 1
                summary['detail'].append({
                    'variant': name, 'status': 'fired',
                    'rule': hit[0][0], 'key': str(hit[0][1])[:200]})
            else:
                problems.append(
                    f'variant {name} expected {expect} to fire; got '
                    f'{new[:2]}')
    return summary, problems


def main(argv=None):
    ap = argparse.ArgumentParser()
    ap.add_argument('pid')
    ap.add_argument('--tier', default=os.environ.get('VERIF_TIER', 'quick'))
    ap.add_argument('--replay')
    ap.add_argument('--selftest', action='store_true')
    a = ap.parse_args(argv)
    tier = 'thorough' if a.tier.startswith('t') else 'quick'
    try:
        seed = int(os.environ.get('VERIF_SEED', '0'))
    except ValueError:
        seed = 0
    t0 = time.time()
    pid = a.pid
    repo = repo_root()
    try:
        idx = Index(repo)
        c, mod = run_rule(pid, idx, tier)
        meta = {'clauses': getattr(mod, 'CLAUSES', ''),
                'assumptions': list(getattr(mod, 'ASSUMPTIONS', []))}
        if a.replay:
            with open(a.replay) as fh:
                rp = json.load(fh)
            hit = [o for o in c.obs
                   if o.rule == rp['rule'] and o.key == rp['key']]
            for o in hit:
                print(json.dumps(o.as_dict(), indent=1))
            if not hit:
                print('replay: instance no longer present in the tree')
                return 0
            if any(not o.ok for o in hit):
                print(f'VIOLATION property={pid} replay={a.replay}')
                return 1
            return 0
        for n in getattr(idx, 'normalisation', []):
            c.note('normalised: ' + n)
        if getattr(idx, 'normalisation', None):
            print(f'{pid}: tree differs from the reference snapshot by '
                  f'{len(idx.normalisation)} recognised refactoring(s); '
                  'rules run on the normal form (see evidence notes)')
        if tier == 'thorough' or a.selftest:
            global _BASE_IDX
            _BASE_IDX = idx
            # the normaliser's own both-ways battery
            import importlib.util
            import io
            import contextlib
            spec = importlib.util.spec_from_file_location(
                'normtest', os.path.join(os.path.dirname(os.path.dirname(
                    os.path.abspath(__file__))), 'tools', 'normtest.py'))
            nt = importlib.util.module_from_spec(spec)
            spec.loader.exec_module(nt)
            buf = io.StringIO()
            with contextlib.redirect_stdout(buf):
                rc = nt.main()
            if rc:
                print(f'ANALYSIS-ERROR property={pid}: normaliser self-test '
                      'failed\n' + buf.getvalue()[-2000:])
                return 2
            c.note('normaliser self-test: ' + buf.getvalue().strip(
                ).splitlines()[-1])
            summary, problems = selftest(pid, repo, fails_of(c), mod)
            c.note('selftest: ' + json.dumps(summary)[:4000])
            if problems:
                for p in problems:
                    print(f'ANALYSIS-ERROR property={pid} selftest: {p}')
                finish(c, meta, t0, seed)
                return 2
            print(f'{pid} selftest: {summary.get("variants", 0)} variants, '
                  f'{summary.get("fired", 0)} fired, '
                  f'{summary.get("benign_silent", 0)} benign silent, '
                  f'{summary.get("inapplicable", 0)} inapplicable')
            inv, iproblems = invariance(pid, repo, c, fails_of(c))
            c.note('invariance: ' + json.dumps(inv)[:3000])
            if iproblems:
                for p in iproblems:
                    print(f'ANALYSIS-ERROR property={pid} {p}')
                finish(c, meta, t0, seed)
                return 2
            print(f'{pid} invariance: verdict unchanged under '
                  f'{inv["transforms"]} behaviour-preserving rewrites of the '
                  f'{inv["modules"]} module(s) the rule reads')
        return finish(c, meta, t0, seed)
    except AnalysisError as exc:
        print(f'ANALYSIS-ERROR property={pid}: {exc}')
        return 2
    except Exception:
        print(f'ANALYSIS-ERROR property={pid}: checker crashed')
        traceback.print_exc()
        return 2


if __name__ == '__main__':
    sys.exit(main())

"""A2: statement-level control-flow graph per function (hand-built).

Nodes are statements (compound statements are represented by their header:
the `if`/`while` test, the `for` iterable, the `with` items).  Special nodes:
ENTRY, EXIT (return / falling off the end), RAISE (explicit raise leaving the
function).  Implicit exceptions are edges only inside `try` bodies (to every
handler); elsewhere they are not modelled ("on all normal paths").
`finally` blocks are duplicated per continuation (normal / return / raise).
"""
from __future__ import annotations

import ast
from typing import Callable, Dict, List, Set

ENTRY, EXIT, RAISE = 'ENTRY', 'EXIT', 'RAISE'


class _Ctx:
    __slots__ = ('brk', 'cont', 'ret', 'exc', 'tag')

    def __init__(self, brk=None, cont=None, ret=EXIT, exc=(RAISE,), tag=''):
        self.brk, self.cont, self.ret, self.exc, self.tag = (
            brk, cont, ret, tuple(exc), tag)

    def but(self, **kw):
        c = _Ctx(self.brk, self.cont, self.ret, self.exc, self.tag)
        for k, v in kw.items():
            setattr(c, k, tuple(v) if k == 'exc' else v)
        return c


class CFG:
    def __init__(self, fnode):
        self.fnode = fnode
        self.succ: Dict[object, Set[object]] = {ENTRY: set(), EXIT: set(),
                                                RAISE: set()}
        self.stmt: Dict[object, ast.stmt] = {}
        self.keys: Dict[int, List[object]] = {}
        # exceptional successors (statement did not complete)
        self.exc: Dict[object, Set[object]] = {}
        first = self._seq(fnode.body, EXIT, _Ctx())
        self.succ[ENTRY].add(first)

    # ---------------------------------------------------------------
    def _node(self, s, ctx):
        key = (id(s), ctx.tag)
        if key not in self.succ:
            self.succ[key] = set()
            self.stmt[key] = s
            self.keys.setdefault(id(s), []).append(key)
        return key

    def _seq(self, stmts, nxt, ctx):
        for s in reversed(stmts):
            nxt = self._one(s, nxt, ctx)
        return nxt

    def _one(self, s, nxt, ctx):
        k = self._node(s, ctx)
        add = self.succ[k].add
        if isinstance(s, ast.If):
            add(self._seq(s.body, nxt, ctx))
            add(self._seq(s.orelse, nxt, ctx))
        elif isinstance(s, (ast.While, ast.For, ast.AsyncFor)):
            inner = ctx.but(brk=nxt, cont=k)
            add(self._seq(s.body, k, inner))
            infinite = isinstance(s, ast.While) and isinstance(
                s.test, ast.Constant) and bool(s.test.value)
            if not infinite:
                add(self._seq(s.orelse, nxt, ctx))
        elif isinstance(s, (ast.With, ast.AsyncWith)):
            add(self._seq(s.body, nxt, ctx))
        elif isinstance(s, ast.Try) or type(s).__name__ == 'TryStar':
            if s.finalbody:
                fin_n = self._seq(s.finalbody, nxt, ctx.but(
                    tag=ctx.tag + 'n%d' % id(s)))
                fin_r = self._seq(s.finalbody, ctx.ret, ctx.but(
                    tag=ctx.tag + 'r%d' % id(s)))
                fin_x = [self._seq(s.finalbody, e, ctx.but(
                    tag=ctx.tag + 'x%d_%d' % (id(s), i)))
                    for i, e in enumerate(ctx.exc)]
                brk = cont = None
                if ctx.brk is not None:
                    brk = self._seq(s.finalbody, ctx.brk, ctx.but(
                        tag=ctx.tag + 'b%d' % id(s)))
                    cont = self._seq(s.finalbody, ctx.cont, ctx.but(
                        tag=ctx.tag + 'c%d' % id(s)))
                after = fin_n
                octx = ctx.but(ret=fin_r, exc=fin_x, brk=brk, cont=cont)
            else:
                after = nxt
                octx = ctx
            h_entries = [self._seq(h.body, after, octx) for h in s.handlers]
            catch_all = any(
                h.type is None or (isinstance(h.type, ast.Name) and h.type.id
                                   in ('Exception', 'BaseException'))
                for h in s.handlers)
            exc = list(h_entries) + ([] if catch_all else list(octx.exc))
            bctx = octx.but(exc=exc)
            else_entry = self._seq(s.orelse, after, octx)
            body_entry = self._seq(s.body, else_entry, bctx)
            add(body_entry)
            # any statement of the body may raise into a handler
            for bs in self._flat(s.body):
                for key in self.keys.get(id(bs), []):
                    if key[1] == bctx.tag:
                        for h in h_entries:
                            self.exc.setdefault(key, set()).add(h)
                        if not s.handlers and s.finalbody:
                            for e in octx.exc:
                                self.exc.setdefault(key, set()).add(e)
        elif isinstance(s, ast.Match):
            wild = False
            for c in s.cases:
                add(self._seq(c.body, nxt, ctx))
                if isinstance(c.pattern, ast.MatchAs) and (
                        c.pattern.pattern is None) and c.guard is None:
                    wild = True
            if not wild:
                add(nxt)
        elif isinstance(s, ast.Return):
            add(ctx.ret)
        elif isinstance(s, ast.Raise):
            for e in ctx.exc:
                add(e)
        elif isinstance(s, ast.Break):
            add(ctx.brk if ctx.brk is not None else nxt)
        elif isinstance(s, ast.Continue):
            add(ctx.cont if ctx.cont is not None else nxt)
        else:
            add(nxt)
        return k

    def _flat(self, stmts):
        for s in stmts:
            yield s
            for name in ('body', 'orelse', 'finalbody'):
                b = getattr(s, name, None)
                if isinstance(b, list) and not isinstance(
                        s, (ast.FunctionDef, ast.AsyncFunctionDef,
                            ast.ClassDef)):
                    yield from self._flat(
                        [x for x in b if isinstance(x, ast.stmt)])
            if isinstance(s, ast.Try):
                for h in s.handlers:
                    yield from self._flat(h.body)
            if isinstance(s, ast.Match):
                for c in s.cases:
                    yield from self._flat(c.body)

    # ---------------------------------------------------------------
    def _reach(self, starts, blocked: Callable[[object], bool]):
        seen = set()
        todo = list(starts)
        while todo:
            n = todo.pop()
            if n in seen:
                continue
            seen.add(n)
            if n in (EXIT, RAISE):
                continue
            if n != ENTRY and blocked(n):
                continue
            todo.extend(self.succ.get(n, ()))
            todo.extend(self.exc.get(n, ()))
        return seen

    def dominated_by(self, target: ast.stmt, pred) -> bool:
        """Every path ENTRY -> target passes a statement satisfying pred."""
        tkeys = set(self.keys.get(id(target), []))
        if not tkeys:
            raise KeyError('statement not in CFG')

        def blocked(k):
            return k not in tkeys and pred(self.stmt[k])
        seen = self._reach([ENTRY], blocked)
        return not (seen & tkeys)

    def postdominated_by(self, source: ast.stmt, pred,
                         exits=(EXIT,)) -> bool:
        """Every path source -> normal exit passes a stmt satisfying pred."""
        skeys = self.keys.get(id(source), [])
        if not skeys:
            raise KeyError('statement not in CFG')
        starts = []
        for k in skeys:
            starts.extend(self.succ[k])

        def blocked(k):
            return pred(self.stmt[k])
        seen = self._reach(starts, blocked)
        for e in exits:
            if e in seen:
                # EXIT is recorded as seen when reached un-blocked
                return False
        return True

    def reachable_from(self, source: ast.stmt) -> Set[int]:
        skeys = self.keys.get(id(source), [])
        starts = []
        for k in skeys:
            starts.extend(self.succ[k])
        seen = self._reach(starts, lambda k: False)
        return {k[0] for k in seen if isinstance(k, tuple)}

    def path_exists(self, a: ast.stmt, b: ast.stmt) -> bool:
        return id(b) in self.reachable_from(a)


def header_exprs(s: ast.stmt):
    """Expressions evaluated *at* the statement node (not in its blocks)."""
    if isinstance(s, (ast.If, ast.While)):
        return [s.test]
    if isinstance(s, (ast.For, ast.AsyncFor)):
        return [s.iter]
    if isinstance(s, (ast.With, ast.AsyncWith)):
        return [i.context_expr for i in s.items]
    if isinstance(s, ast.Match):
        return [s.subject]
    if isinstance(s, ast.Try) or type(s).__name__ == 'TryStar':
        return []
    if isinstance(s, (ast.FunctionDef, ast.AsyncFunctionDef, ast.ClassDef)):
        return []
    return [s]


def stmt_has(s: ast.stmt, test: Callable[[ast.AST], bool]) -> bool:
    if isinstance(s, (ast.Assign, ast.AnnAssign, ast.AugAssign)) and test(s):
        return True
    for e in header_exprs(s):
        for n in ast.walk(e):
            if isinstance(n, ast.Lambda):
                continue
            if test(n):
                return True
    return False

"""A0: source index of cylc/flow (parsed, never imported).

Index(repo) parses every cylc/flow/**/*.py (etc/tutorial and *_pb2.py are
excluded, as the build excludes them), records parent links, enclosing
function / class for every node, class bases and methods, import maps.
"""
from __future__ import annotations

import ast
import hashlib
import os
from typing import Dict, Iterator, List, Optional, Tuple


class AnalysisError(Exception):
    """The checker cannot decide (exit 2)."""


PKG = 'cylc/flow'
EXCLUDE_PARTS = ('/etc/tutorial/',)
EXCLUDE_SUFFIX = ('_pb2.py',)


class Func:
    __slots__ = ('qual', 'mod', 'node', 'cls', 'path', 'name')

    def __init__(self, qual, mod, node, cls, path):
        self.qual = qual      # e.g. 'TaskPool.spawn_task' (module relative)
        self.mod = mod        # 'task_pool' (relative to cylc.flow)
        self.node = node
        self.cls = cls        # ClassInfo or None
        self.path = path      # path relative to repo root
        self.name = node.name

    @property
    def fq(self):
        return f'{self.mod}:{self.qual}'

    def __repr__(self):
        return f'<Func {self.fq}>'


class ClassInfo:
    __slots__ = ('name', 'mod', 'node', 'bases', 'methods', 'path')

    def __init__(self, name, mod, node, path):
        self.name = name
        self.mod = mod
        self.node = node
        self.path = path
        self.bases = []
        for b in node.bases:
            if isinstance(b, ast.Name):
                self.bases.append(b.id)
            elif isinstance(b, ast.Attribute):
                self.bases.append(b.attr)
        self.methods: Dict[str, Func] = {}


class Module:
    __slots__ = ('name', 'path', 'tree', 'src', 'imports', 'lines', 'nodes')

    def __init__(self, name, path, tree, src):
        self.name = name
        self.path = path
        self.tree = tree
        self.src = src
        self.lines = src.splitlines()
        self.nodes = []
        # local name -> (module relative name | absolute dotted, attr or None)
        self.imports: Dict[str, Tuple[str, Optional[str]]] = {}


class Index:
    def __init__(self, repo: str, overlay: Optional[Dict[str, str]] = None,
                 normalise: bool = True):
        self.repo = repo
        self.normalise = normalise
        self.overlay = overlay or {}
        self.modules: Dict[str, Module] = {}
        self.funcs: Dict[str, Func] = {}           # fq -> Func
        self.classes: Dict[str, List[ClassInfo]] = {}  # name -> infos
        self.parent: Dict[int, ast.AST] = {}
        self.owner_func: Dict[int, Func] = {}      # id(node) -> Func
        self.node_mod: Dict[int, Module] = {}
        self.subnodes: Dict[int, list] = {}
        self._tree_mod = None
        self._digest = hashlib.sha256()
        root = os.path.join(repo, PKG)
        if not os.path.isdir(root):
            raise AnalysisError(f'{root} not found')
        paths = []
        for d, _dirs, files in os.walk(root):
            for f in files:
                if not f.endswith('.py'):
                    continue
                p = os.path.join(d, f)
                rel = os.path.relpath(p, repo)
                if any(x in '/' + rel for x in EXCLUDE_PARTS):
                    continue
                if rel.endswith(EXCLUDE_SUFFIX):
                    continue
                paths.append((rel, p))
        paths.sort()
        parsed = []
        for rel, p in paths:
            if rel in self.overlay:
                src = self.overlay[rel]
            else:
                with open(p, encoding='utf-8') as fh:
                    src = fh.read()
            self._digest.update(rel.encode())
            self._digest.update(src.encode())
            try:
                tree = ast.parse(src, filename=rel)
            except SyntaxError as exc:
                raise AnalysisError(f'cannot parse {rel}: {exc}')
            parsed.append((rel, tree, src))
        # refactoring-normal form relative to the reference snapshot
        # (identity on the snapshot tree; see normalize.py)
        self.normalisation: List[str] = []
        if normalise:
            from . import normalize
            self.normalisation = normalize.normalize(
                {rel: tree for rel, tree, _ in parsed})
        for rel, tree, src in parsed:
            name = rel[len(PKG) + 1:-3].replace('/', '.')
            if name.endswith('.__init__'):
                name = name[:-9]
            elif name == '__init__':
                name = ''
            mod = Module(name, rel, tree, src)
            self.modules[name] = mod
            self._index_module(mod)
        self.digest = self._digest.hexdigest()

    @classmethod
    def with_overlay(cls, base: 'Index', overlay: Dict[str, str]) -> 'Index':
        """A new index sharing every unchanged module with `base`."""
        self = cls.__new__(cls)
        self.repo = base.repo
        self.overlay = dict(overlay)
        self.modules = dict(base.modules)
        from collections import ChainMap
        self.parent = ChainMap({}, base.parent)
        self.owner_func = ChainMap({}, base.owner_func)
        self.node_mod = ChainMap({}, base.node_mod)
        self.subnodes = ChainMap({}, base.subnodes)
        self._tree_mod = None
        changed = set()
        for rel in overlay:
            name = rel[len(PKG) + 1:-3].replace('/', '.')
            if name.endswith('.__init__'):
                name = name[:-9]
            elif name == '__init__':
                name = ''
            changed.add(name)
        self.funcs = {k: f for k, f in base.funcs.items()
                      if f.mod not in changed}
        self.classes = {}
        for k, infos in base.classes.items():
            keep = [ci for ci in infos if ci.mod not in changed]
            if keep:
                self.classes[k] = keep
        dg = hashlib.sha256(base.digest.encode())
        parsed = []
        for rel, src in sorted(overlay.items()):
            dg.update(rel.encode())
            dg.update(src.encode())
            try:
                tree = ast.parse(src, filename=rel)
            except SyntaxError as exc:
                raise AnalysisError(f'cannot parse {rel}: {exc}')
            parsed.append((rel, tree, src))
        self.normalise = getattr(base, 'normalise', True)
        self.normalisation = list(getattr(base, 'normalisation', []))
        if self.normalise:
            from . import normalize
            trees = {m.path: m.tree for m in base.modules.values()}
            trees.update({rel: tree for rel, tree, _ in parsed})
            self.normalisation += normalize.normalize(
                trees, only={rel for rel, _t, _s in parsed})
        for rel, tree, src in parsed:
            name = rel[len(PKG) + 1:-3].replace('/', '.')
            if name.endswith('.__init__'):
                name = name[:-9]
            elif name == '__init__':
                name = ''
            mod = Module(name, rel, tree, src)
            self.modules[name] = mod
            self._index_module(mod)
        self.digest = dg.hexdigest()
        return self

    # ------------------------------------------------------------------
    def _index_module(self, mod: Module):
        """Single pass: parents, owners, imports, defs, flat node lists."""
        parent = self.parent
        owner = self.owner_func
        nmod = self.node_mod
        nodes = mod.nodes
        sub = self.subnodes
        FN = (ast.FunctionDef, ast.AsyncFunctionDef)

        def visit(node, quals, cls, func, open_lists):
            nodes.append(node)
            for lst in open_lists:
                lst.append(node)
            if func is not None:
                owner[id(node)] = func
                nmod[id(node)] = mod
            if isinstance(node, ast.ImportFrom):
                base = node.module or ''
                if node.level:
                    parts = mod.name.split('.') if mod.name else []
                    if not mod.path.endswith('__init__.py'):
                        parts = parts[:-1]
                    parts = parts[:len(parts) - (node.level - 1)]
                    base = '.'.join(['cylc.flow'] + parts + (
                        [node.module] if node.module else []))
                for a in node.names:
                    mod.imports[a.asname or a.name] = (base, a.name)
            elif isinstance(node, ast.Import):
                for a in node.names:
                    mod.imports[(a.asname or a.name).split('.')[0]] = (
                        a.name, None)
            for ch in ast.iter_child_nodes(node):
                parent[id(ch)] = node
                if isinstance(ch, FN):
                    q = '.'.join(quals + [ch.name])
                    f = Func(q, mod.name, ch, cls, mod.path)
                    key = f.fq
                    if key in self.funcs:
                        n = 2
                        while f'{key}#{n}' in self.funcs:
                            n += 1
                        self.funcs[f'{key}#{n}'] = self.funcs[key]
                    self.funcs[key] = f
                    if cls is not None and quals and quals[-1] == cls.name:
                        cls.methods[ch.name] = f
                    mine = []
                    sub[id(ch)] = mine
                    visit(ch, quals + [ch.name], cls, f, open_lists + [mine])
                elif isinstance(ch, ast.ClassDef):
                    ci = ClassInfo(ch.name, mod.name, ch, mod.path)
                    self.classes.setdefault(ch.name, []).append(ci)
                    mine = []
                    sub[id(ch)] = mine
                    visit(ch, quals + [ch.name], ci, func, open_lists + [mine])
                else:
                    visit(ch, quals, cls, func, open_lists)

        import sys
        sys.setrecursionlimit(max(sys.getrecursionlimit(), 10000))
        visit(mod.tree, [], None, None, [])
        sub[id(mod.tree)] = nodes

    def walk(self, root):
        """Like ast.walk (order differs) but cached for modules, classes and
        functions of the index."""
        lst = self.subnodes.get(id(root))
        if lst is not None:
            return lst
        return list(ast.walk(root))

    # ------------------------------------------------------------------
    def module(self, name: str) -> Module:
        if name not in self.modules:
            raise AnalysisError(f'module cylc.flow.{name} not found')
        return self.modules[name]

    def func(self, mod: str, qual: str, required=True) -> Optional[Func]:
        f = self.funcs.get(f'{mod}:{qual}')
        if f is None and required:
            raise AnalysisError(
                f'anchor function {mod}:{qual} not found in the tree')
        return f

    def funcs_named(self, name: str) -> List[Func]:
        return [f for f in self.funcs.values() if f.name == name]

    def cls(self, name: str, mod: Optional[str] = None) -> ClassInfo:
        infos = self.classes.get(name, [])
        if mod is not None:
            infos = [c for c in infos if c.mod == mod]
        if not infos:
            raise AnalysisError(f'class {name} not found')
        return infos[0]

    def mro_methods(self, ci: ClassInfo, name: str) -> Optional[Func]:
        seen = set()
        todo = [ci]
        while todo:
            c = todo.pop(0)
            if id(c) in seen:
                continue
            seen.add(id(c))
            if name in c.methods:
                return c.methods[name]
            for b in c.bases:
                for bc in self.classes.get(b, []):
                    todo.append(bc)
        return None

    def subclasses(self, name: str) -> List[ClassInfo]:
        out = []
        todo = [name]
        seen = set()
        while todo:
            n = todo.pop()
            for infos in self.classes.values():
                for c in infos:
                    if n in c.bases and id(c) not in seen:
                        seen.add(id(c))
                        out.append(c)
                        todo.append(c.name)
        return out

    def all_funcs(self) -> Iterator[Func]:
        return iter(self.funcs.values())

    def owner(self, node) -> Optional[Func]:
        return self.owner_func.get(id(node))

    def mod_of(self, node) -> Optional[Module]:
        m = self.node_mod.get(id(node))
        if m is not None:
            return m
        # module-level node: climb to the Module
        cur = node
        while id(cur) in self.parent:
            cur = self.parent[id(cur)]
        if self._tree_mod is None or len(self._tree_mod) != len(self.modules):
            self._tree_mod = {id(mm.tree): mm for mm in self.modules.values()}
        return self._tree_mod.get(id(cur))

    def stmt_of(self, node) -> ast.stmt:
        cur = node
        while not isinstance(cur, ast.stmt):
            cur = self.parent[id(cur)]
        return cur

    def where(self, node, f: Optional[Func] = None) -> str:
        f = f or self.owner(node)
        m = self.mod_of(node)
        path = m.path if m else (f.path if f else '?')
        fn = f.qual if f else '<module>'
        return f'{path}:{int(getattr(node, "lineno", 0) or 0)} {fn}'


_FLIP = {ast.Gt: ast.Lt, ast.GtE: ast.LtE}
_NEG = {ast.In: ast.NotIn, ast.NotIn: ast.In, ast.Is: ast.IsNot,
        ast.IsNot: ast.Is, ast.Eq: ast.NotEq, ast.NotEq: ast.Eq}


class _Canon(ast.NodeTransformer):
    """Canonical spelling of equivalent boolean forms, so that textual
    comparison of normalised nodes does not depend on which one the source
    uses: `b > a` -> `a < b`, `b >= a` -> `a <= b`; `not x in s` -> `x not in
    s`, `not x is y` -> `x is not y`, `not a == b` -> `a != b`; `not not a`
    -> `a`; `not (a or b)` -> `not a and not b`, `not (a and b)` -> `not a or
    not b`."""

    def visit_Compare(self, node):
        self.generic_visit(node)
        if len(node.ops) == 1 and type(node.ops[0]) in _FLIP:
            return ast.Compare(left=node.comparators[0],
                               ops=[_FLIP[type(node.ops[0])]()],
                               comparators=[node.left])
        return node

    def visit_UnaryOp(self, node):
        if not isinstance(node.op, ast.Not):
            return self.generic_visit(node)
        x = node.operand
        if isinstance(x, ast.UnaryOp) and isinstance(x.op, ast.Not):
            return self.visit(x.operand)
        if isinstance(x, ast.Compare) and len(x.ops) == 1 and type(
                x.ops[0]) in _NEG:
            return self.visit(ast.Compare(
                left=x.left, ops=[_NEG[type(x.ops[0])]()],
                comparators=x.comparators))
        if isinstance(x, ast.BoolOp):
            op = ast.And() if isinstance(x.op, ast.Or) else ast.Or()
            return self.visit(ast.BoolOp(op=op, values=[
                ast.UnaryOp(op=ast.Not(), operand=v) for v in x.values]))
        return self.generic_visit(node)


_NORM_CACHE: Dict[int, Tuple[ast.AST, str]] = {}


def norm(node) -> str:
    """Normalised text of a node: position independent, and canonical for
    the equivalent boolean spellings listed in _Canon."""
    hit = _NORM_CACHE.get(id(node))
    if hit is not None and hit[0] is node:
        return hit[1]
    try:
        s = ast.unparse(node)
        if ' > ' in s or ' >= ' in s or 'not ' in s:
            import copy
            s = ast.unparse(_Canon().visit(copy.deepcopy(node)))
    except Exception:
        s = ast.dump(node)
    if isinstance(node, ast.AST):
        _NORM_CACHE[id(node)] = (node, s)
    return s


def canon(text: str) -> str:
    """Canonical spelling of an expression / statement given as text (for
    literals in rules that are compared with norm())."""
    return norm(ast.parse(text).body[0] if '\n' in text or '=' in text.replace(
        '==', '').replace('!=', '').replace('<=', '').replace('>=', '')
        else ast.parse(text, mode='eval').body)

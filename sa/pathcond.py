"""A1: path conditions that dominate an AST node inside its function.

facts(idx, node) -> list of normal-form facts (see pat.nf) that hold whenever
control reaches `node`:
  * tests of enclosing if/elif/else, while, ternaries, and/or short-circuit
    position, comprehension filters;
  * early exits: an earlier `if c: return/raise/continue/break` in any
    enclosing block gives `not c`; `assert c` gives c;
  * a `for` loop over a local bound once to a filtered comprehension (or over
    the comprehension itself) inherits the filters for its body;
  * one-line predicate helpers (`def ok(self, x): return a and b`) are expanded
    (depth <= 2) by the caller of expand_helpers().
A fact is dropped when a local name it mentions is re-assigned between the
test and the node (straight-line position check).
"""
from __future__ import annotations

import ast
import copy
from typing import List, Optional

from .index import Index
from .pat import nf, flatten

_TERMINATORS = (ast.Return, ast.Raise, ast.Continue, ast.Break)


def terminates(stmts) -> bool:
    """Every path through the block leaves the enclosing block."""
    if not stmts:
        return False
    last = stmts[-1]
    if isinstance(last, _TERMINATORS):
        return True
    if isinstance(last, ast.If):
        return terminates(last.body) and terminates(last.orelse)
    if isinstance(last, ast.With):
        return terminates(last.body)
    if isinstance(last, ast.Try):
        if last.finalbody and terminates(last.finalbody):
            return True
        return (terminates(last.body + last.orelse)
                and all(terminates(h.body) for h in last.handlers))
    return False


# ---------------------------------------------------------------------------
# Fall-through conditions.  ft(block) is a boolean expression (over the
# program's own expressions) that holds when control runs off the end of the
# block, i.e. when no return / raise / break / continue inside it fired.
# TRUE / FALSE are the constants; None = not expressible (try blocks with
# exits, while loops with exits, ...), in which case no fact is produced.
TRUE, FALSE = 'TRUE', 'FALSE'


def _b_not(a):
    if a is None:
        return None
    if a is TRUE:
        return FALSE
    if a is FALSE:
        return TRUE
    if isinstance(a, ast.UnaryOp) and isinstance(a.op, ast.Not):
        return a.operand
    return ast.UnaryOp(op=ast.Not(), operand=a)


def _b_and(a, b):
    if a is FALSE or b is FALSE:
        return FALSE
    if a is None or b is None:
        return None
    if a is TRUE:
        return b
    if b is TRUE:
        return a
    return ast.BoolOp(op=ast.And(), values=[a, b])


def _b_or(a, b):
    if a is TRUE or b is TRUE:
        return TRUE
    if a is None or b is None:
        return None
    if a is FALSE:
        return b
    if b is FALSE:
        return a
    return ast.BoolOp(op=ast.Or(), values=[a, b])


def _has_exit(node, kinds=_TERMINATORS):
    for n in ast.walk(node):
        if isinstance(n, kinds):
            return True
    return False


def _loop_any(target, it, cond):
    if cond is FALSE:
        return FALSE
    if cond is None or cond is TRUE:
        # exits on the first iteration iff the iterable is non-empty
        return None
    gen = ast.GeneratorExp(elt=cond, generators=[ast.comprehension(
        target=copy.deepcopy(target), iter=it, ifs=[], is_async=0)])
    return ast.Call(func=ast.Name(id='any', ctx=ast.Load()), args=[gen],
                    keywords=[])


def ft_stmt(s, loop_level=True):
    """Condition under which control falls through statement s.
    loop_level: break/continue count as exits (they leave the block)."""
    if isinstance(s, (ast.Return, ast.Raise)):
        return FALSE
    if isinstance(s, (ast.Break, ast.Continue)):
        return FALSE if loop_level else TRUE
    if isinstance(s, ast.If):
        fb = ft_block(s.body, loop_level)
        fo = ft_block(s.orelse, loop_level)
        if fb is TRUE and fo is TRUE:
            return TRUE
        if fb is FALSE and fo is FALSE:
            return FALSE
        return _b_or(_b_and(s.test, fb), _b_and(_b_not(s.test), fo))
    if isinstance(s, (ast.With, ast.AsyncWith)):
        return ft_block(s.body, loop_level)
    if isinstance(s, (ast.For, ast.AsyncFor)):
        if not _has_exit(s, (ast.Return, ast.Raise)):
            return TRUE
        if s.orelse or _has_exit(s, (ast.Break,)):
            return None
        # leaves the function in some iteration <=> not falls-through
        leave = _b_not(ft_block(s.body, loop_level=False))
        if any(isinstance(n, ast.Continue) for n in ast.walk(s)):
            return None
        return _b_not(_loop_any(s.target, s.iter, leave))
    if isinstance(s, (ast.While, ast.Try, ast.Match)) or (
            hasattr(ast, 'TryStar') and isinstance(s, ast.TryStar)):
        return TRUE if not _has_exit(s) else None
    return TRUE


def ft_block(stmts, loop_level=True):
    c = TRUE
    for s in stmts:
        c = _b_and(c, ft_stmt(s, loop_level))
        if c is FALSE:
            break
    return c


def _blocks_of(stmt):
    for name in ('body', 'orelse', 'finalbody'):
        b = getattr(stmt, name, None)
        if isinstance(b, list) and b and isinstance(b[0], ast.stmt):
            yield name, b
    if isinstance(stmt, ast.Try):
        for h in stmt.handlers:
            yield 'handler', h.body
    if isinstance(stmt, ast.Match):
        for c in stmt.cases:
            yield 'case', c.body


def _names(node):
    return {n.id for n in ast.walk(node) if isinstance(n, ast.Name)}


def _free_names(node):
    """Names read by an expression, without those its own comprehensions
    bind (a synthetic `any(c for x in S)` does not depend on an outer x)."""
    bound = set()
    for n in ast.walk(node):
        if isinstance(n, ast.comprehension):
            bound |= {t.id for t in ast.walk(n.target)
                      if isinstance(t, ast.Name)}
    return _names(node) - bound


def _stores_between(fnode, lo, hi, skip_stmt=None, idx=None, node=None):
    """Local names assigned on lines lo < line < hi (approximation).

    A store in the *other* arm of an if/else that contains `node` cannot
    reach it and is ignored."""
    out = set()
    node_chain = {}
    if idx is not None and node is not None:
        cur = node
        while id(cur) in idx.parent:
            par = idx.parent[id(cur)]
            if isinstance(par, ast.If):
                node_chain[id(par)] = 'body' if any(
                    cur is s for s in par.body) else (
                    'orelse' if any(cur is s for s in par.orelse) else 'test')
            cur = par
    for n in ast.walk(fnode):
        ln = getattr(n, 'lineno', None)
        if ln is None or not (lo < ln < hi):
            continue
        if isinstance(n, ast.Name) and isinstance(n.ctx, (ast.Store, ast.Del)):
            if node_chain:
                other = False
                cur = n
                while id(cur) in idx.parent:
                    par = idx.parent[id(cur)]
                    if id(par) in node_chain and isinstance(par, ast.If):
                        arm = 'body' if any(cur is s for s in par.body) else (
                            'orelse' if any(cur is s for s in par.orelse)
                            else 'test')
                        if arm != node_chain[id(par)] and 'test' not in (
                                arm, node_chain[id(par)]):
                            other = True
                        break
                    cur = par
                if other:
                    continue
            out.add(n.id)
    return out


def _subst(node, mapping):
    """Copy of node with Names replaced per mapping {name: ast node}."""
    class T(ast.NodeTransformer):
        def visit_Name(self, n):
            if n.id in mapping:
                return copy.deepcopy(mapping[n.id])
            return n
    return T().visit(copy.deepcopy(node))


def _comp_filters(comp_node, loop_target):
    """Filters of `[x for x in S if c]` renamed to the loop target."""
    if not isinstance(comp_node, (ast.ListComp, ast.SetComp,
                                  ast.GeneratorExp)):
        return []
    if not (isinstance(comp_node.elt, ast.Name)
            and isinstance(loop_target, ast.Name)):
        return []
    bound = set()
    for g in comp_node.generators:
        for n in ast.walk(g.target):
            if isinstance(n, ast.Name):
                bound.add(n.id)
    if comp_node.elt.id not in bound:
        return []
    # other comprehension-bound names keep their names (they are local to
    # the comprehension); only the element is renamed to the loop variable
    mapping = {comp_node.elt.id: ast.Name(loop_target.id, ast.Load())}
    out = []
    for g in comp_node.generators:
        out.extend(_subst(c, mapping) for c in g.ifs)
    return out


def _single_assignment(fnode, name):
    """The value assigned to local `name` if it is assigned exactly once."""
    vals = []
    for n in ast.walk(fnode):
        if isinstance(n, ast.Assign):
            for t in n.targets:
                for s in ast.walk(t):
                    if isinstance(s, ast.Name) and s.id == name:
                        vals.append(n.value if t is s else None)
        elif isinstance(n, (ast.AugAssign, ast.AnnAssign)):
            if isinstance(n.target, ast.Name) and n.target.id == name:
                vals.append(n.value if isinstance(n, ast.AnnAssign) else None)
        elif isinstance(n, (ast.For, ast.comprehension)):
            for s in ast.walk(n.target):
                if isinstance(s, ast.Name) and s.id == name:
                    vals.append(None)
        elif isinstance(n, ast.NamedExpr) and n.target.id == name:
            vals.append(None)
        elif isinstance(n, ast.withitem) and n.optional_vars is not None:
            for s in ast.walk(n.optional_vars):
                if isinstance(s, ast.Name) and s.id == name:
                    vals.append(None)
    if len(vals) == 1 and vals[0] is not None:
        return vals[0]
    return None


def raw_conditions(idx: Index, node, stop=None, early_composite=True):
    """[(test_node, polarity, test_line)] dominating node in its function."""
    out = []
    f = idx.owner(node)
    fnode = f.node if f is not None else None
    cur = node
    while True:
        par = idx.parent.get(id(cur))
        if par is None or cur is fnode or cur is stop:
            break
        if isinstance(par, (ast.FunctionDef, ast.AsyncFunctionDef,
                            ast.Lambda)) and par is not fnode:
            # nested function / lambda: conditions of the definition site do
            # not dominate the call of the body
            if isinstance(par, ast.Lambda):
                break
        # --- expression-level dominance
        if isinstance(par, ast.IfExp):
            if cur is par.body:
                out.append((par.test, True, par.test.lineno))
            elif cur is par.orelse:
                out.append((par.test, False, par.test.lineno))
        elif isinstance(par, ast.BoolOp):
            i = next(k for k, v in enumerate(par.values) if v is cur)
            for v in par.values[:i]:
                out.append((v, isinstance(par.op, ast.And), v.lineno))
        elif isinstance(par, (ast.ListComp, ast.SetComp, ast.GeneratorExp,
                              ast.DictComp)):
            elts = [getattr(par, 'elt', None), getattr(par, 'key', None),
                    getattr(par, 'value', None)]
            if any(cur is e for e in elts if e is not None):
                for g in par.generators:
                    for c in g.ifs:
                        out.append((c, True, c.lineno))
        elif isinstance(par, ast.comprehension):
            if any(cur is c for c in par.ifs):
                i = next(k for k, v in enumerate(par.ifs) if v is cur)
                for c in par.ifs[:i]:
                    out.append((c, True, c.lineno))
            comp = idx.parent.get(id(par))
            gi = comp.generators.index(par)
            if cur is not par.iter or gi > 0:
                for g in comp.generators[:gi]:
                    for c in g.ifs:
                        out.append((c, True, c.lineno))
        # --- statement-level dominance
        elif isinstance(par, ast.If):
            if any(cur is s for s in par.body):
                out.append((par.test, True, par.test.lineno))
            elif any(cur is s for s in par.orelse):
                out.append((par.test, False, par.test.lineno))
        elif isinstance(par, ast.While):
            if any(cur is s for s in par.body):
                out.append((par.test, True, par.test.lineno))
        elif isinstance(par, (ast.For, ast.AsyncFor)):
            if any(cur is s for s in par.body):
                it = par.iter
                filters = _comp_filters(it, par.target)
                if not filters and isinstance(it, ast.Name) and fnode:
                    val = _single_assignment(fnode, it.id)
                    if val is not None:
                        filters = _comp_filters(val, par.target)
                for c in filters:
                    out.append((c, True, par.lineno))
        # early exits in the enclosing block
        if isinstance(cur, ast.stmt) and not isinstance(
                par, (ast.expr,)):
            for _name, block in _blocks_of(par) if not isinstance(
                    par, ast.Module) else [('body', par.body)]:
                if any(cur is s for s in block):
                    k = next(i for i, s in enumerate(block) if s is cur)
                    for s in block[:k]:
                        if isinstance(s, ast.If):
                            tb, te = terminates(s.body), terminates(s.orelse)
                            if tb and not te:
                                out.append((s.test, False, s.test.lineno))
                            elif te and not tb and s.orelse:
                                out.append((s.test, True, s.test.lineno))
                            elif not early_composite:
                                pass
                            elif _has_exit(s):
                                # nested / partial exits: the fall-through
                                # condition as one composite fact
                                ft = ft_stmt(s)
                                if ft not in (None, TRUE, FALSE):
                                    out.append((ft, True, s.lineno))
                        elif isinstance(s, ast.Assert):
                            out.append((s.test, True, s.test.lineno))
                        elif early_composite and isinstance(
                                s, (ast.For, ast.AsyncFor, ast.With,
                                    ast.AsyncWith)) and _has_exit(
                                    s, (ast.Return, ast.Raise)):
                            ft = ft_stmt(s)
                            if ft not in (None, TRUE, FALSE):
                                out.append((ft, True, s.lineno))
                    break
        if isinstance(par, ast.ExceptHandler):
            pass
        cur = par
    return out, fnode


def facts(idx: Index, node, stop=None, at_entry=False) -> list:
    """at_entry=True: the conditions under which control *entered* the
    branches enclosing node (re-assignments after the test are ignored)."""
    conds, fnode = raw_conditions(idx, node, stop)
    res = []
    nline = getattr(node, 'lineno', None)
    for test, pol, line in conds:
        if fnode is not None and nline is not None and not at_entry:
            lo = max(getattr(test, 'end_lineno', line) or line, line)
            killed = _stores_between(fnode, lo, nline, idx=idx, node=node)
            # names assigned on the node's own line do not invalidate
            if killed & _free_names(test):
                # keep conjuncts that do not mention re-assigned names
                parts = flatten([nf(test, pol)])
                for p in parts:
                    if p[0] == 'atom' and not (killed & _free_names(p[1])):
                        res.append(p)
                continue
        res.append(nf(test, pol))
    return flatten(res)


# ----------------------------------------------------------------------
def _phi_fact(idx: Index, name_node, pol):
    """A boolean local tested by name: `if past_limit:` where every binding
    of it in the function is a plain `past_limit = <expr>` statement.  The
    fact is the disjunction over the bindings d of (conditions under which d
    ran) and (<expr_d> with the tested polarity); one binding gives a plain
    conjunction.  Bindings whose operands are re-assigned before the test
    are not expanded (no fact)."""
    f = idx.owner(name_node)
    if f is None:
        return None
    v = name_node.id
    if v in {a.arg for a in ast.walk(f.node.args) if isinstance(a, ast.arg)}:
        return None
    defs = []
    for n in idx.walk(f.node):
        if isinstance(n, ast.Name) and n.id == v and isinstance(
                n.ctx, (ast.Store, ast.Del)):
            par = idx.parent.get(id(n))
            if isinstance(par, ast.Assign) and len(par.targets) == 1 and \
                    par.targets[0] is n:
                defs.append(par)
            elif isinstance(par, ast.AnnAssign) and par.target is n and \
                    par.value is not None:
                defs.append(par)
            else:
                return None
    use_line = getattr(name_node, 'lineno', None)
    defs = [d for d in defs if use_line is None or d.lineno < use_line]
    if not defs or len(defs) > 4:
        return None
    alts = []
    for d in defs:
        e = d.value
        if any(isinstance(x, (ast.Await, ast.Yield, ast.NamedExpr, ast.Lambda))
               for x in ast.walk(e)):
            return None
        if use_line is not None and _stores_between(
                f.node, getattr(d, 'end_lineno', d.lineno) or d.lineno,
                use_line) & (_free_names(e) - {v}):
            return None
        conds, _fn = raw_conditions(idx, d)
        parts = [nf(t, p) for t, p, _l in conds] + [nf(e, pol)]
        alts.append(('and', flatten(parts)))
    if len(alts) == 1:
        return alts[0]
    return ('or', alts)


def expand_helpers(idx: Index, fact_list, resolve_helper, depth=2):
    """Expand positive facts that are calls of one-line predicate helpers.

    resolve_helper(call_node) -> Func or None.  A helper is a function whose
    body (after the docstring) is a single `return <expr>`; parameters are
    substituted by the call's arguments.
    """
    out = list(fact_list)
    if depth <= 0:
        return out
    for f in fact_list:
        if f[0] == 'atom' and isinstance(f[1], ast.Name) and isinstance(
                f[1].ctx, ast.Load):
            phi = _phi_fact(idx, f[1], f[2])
            if phi is not None:
                out.append(phi)
                if phi[0] == 'and':
                    out.extend(expand_helpers(
                        idx, flatten([phi]), resolve_helper, depth - 1))
            continue
        if f[0] != 'atom' or not isinstance(f[1], ast.Call):
            continue
        # `any(C for x in S [if D])` holds  =>  for some x of S, C (and D):
        # the same existential fact an early exit inside `for x in S:
        # if C:` provides, so both spellings discharge the same guards
        call = f[1]
        if f[2] and isinstance(call.func, ast.Name) and call.func.id == 'any' \
                and len(call.args) == 1 and not call.keywords and isinstance(
                    call.args[0], (ast.GeneratorExp, ast.ListComp)):
            g = call.args[0]
            conds = [i for gen in g.generators for i in gen.ifs]
            bound = {ast.unparse(gen.target) for gen in g.generators}
            if ast.unparse(g.elt) not in bound:
                conds.append(g.elt)
            for cnd in conds:
                out.extend(expand_helpers(
                    idx, flatten([nf(cnd, True)]), resolve_helper, depth - 1))
            continue
        hf = resolve_helper(f[1])
        if hf is None:
            continue
        body = [s for s in hf.node.body if not (
            isinstance(s, ast.Expr) and isinstance(s.value, ast.Constant))]
        ret = None
        if len(body) == 1 and isinstance(body[0], ast.Return):
            ret = body[0].value
        if ret is None:
            continue
        params = [a.arg for a in hf.node.args.args]
        mapping = {}
        call = f[1]
        args = list(call.args)
        if params and params[0] in ('self', 'cls') and isinstance(
                call.func, ast.Attribute):
            mapping[params[0]] = call.func.value
            params = params[1:]
        for p, a in zip(params, args):
            mapping[p] = a
        for k in call.keywords:
            if k.arg:
                mapping[k.arg] = k.value
        sub = _subst(ret, mapping)
        sub_facts = flatten([nf(sub, f[2])])
        out.extend(expand_helpers(idx, sub_facts, resolve_helper, depth - 1))
    return out

"""A4: stores to / mutations of an attribute, package wide."""
from __future__ import annotations

import ast
from typing import List, NamedTuple

MUTATORS = {
    'add', 'update', 'discard', 'remove', 'clear', 'pop', 'popitem',
    'append', 'appendleft', 'extend', 'extendleft', 'insert', 'setdefault',
    'difference_update', 'intersection_update',
    'symmetric_difference_update', 'sort', 'reverse', 'popleft',
    '__setitem__', '__delitem__',
}


class Store(NamedTuple):
    node: ast.AST        # the statement / call performing the store
    kind: str            # assign | aug | del | call:<m> | for | with
    depth: int           # subscripts between the attribute and the store
    target: ast.AST      # the Attribute node
    value: object        # assigned value node, if any


def _base_attr(t, attr):
    """If t is X.attr[...][...] return (Attribute, depth) else None."""
    depth = 0
    while isinstance(t, ast.Subscript):
        t = t.value
        depth += 1
    if isinstance(t, ast.Attribute) and t.attr == attr:
        return t, depth
    return None


def _targets(t):
    if isinstance(t, (ast.Tuple, ast.List)):
        for e in t.elts:
            yield from _targets(e)
    elif isinstance(t, ast.Starred):
        yield from _targets(t.value)
    else:
        yield t


def stores(tree, attr: str) -> List[Store]:
    out = []
    for n in (tree if isinstance(tree, list) else ast.walk(tree)):
        if isinstance(n, ast.Assign):
            for tt in n.targets:
                for t in _targets(tt):
                    b = _base_attr(t, attr)
                    if b:
                        out.append(Store(n, 'assign', b[1], b[0], n.value))
        elif isinstance(n, ast.AnnAssign):
            b = _base_attr(n.target, attr)
            if b and n.value is not None:
                out.append(Store(n, 'assign', b[1], b[0], n.value))
        elif isinstance(n, ast.AugAssign):
            b = _base_attr(n.target, attr)
            if b:
                out.append(Store(n, 'aug', b[1], b[0], n.value))
        elif isinstance(n, ast.Delete):
            for tt in n.targets:
                for t in _targets(tt):
                    b = _base_attr(t, attr)
                    if b:
                        out.append(Store(n, 'del', b[1], b[0], None))
        elif isinstance(n, (ast.For, ast.AsyncFor)):
            for t in _targets(n.target):
                b = _base_attr(t, attr)
                if b:
                    out.append(Store(n, 'for', b[1], b[0], None))
        elif isinstance(n, ast.withitem) and n.optional_vars is not None:
            for t in _targets(n.optional_vars):
                b = _base_attr(t, attr)
                if b:
                    out.append(Store(n, 'with', b[1], b[0], None))
        elif isinstance(n, ast.Call) and isinstance(n.func, ast.Attribute):
            if n.func.attr in MUTATORS:
                b = _base_attr(n.func.value, attr)
                if b:
                    out.append(Store(n, 'call:' + n.func.attr, b[1], b[0],
                                     None))
            elif n.func.attr == 'get' or n.func.attr == 'setdefault':
                pass
        # X.attr.get(k, ...).add(...) / X.attr[k].add: covered by _base_attr
        # for the subscript form only.
    return out


def setattr_sites(tree, attr: str):
    out = []
    for n in ast.walk(tree):
        if isinstance(n, ast.Call) and isinstance(n.func, ast.Name) and (
                n.func.id in ('setattr', 'delattr')) and len(n.args) >= 2:
            a = n.args[1]
            if isinstance(a, ast.Constant) and a.value == attr:
                out.append(n)
            elif not isinstance(a, ast.Constant):
                out.append(n)
    return out

"""C32 Clock expiry only expires eligible tasks."""
import ast

from sa.core import AnalysisError, norm
from sa.pat import AnyOf, StatusIn

TECHNIQUE = ('static analysis: guard atoms of the expiry sender and of the '
             'expiry-time predicate (operator exact), allow-list of senders '
             'of the expired message, flag clearing on expiry, readiness '
             'conjunct that keeps expired tasks from submitting, child '
             'spawning on the expired output')

CLAUSES = (
    'Decided: the clock-expire sweep sends the expired message only for tasks '
    'that are not manually triggered, are waiting, and whose clock_expire() '
    'is true, after taking them out of the queue; clock_expire() is true only '
    'when an expire time is configured, the task is not already expired and '
    'the time has been reached (not time() < expire_time); the expire time is '
    'the cycle point plus the configured offset; setting the expired status '
    'clears the queued and runahead flags; readiness requires status waiting '
    'so an expired task never submits; the expired message spawns the '
    'children of the expired output and only the listed senders emit it. Not '
    'decided: wall-clock timing.')

TP = 'task_pool'
TEM = 'task_events_mgr'


def check(c):
    from rules._shared import special_tasks_family_rules
    special_tasks_family_rules(c, 'C32.family-members')
    ce = c.func(TP, 'TaskPool.clock_expire_tasks')
    pm = [n for n in c.calls(ce, 'process_message')]
    c.exactly('C32.sender', 'expired message in clock_expire_tasks',
              len(pm), 1)
    for n in pm:
        c.ob('C32.sender', c.key(n, ce)[:100] + ' message = expired',
             any(c.fold(a) == 'expired' for a in n.args if isinstance(
                 a, (ast.Name, ast.Attribute, ast.Constant))), c.where(n, ce),
             '')
        c.guard('C32.sender', n, ['!itask.is_manual_submit',
                                  StatusIn('waiting'),
                                  'itask.clock_expire()'], ce)
        c.pre('C32.sender', ce, n, c.matches(
            'self.task_queue_mgr.remove_task(itask)'), 'dequeue')
        lp = c.idx.stmt_of(n)
        while lp is not None and not isinstance(lp, ast.For):
            lp = c.idx.parent.get(id(lp))
        c.ob('C32.sender', c.key(n, ce)[:100] + ' sweeps the whole pool',
             isinstance(lp, ast.For) and norm(lp.iter) == 'self.get_tasks()',
             c.where(n, ce), '')
    # the manual-trigger exemption works only if the flag is set on *every*
    # path of a manual trigger -- also when the task ends up queued behind a
    # full queue instead of running at once
    qt = c.func(TP, 'TaskPool.queue_or_trigger')
    c.always('C32.manual-exempt', qt, c.assigns(
        'itask.is_manual_submit', 'True'),
        'is_manual_submit = True on every path of queue_or_trigger')
    # all senders of "expired"
    senders = [n for n in c.calls(None, 'process_message') if any(
        isinstance(a, (ast.Name, ast.Attribute, ast.Constant)) and c.fold(
            a) == 'expired' for a in n.args)]
    allow = {f'{TP}:TaskPool.clock_expire_tasks',
             f'{TP}:TaskPool.spawn_on_output'}
    for n in senders:
        f = c.owner(n)
        c.ob('C32.sender', c.key(n, f)[:110] + ' [sender]',
             f is not None and f.fq in allow, c.where(n, f), '')
    c.floor('C32.sender', 'expired senders', len(senders), 2)
    ml = c.func('scheduler', 'Scheduler._main_loop')
    c.floor('C32.sender', 'clock_expire_tasks() in the main loop', len(
        c.find(ml, 'self.pool.clock_expire_tasks()')), 1)

    # ---- predicate
    cx = c.func('task_proxy', 'TaskProxy.clock_expire')
    trues = [r for r in c.idx.walk(cx.node) if isinstance(r, ast.Return)
             and norm(r.value) == 'True']
    c.exactly('C32.predicate', 'return True in clock_expire', len(trues), 1)
    for r in trues:
        c.guard('C32.predicate', r, [
            '!(self.expire_time is None)', '!self.state(TASK_STATUS_EXPIRED)'
            if False else AnyOf("!self.state('expired')"),
            'self.expire_time <= time()'], cx)
    other = [r for r in c.idx.walk(cx.node) if isinstance(r, ast.Return)
             and norm(r.value) not in ('True', 'False')]
    c.ob('C32.predicate', f'{cx.fq} :: returns only literals', not other,
         c.where(cx.node, cx), '')
    init = c.func('task_proxy', 'TaskProxy.__init__')
    et = [s for s in c.stores(init, 'expire_time')]
    vals = [norm(s.value) for s in et]
    ok = 'None' in vals and any(
        'self.get_point_as_seconds()' in v and
        'self.get_offset_as_seconds(self.tdef.expiration_offset)' in v
        and '+' in v for v in vals)
    c.ob('C32.predicate', f'{init.fq} :: expire_time = point + offset', ok,
         c.where(init.node, init), str(vals))
    for s in et:
        if norm(s.value) != 'None':
            c.guard('C32.predicate', s.node,
                    ['self.tdef.expiration_offset is not None'], init)
    c.who_writes('C32.predicate', 'expire_time', {
        ('task_proxy:TaskProxy.__init__', 'assign')}, floor=2,
        keep=lambda s, f: (f is not None and f.mod == 'task_proxy') or (
            'task' in norm(s.target.value)))

    # ---- expired never submits
    sr = c.func('task_proxy', 'TaskProxy.state_reset')
    clr = {norm(n.targets[0]) for n in c.idx.walk(sr.node)
           if isinstance(n, ast.Assign) and norm(n.value) == 'False'
           and c.holds(n, "status == 'expired'")}
    c.ob('C32.no-submit', f'{sr.fq} :: expired clears is_queued and '
         'is_runahead', clr >= {'is_queued', 'is_runahead'},
         c.where(sr.node, sr), str(sorted(clr)))
    rr = c.func('task_proxy', 'TaskProxy.is_ready_to_run')
    from sa.pat import status_check
    ok = False
    for r in c.idx.walk(rr.node):
        if isinstance(r, ast.Return) and isinstance(r.value, ast.BoolOp):
            for v in r.value.values:
                sc = status_check(v, True, c.env(v))
                if sc and sc[2] and sc[1] == {'waiting'}:
                    ok = True
    c.ob('C32.no-submit', f'{rr.fq} :: readiness requires status waiting',
         ok, c.where(rr.node, rr), '')
    pme = c.func(TEM, 'TaskEventsManager._process_message_expired')
    c.floor('C32.no-submit', 'expired handler sets the status', len(
        c.find(pme, 'itask.state_reset(TASK_STATUS_EXPIRED, forced=forced)')),
        1)
    # ---- children
    pmf = c.func(TEM, 'TaskEventsManager.process_message')
    sp = c.find(pmf, 'self.spawn_children(itask, TASK_OUTPUT_EXPIRED, forced)')
    c.exactly('C32.children', 'spawn children of :expired', len(sp), 1)
    for n in sp:
        c.guard('C32.children', n, ['message == self.EVENT_EXPIRED'], pmf)
        c.pre('C32.children', pmf, n, c.matches(
            'self._process_message_expired(itask, event_time, forced)'),
            'status set to expired')
    ev = c.K.class_attr('TaskEventsManager', 'EVENT_EXPIRED')
    c.ob('C32.children', f'{TEM}:TaskEventsManager.EVENT_EXPIRED == '
         '"expired"', ev == 'expired', '', repr(ev))


VARIANTS = [
    ('special-family-first-parent-members', 'cylc/flow/config.py',
     "                    for member in self.runtime['descendants'][name]:",
     "                    for member in self.get_first_parent_descendants().get(name, ()):",
     'C32.family-members'),
    ('expire-manual', 'cylc/flow/task_pool.py',
     '''                not itask.is_manual_submit

                # only waiting''', '''                itask.is_manual_submit is not None

                # only waiting''', 'C32.sender'),
    ('expire-active', 'cylc/flow/task_pool.py',
     '''                and itask.state(TASK_STATUS_WAITING)

                # check if this task is clock expired''',
     '''                and itask.state(TASK_STATUS_WAITING, TASK_STATUS_PREPARING)

                # check if this task is clock expired''', 'C32.sender'),
    ('expire-early', 'cylc/flow/task_proxy.py',
     '            or time() < self.expire_time  # not time yet',
     '            or time() > self.expire_time  # not time yet',
     'C32.predicate'),
    ('expire-again', 'cylc/flow/task_proxy.py',
     '            or self.state(TASK_STATUS_EXPIRED)  # already expired\n',
     '', 'C32.predicate'),
    ('expired-stays-queued', 'cylc/flow/task_proxy.py',
     '''        if status == TASK_STATUS_EXPIRED:
            is_queued = False
            is_runahead = False''',
     '''        if status == TASK_STATUS_EXPIRED:
            is_runahead = False''', 'C32.no-submit'),
    ('no-expire-children', 'cylc/flow/task_events_mgr.py',
     '            self.spawn_children(itask, TASK_OUTPUT_EXPIRED, forced)\n',
     '', 'C32.children'),
    ('expire-time-no-offset', 'cylc/flow/task_proxy.py',
     '''            self.expire_time = (
                self.get_point_as_seconds() +
                self.get_offset_as_seconds(
                    self.tdef.expiration_offset
                )
            )''', '''            self.expire_time = (
                self.get_point_as_seconds()
            )''', 'C32.predicate'),
    ('manual-flag-only-when-run-now', 'cylc/flow/task_pool.py',
     '''        itask.is_manual_submit = True
        itask.reset_try_timers()''', '''        itask.reset_try_timers()''',
     'C32.manual-exempt'),
]

"""C13 Prerequisite satisfaction equals the trigger expression's truth."""
import ast

from sa.core import AnalysisError, norm
from sa.pat import AnyOf
from sa import taint

TECHNIQUE = ('static analysis: cache-transparency pairing (every store to the '
             'satisfaction map is followed by a cache reset/recompute), '
             'regex-fragment provenance (re.escape taint) and word-boundary '
             'anchors of the expression rewrite, who-may-write allow-list for '
             'the evaluated expression, guard atoms of satisfy/unsatisfy')

CLAUSES = (
    'Decided: the satisfaction map is stored directly only by __init__, '
    '__setitem__ and set_satisfied, and each such store is followed by a '
    'reset or recomputation of the cached result (the cache is kept only when '
    'it is True and the new value is truthy); set_conditional_expr resets the '
    'cache; is_satisfied returns the cache only when set; without an OR '
    'expression satisfaction is all(values); output keys reach the rewrite '
    'regex only through re.escape with word-boundary anchors on both sides; '
    'the evaluated string is written only by set_conditional_expr from the '
    'constant template; satisfy_me sets only known, currently unsatisfied '
    'keys; unset_naturally_satisfied leaves forced satisfaction alone; '
    'pre-initial dependencies are satisfied at construction. '
    'TaskTrigger identity (__hash__/__eq__) covers every field set by __init__. '
    'Not decided: '
    'truth-table equality for generated expressions (runtime strings).')

PR = 'prerequisite'


def check(c):
    # triggers that differ in any field are different triggers: config
    # builds a Dependency from a *set* of TaskTriggers, so two atoms of one
    # expression that compare equal collapse into one (`foo[^+P2] & foo[+P2]`)
    # -- the identity used by __hash__ / __eq__ covers every field set by
    # __init__
    tt = c.idx.cls('TaskTrigger', 'task_trigger')
    ini = tt.methods['__init__']
    fields = {n.attr for n in c.idx.walk(ini.node) if isinstance(
        n, ast.Attribute) and isinstance(n.ctx, ast.Store) and isinstance(
        n.value, ast.Name) and n.value.id == 'self'}
    c.floor('C13.trigger-identity', 'TaskTrigger fields', len(fields), 6)
    for mname in ('__hash__', '__eq__'):
        m = tt.methods.get(mname)
        if m is None:
            c.ob('C13.trigger-identity', f'TaskTrigger.{mname} defined', False,
                 c.where(tt.node), '')
            continue
        used = {n.attr for n in c.idx.walk(m.node) if isinstance(
            n, ast.Attribute) and isinstance(n.value, ast.Name)
            and n.value.id == 'self'}
        via_hash = bool(c.find(m, 'hash(self) == hash(other)'))
        miss = set() if (mname == '__eq__' and via_hash) else fields - used
        c.ob('C13.trigger-identity', f'{m.fq} :: covers every field',
             not miss, c.where(m.node, m), f'not part of the identity: '
             f'{sorted(miss)}' if miss else str(sorted(fields)))
    cls = c.idx.cls('Prerequisite', PR)
    direct = [s for s in c.stores(PR, '_satisfied')]
    allow = {
        (f'{PR}:Prerequisite.__init__', 'assign', 0),
        (f'{PR}:Prerequisite.__setitem__', 'assign', 1),
        (f'{PR}:Prerequisite.set_satisfied', 'assign', 1),
    }
    c.floor('C13.cache', 'direct stores to _satisfied', len(direct), 3)
    for s in direct:
        f = c.owner(s.node)
        fq = f.fq if f else '<module>'
        c.ob('C13.cache', c.key(s.node, f) + ' [writer]',
             (fq, s.kind, s.depth) in allow, c.where(s.node, f),
             f'{s.kind} depth {s.depth} in {fq}')
    for m in c.idx.modules.values():
        if m.name == PR:
            continue
        for s in c.stores(m.name, '_satisfied'):
            f = c.owner(s.node)
            c.ob('C13.cache', c.key(s.node, f), False, c.where(s.node, f),
                 '_satisfied written outside Prerequisite (bypasses the '
                 'cache reset)')
    si = c.func(PR, 'Prerequisite.__setitem__')
    resets = [s for s in c.stores(si, '_cached_satisfied')]
    c.exactly('C13.cache', 'cache reset in __setitem__', len(resets), 1)
    for s in resets:
        c.ob('C13.cache', c.key(s.node, si) + ' = None',
             norm(s.value) == 'None', c.where(s.node, si), '')
        # reset unless (cached is truthy and value truthy)
        c.guard('C13.cache', s.node, [AnyOf(
            '!self._cached_satisfied', '!value')], si)
        c.guard_only('C13.cache', s.node, [
            'self._cached_satisfied', 'value'], si)
    for s in c.stores(si, '_satisfied'):
        for r in resets:
            ok = c.cfg(si).path_exists(s.node, c.idx.parent[id(r.node)])
            c.ob('C13.cache', c.key(s.node, si) + ' then the cache test', ok,
                 c.where(s.node, si), '')
    ss = c.func(PR, 'Prerequisite.set_satisfied')
    for s in c.stores(ss, '_satisfied'):
        c.post('C13.cache', ss, s.node, lambda n: isinstance(
            n, ast.Assign) and norm(n.targets[0]) ==
            'self._cached_satisfied', 'cache recomputed')
    rec = [s for s in c.stores(ss, '_cached_satisfied')]
    for s in rec:
        v = norm(s.value)
        if v == 'True':
            c.guard('C13.cache', s.node, ['!self.conditional_expression'], ss)
        else:
            c.ob('C13.cache', c.key(s.node, ss) + ' recomputed by evaluation',
                 v == 'self._eval_satisfied()', c.where(s.node, ss), v)
    sce = c.func(PR, 'Prerequisite.set_conditional_expr')
    c.always('C13.cache', sce, lambda n: isinstance(n, ast.Assign) and norm(
        n.targets[0]) == 'self._cached_satisfied' and norm(n.value) == 'None',
        'cache reset')
    isf = c.func(PR, 'Prerequisite.is_satisfied')
    for r in c.idx.walk(isf.node):
        if isinstance(r, ast.Return) and norm(r.value) == \
                'self._cached_satisfied':
            prev = c.holds(r, 'self._cached_satisfied is not None')
            st_ = [s for s in c.stores(isf, '_cached_satisfied')
                   if norm(s.value) == 'self._eval_satisfied()']
            ok = prev or any(c.cfg(isf).dominated_by(
                r, lambda x, s=s: x is s.node) for s in st_)
            c.ob('C13.cache', c.key(r, isf) + ' cache valid', ok,
                 c.where(r, isf), '')
    c.who_writes('C13.cache', '_cached_satisfied', {
        (f'{PR}:Prerequisite.__init__', 'assign'),
        (f'{PR}:Prerequisite.__setitem__', 'assign'),
        (f'{PR}:Prerequisite.set_conditional_expr', 'assign'),
        (f'{PR}:Prerequisite.is_satisfied', 'assign'),
        (f'{PR}:Prerequisite.set_satisfied', 'assign')}, floor=5)
    ev = c.func(PR, 'Prerequisite._eval_satisfied')
    rets = [r for r in c.idx.walk(ev.node) if isinstance(r, ast.Return)]
    ok = any(norm(r.value) == 'all(self._satisfied.values())' and c.holds(
        r, '!self.conditional_expression') for r in rets)
    c.ob('C13.and-semantics', f'{ev.fq} :: no expression ⟹ '
         'all(self._satisfied.values())', ok, c.where(ev.node, ev), '')

    # ---- regex
    calls = taint.regex_calls(c, sce)
    c.floor('C13.regex', 're.sub in set_conditional_expr', len(calls), 1)
    for call, p in calls:
        for node, kind in taint.fragments(c, p):
            if kind == 'const':
                continue
            c.ob('C13.regex', f'{sce.fq} :: regex fragment `{norm(node)}`',
                 kind == 'escaped', c.where(call, sce),
                 'escaped' if kind == 'escaped' else 'unescaped output key '
                 'in the rewrite pattern: names with "." or "+" match other '
                 'text')
        # word boundaries
        pats = []
        if isinstance(p, ast.Name):
            for n in c.idx.walk(sce.node):
                if isinstance(n, ast.Assign) and norm(n.targets[0]) == p.id:
                    pats.append(n.value)
        else:
            pats.append(p)
        # a conditional pattern (`a if c else b`): every arm is a pattern
        flat = []
        while pats:
            x = pats.pop()
            if isinstance(x, ast.IfExp):
                pats += [x.body, x.orelse]
            else:
                flat.append(x)
        pats = flat
        c.floor('C13.regex', 'pattern definitions', len(pats), 1)
        for pv in pats:
            ok = False
            if isinstance(pv, ast.JoinedStr) and pv.values:
                first, last = pv.values[0], pv.values[-1]
                ok = (isinstance(first, ast.Constant) and first.value in (
                    '\\b', '-\\b') and isinstance(last, ast.Constant)
                    and last.value == '\\b')
            c.ob('C13.regex', f'{sce.fq} :: pattern {norm(pv)[:60]} anchored '
                 'with \\b on both sides', ok, c.where(pv, sce), '')
        rep = call.args[1] if len(call.args) > 1 else None
        c.ob('C13.regex', c.key(call, sce) + ' replacement from the constant '
             'template', rep is not None and norm(rep) ==
             'self.SATISFIED_TEMPLATE % t_output', c.where(call, sce), '')
    tmpl = c.K.class_attr('Prerequisite', 'SATISFIED_TEMPLATE')
    c.ob('C13.eval-source', 'prerequisite:Prerequisite.SATISFIED_TEMPLATE',
         tmpl == 'bool(self._satisfied[("%s", "%s", "%s")])', '', repr(tmpl))
    c.who_writes('C13.eval-source', 'conditional_expression', {
        (f'{PR}:Prerequisite.__init__', 'assign'),
        (f'{PR}:Prerequisite.set_conditional_expr', 'assign')}, floor=2)
    for s in c.stores(sce, 'conditional_expression'):
        c.ob('C13.eval-source', c.key(s.node, sce) + ' = rewritten expr',
             norm(s.value) == 'expr', c.where(s.node, sce), '')
        c.guard('C13.eval-source', s.node, ["'|' in expr"], sce,
                at_entry=True)
    evs = [n for n in c.calls(ev, 'eval')]
    for n in evs:
        c.ob('C13.eval-source', c.key(n, ev), norm(n.args[0]) ==
             'self.conditional_expression' and len(n.args) == 1,
             c.where(n, ev), '')

    from rules._shared import prereq_dedup_rules
    prereq_dedup_rules(c, 'C13')

    # ---- satisfy / unsatisfy
    sm = c.func(PR, 'Prerequisite.satisfy_me')
    sets = [n for n in c.idx.walk(sm.node) if isinstance(n, ast.Assign)
            and norm(n.targets[0]) == 'self[output_tuple]']
    c.exactly('C13.satisfy', 'self[output_tuple] = ...', len(sets), 1)
    for n in sets:
        c.guard('C13.satisfy', n, [
            'output_tuple in self._satisfied',
            '!self._satisfied[output_tuple]'], sm)
        # every given output that is a known, not yet satisfied atom is
        # recorded -- whatever the (cached) overall result: an OR
        # prerequisite that is already true must still record later outputs
        # (the cache is dropped when an upstream task is removed)
        c.guard_only('C13.satisfy', n, [
            'output_tuple in self._satisfied',
            '!self._satisfied[output_tuple]'], sm,
            what='every known unsatisfied output is recorded;')
        lp = n
        while id(lp) in c.idx.parent and not isinstance(lp, ast.For):
            lp = c.idx.parent[id(lp)]
        c.ob('C13.satisfy', c.key(n, sm) + ' for every given output',
             isinstance(lp, ast.For) and norm(lp.iter) == 'outputs'
             and not any(isinstance(x, (ast.Break, ast.Return))
                         for x in ast.walk(lp)), c.where(n, sm), '')
    ot = [n for n in c.idx.walk(sm.node) if isinstance(n, ast.Assign)
          and norm(n.targets[0]) == 'output_tuple']
    ok = len(ot) == 1 and norm(ot[0].value) == \
        "PrereqTuple(output['cycle'], output['task'], output['task_sel'])"
    c.ob('C13.satisfy', f'{sm.fq} :: key = (cycle, task, output)', ok,
         c.where(sm.node, sm), '')
    un = c.func(PR, 'Prerequisite.unset_naturally_satisfied')
    for n in c.idx.walk(un.node):
        if isinstance(n, ast.Assign) and norm(n.targets[0]) == \
                'self[t_output]':
            c.ob('C13.satisfy', c.key(n, un) + ' = False',
                 norm(n.value) == 'False', c.where(n, un), '')
            c.guard('C13.satisfy', n, [
                't_output.get_id() == id_', 'sat',
                "!(sat == 'force satisfied')"], un)
    # ---- pre-initial
    gp = c.func('task_trigger', 'Dependency.get_prerequisite')
    pre = [s for s in c.idx.walk(gp.node) if isinstance(s, ast.Assign)
           and norm(s.targets[0]) == 'cpre[key]' and norm(s.value) == 'True']
    c.exactly('C13.pre-initial', 'cpre[key] = True', len(pre), 1)
    for s in pre:
        c.guard('C13.pre-initial', s,
                ['prereq_offset_point < tdef.initial_point'], gp)
    c.floor('C13.pre-initial', 'expression set on the prerequisite', len(
        c.find(gp, 'cpre.set_conditional_expr(self.get_expression(point))')),
        1)
    del cls


VARIANTS = [
    ('trigger-identity-ignores-icp-flag', 'cylc/flow/task_trigger.py',
     '''            self.offset_is_irregular,
            self.offset_is_from_icp,
            self.offset_is_absolute,
            self.initial_point,
        ))''', '''            self.offset_is_irregular,
            self.offset_is_absolute,
            self.initial_point,
        ))''', 'C13.trigger-identity'),
    ('satisfied-prereq-ignores-later-outputs', 'cylc/flow/prerequisite.py',
     '''        for output in outputs:
            output_tuple = PrereqTuple(''', '''        if self._cached_satisfied:
            return
        for output in outputs:
            output_tuple = PrereqTuple(''', 'C13.satisfy'),
    ('stale-cache', 'cylc/flow/prerequisite.py',
     '''        if not (self._cached_satisfied and value):
            # Force later recalculation of cached satisfaction state:
            self._cached_satisfied = None''',
     '''        if not self._cached_satisfied:
            # Force later recalculation of cached satisfaction state:
            self._cached_satisfied = None''', 'C13.cache'),
    ('unescaped', 'cylc/flow/prerequisite.py',
     '                    pattern = fr"\\b{re.escape(msg)}\\b"',
     '                    pattern = fr"\\b{msg}\\b"', 'C13.regex'),
    ('no-boundary', 'cylc/flow/prerequisite.py',
     '                    pattern = fr"\\b{re.escape(msg)}\\b"',
     '                    pattern = fr"{re.escape(msg)}\\b"', 'C13.regex'),
    ('set-satisfied-no-cache', 'cylc/flow/prerequisite.py',
     '''        if self.conditional_expression:
            self._cached_satisfied = self._eval_satisfied()
        else:
            self._cached_satisfied = True''',
     '''        if not self.conditional_expression:
            self._cached_satisfied = True''', 'C13.cache'),
    ('any-semantics', 'cylc/flow/prerequisite.py',
     '            return all(self._satisfied.values())',
     '            return any(self._satisfied.values())', 'C13.and-semantics'),
    ('unset-forced', 'cylc/flow/prerequisite.py',
     "            if t_output.get_id() == id_ and sat and sat != 'force satisfied':",
     "            if t_output.get_id() == id_ and sat:", 'C13.satisfy'),
    ('expr-direct', 'cylc/flow/task_trigger.py',
     '        cpre.set_conditional_expr(self.get_expression(point))',
     '        cpre.conditional_expression = self.get_expression(point)',
     'C13.'),
    ('resatisfy', 'cylc/flow/prerequisite.py',
     '''            if not self._satisfied[output_tuple]:
                self[output_tuple] = (''',
     '''            if True:
                self[output_tuple] = (''', 'C13.satisfy'),
]

"""C20 Crash-restart neither loses nor duplicates work — ordering clauses."""
import ast

from sa.core import AnalysisError, norm
from sa.pat import AnyOf

TECHNIQUE = ('static analysis: CFG dominance / post-dominance of DB record '
             'and flush calls relative to the in-memory effect they make '
             'durable (remove, absolute outputs, suicide, forced outputs, job '
             'submission), restart poll-before-loop order')

CLAUSES = (
    'Decided: TaskPool.remove records the final task state and flushes the DB '
    'queue before returning to spawning code; absolute outputs and suicide '
    'removals are flushed in spawn_on_output; forced outputs are recorded and '
    'flushed in _set_outputs_itask; the task_jobs row of every task of a '
    'batch is queued before the jobs-submit command for that batch is put to '
    'the process pool, each task enters at most one submit command '
    '(waiting_on_job_prep is consumed); on restart all tasks are polled '
    'before the main loop starts; respawn decisions consult the DB history; '
    'nothing but the batch\'s own commit ends a DAO transaction (no inner / '
    'implicit / auto commit). '
    'Not decided: behaviour at every kill point (needs fault injection); '
    'atomicity of each flush is C21.')

TP = 'task_pool'


def check(c):
    # a crash in the middle of a batch leaves the previous committed state:
    # nothing but the batch's own commit ends a transaction (rules of C21)
    from rules.C21 import single_transaction_rules
    single_transaction_rules(c, 'C20.atomic-batch', 'C20.atomic-batch',
                             'C20.atomic-batch')
    rm = c.func(TP, 'TaskPool.remove')
    dels = [s for s in c.stores(rm, 'active_tasks')
            if s.kind == 'del' and s.depth == 2]
    c.exactly('C20.remove', 'del active_tasks[point][id]', len(dels), 1)
    for d in dels:
        c.post('C20.remove', rm, d.node, c.matches(
            'self.workflow_db_mgr.put_update_task_state(itask)'),
            'put_update_task_state(itask)')
        c.post('C20.remove', rm, d.node, c.matches(
            'self.workflow_db_mgr.process_queued_ops()'),
            'process_queued_ops()')
    for n in c.find(rm, 'self.workflow_db_mgr.process_queued_ops()'):
        c.pre('C20.remove', rm, n, c.matches(
            'self.workflow_db_mgr.put_update_task_state(itask)'),
            'put_update_task_state')
    so = c.func(TP, 'TaskPool.spawn_on_output')
    for n in c.find(so, 'self.workflow_db_mgr.put_insert_abs_output(*_)'):
        c.post('C20.abs-output', so, n, c.matches(
            'self.workflow_db_mgr.process_queued_ops()'),
            'process_queued_ops()')
        # flushed immediately (before the child is spawned)
        for sp in c.calls(so, 'spawn_task'):
            fl = [x for x in c.find(
                so, 'self.workflow_db_mgr.process_queued_ops()')
                if c.holds(x, 'is_abs')]
            ok = bool(fl) and all(c.cfg(so).path_exists(
                c.idx.stmt_of(x), c.idx.stmt_of(sp)) for x in fl)
            c.ob('C20.abs-output', c.key(n, so) + ' flushed before the child '
                 'is spawned', ok, c.where(n, so), '')
    # (the loop variable of the suicide loop may have any name)
    suic = [n for n in c.find(so, 'self.remove(_t, _)')
            if any(isinstance(p, ast.For) and norm(p.iter) == 'suicide'
                   for p in [c.idx.parent.get(id(x)) for x in [
                       c.idx.stmt_of(n)] + [
                       c.idx.parent.get(id(c.idx.stmt_of(n)))]]
                   if p is not None) or c.holds(n, 'suicide')
            or 'suicide' in norm(n)]
    if not suic:
        suic = [n for n in c.find(so, 'self.remove(_t, _)')]
    c.floor('C20.suicide', 'suicide removal', len(suic), 1)
    fl = [x for x in c.find(so, 'self.workflow_db_mgr.process_queued_ops()')
          if c.holds(x, 'suicide')]
    c.floor('C20.suicide', 'flush after suicide', len(fl), 1)
    for x in fl:
        c.guard_only('C20.suicide', x, [
            'suicide', 'itask.flow_wait', 'children'], so)
        for s in suic:
            c.ob('C20.suicide', c.key(x, so) + ' after the removals',
                 c.cfg(so).path_exists(c.idx.stmt_of(s), c.idx.stmt_of(x)),
                 c.where(x, so), '')
    soi = c.func(TP, 'TaskPool._set_outputs_itask')
    pm = c.calls(soi, 'process_message')
    c.floor('C20.forced-outputs', 'process_message(forced) in '
            '_set_outputs_itask', len(pm), 1)
    rets_true = [r for r in c.idx.walk(soi.node) if isinstance(r, ast.Return)
                 and norm(r.value) == 'True']
    for r in rets_true:
        for pat_ in ('self.workflow_db_mgr.put_update_task_state(itask)',
                     'self.workflow_db_mgr.put_update_task_outputs(itask)',
                     'self.workflow_db_mgr.process_queued_ops()'):
            c.pre('C20.forced-outputs', soi, r, c.matches(pat_),
                  pat_.split('.')[-1])
    c.floor('C20.forced-outputs', 'return True', len(rets_true), 1)
    for n in c.find(soi, 'self.workflow_db_mgr.process_queued_ops()'):
        # only the "something was set" flag (whatever it is called) may
        # stand between the forced outputs and the flush
        c.guard_only('C20.forced-outputs', n, [], soi, flags_ok=True)

    # ---- job submission
    sl = c.func('task_job_mgr', 'TaskJobManager.submit_livelike_task_jobs')
    puts = [n for n in c.calls(sl, 'put_command')]
    c.exactly('C20.submit', 'put_command in submit_livelike_task_jobs',
              len(puts), 1)
    ins = c.find(sl, 'self.workflow_db_mgr.put_insert_task_jobs(itask, _)')
    c.exactly('C20.submit', 'put_insert_task_jobs', len(ins), 1)
    for p in puts:
        def rec_loop(s):
            return isinstance(s, ast.For) and norm(s.iter) == 'itasks' and any(
                isinstance(x, ast.Call) and isinstance(x.func, ast.Attribute)
                and x.func.attr == 'put_insert_task_jobs'
                for x in ast.walk(s))
        ok = c.cfg(sl).dominated_by(c.idx.stmt_of(p), rec_loop)
        c.ob('C20.submit', c.key(p, sl)[:120] + ' after the task_jobs rows of '
             'the platform batch are queued', ok, c.where(p, sl),
             'DB rows queued before the submit command' if ok else
             'a path reaches the submit command without queueing the '
             'task_jobs rows: a crash after submission leaves an untracked '
             'job')
        c.ob('C20.submit', c.key(p, sl)[:120] + ' is the jobs-submit command',
             'self.JOBS_SUBMIT' in norm(p.args[0]), c.where(p, sl), '')
    for i in ins:
        lp = c.idx.parent[id(c.idx.stmt_of(i))]
        c.ob('C20.submit', c.key(i, sl)[:100] + ' for every task of the '
             'batch', isinstance(lp, ast.For) and norm(lp.iter) == 'itasks'
             and not c.facts(i, stop=lp), c.where(i, sl), '')
    # each task consumed once
    wj = [s for s in c.stores(sl, 'waiting_on_job_prep')
          if norm(s.value) == 'False']
    # (tasks not waiting on job prep are skipped: the guard on the append
    # below, whether the skip is a `continue` or a negated test)
    apps =c.find(sl, 'job_log_dirs.append(_)')
    c.exactly('C20.submit-once', 'job_log_dirs.append', len(apps), 1)
    for a in apps:
        c.guard('C20.submit-once', a, ['itask.waiting_on_job_prep'], sl)
        c.post('C20.submit-once', sl, a,
               lambda s: isinstance(s, ast.Assign) and norm(
                   s.targets[0]) == 'itask.waiting_on_job_prep' and norm(
                   s.value) == 'False', 'waiting_on_job_prep = False') \
            if False else None
        st = c.idx.stmt_of(a)
        from rules._shared import straight_line
        ok = any(straight_line(c, st, s.node) for s in wj)
        c.ob('C20.submit-once', c.key(a, sl) + ' then waiting_on_job_prep = '
             'False', ok, c.where(a, sl), '')

    # ---- restart poll
    rs = c.func('scheduler', 'Scheduler.run_scheduler')
    polls = c.find(rs, "commands.run_cmd(commands.poll_tasks(self, ['*/*']))")
    c.floor('C20.restart-poll', "poll_tasks('*/*') on restart", len(polls), 1)
    for p in polls:
        c.guard('C20.restart-poll', p, ['self.is_restart'], rs)
        c.guard_only('C20.restart-poll', p, [
            'self.is_restart', 'self.pool.get_tasks()'], rs,
            stop=_enclosing_try(c, p))
    loops = c.find(rs, 'self._main_loop()')
    c.floor('C20.restart-poll', '_main_loop()', len(loops), 1)
    for lp in loops:
        for p in polls:
            ok = c.cfg(rs).path_exists(c.idx.stmt_of(p), c.idx.stmt_of(lp)) \
                and not c.cfg(rs).path_exists(c.idx.stmt_of(lp),
                                              c.idx.stmt_of(p))
            c.ob('C20.restart-poll', c.key(p, rs)[:100] + ' before the main '
                 'loop', ok, c.where(p, rs), '')
    # ---- poll output order: a job's messages (custom outputs) are reported
    # before its summary (final status); the scheduler handles the lines in
    # order, and a final status can remove the task before a later output
    # line could spawn its children
    jp = c.func('job_runner_mgr', 'JobRunnerManager.jobs_poll')
    writes = [n for n in c.find(jp, 'sys.stdout.write(_)')]
    msg = [n for n in writes if 'OUT_PREFIX_MESSAGE' in norm(n)]
    summ = [n for n in writes if 'OUT_PREFIX_SUMMARY' in norm(n)]
    c.exactly('C20.poll-order', 'message line write in jobs_poll',
              len(msg), 1)
    c.exactly('C20.poll-order', 'summary line write in jobs_poll',
              len(summ), 1)
    for m in msg:
        for s in summ:
            ms, ss = c.idx.stmt_of(m), c.idx.stmt_of(s)
            # same per-job loop; summary after the message loop
            lp = c.idx.parent[id(ss)]
            inner = c.idx.parent[id(ms)]
            ok = isinstance(lp, ast.For) and norm(lp.iter) == 'ctx_list' \
                and isinstance(inner, ast.For) and c.idx.parent[
                    id(inner)] is lp and norm(inner.iter) == 'ctx.messages'
            if ok:
                i_msg = [k for k, x in enumerate(lp.body) if x is inner][0]
                i_sum = [k for k, x in enumerate(lp.body) if x is ss][0]
                ok = i_msg < i_sum
            c.ob('C20.poll-order', f'{jp.fq} :: per job, message lines are '
                 'written before the summary line', ok, c.where(s, jp),
                 'messages first' if ok else 'summary (final status) is '
                 'reported before the job\'s messages: after a restart poll '
                 'the task can be completed and removed before its custom '
                 'outputs spawn their children')
    mc = c.func('task_job_mgr', 'TaskJobManager._manip_task_jobs_callback')
    lines = [n for n in c.idx.walk(mc.node) if isinstance(n, ast.For)
             and norm(n.iter) == 'out.splitlines(True)']
    c.ob('C20.poll-order', f'{mc.fq} :: handles output lines in order',
         len(lines) == 1, c.where(mc.node, mc), '')

    # ---- DB-backed respawn decision
    st = c.func(TP, 'TaskPool.spawn_task')
    c.floor('C20.history', 'spawn_task consults _get_task_history', len(
        c.find(st, 'self._get_task_history(name, point, flow_nums)')), 1)
    gh = c.func(TP, 'TaskPool._get_task_history')
    c.floor('C20.history', '_get_task_history reads the DB', len(
        c.find(gh, 'self.workflow_db_mgr.pri_dao.select_prev_instances(*_)')),
        1)
    ldp = c.func(TP, 'TaskPool._load_db_task_proxy')
    c.always('C20.history', ldp, c.matches(
        'self._load_historical_outputs(itask)'), 'historical outputs loaded'
    ) if False else c.floor('C20.history', 'historical outputs loaded', len(
        c.find(ldp, 'self._load_historical_outputs(itask)')), 1)


def _enclosing_try(c, n):
    cur = n
    while id(cur) in c.idx.parent:
        cur = c.idx.parent[id(cur)]
        if isinstance(cur, ast.Try):
            return cur
    return None


VARIANTS = [
    ('statement-level-commit', 'cylc/flow/rundb.py',
     '''            self.connect()
            self.conn.executemany(stmt, stmt_args_list)''',
     '''            with self.connect() as conn:
                conn.executemany(stmt, stmt_args_list)''',
     'C20.atomic-batch'),
    ('remove-no-flush', 'cylc/flow/task_pool.py',
     '''            # ensure this task is written to the DB before moving on
            # https://github.com/cylc/cylc-flow/issues/6315
            self.workflow_db_mgr.process_queued_ops()
''', '', 'C20.remove'),
    ('remove-no-state', 'cylc/flow/task_pool.py',
     '            self.workflow_db_mgr.put_update_task_state(itask)\n\n            level = logging.DEBUG',
     '            level = logging.DEBUG', 'C20.remove'),
    ('suicide-no-flush', 'cylc/flow/task_pool.py',
     '''        if suicide:
            # Update DB now in case of very quick respawn attempt.
            # See https://github.com/cylc/cylc-flow/issues/6066
            self.workflow_db_mgr.process_queued_ops()
''', '', 'C20.suicide'),
    ('abs-no-flush', 'cylc/flow/task_pool.py',
     '''                    str(itask.point), itask.tdef.name, output)
                self.workflow_db_mgr.process_queued_ops()''',
     '''                    str(itask.point), itask.tdef.name, output)''',
     'C20.abs-output'),
    ('submit-before-record', 'cylc/flow/task_job_mgr.py',
     '''            done_tasks.extend(itasks)
            for itask in itasks:
                # Log and persist''',
     '''            done_tasks.extend(itasks)
            for itask in itasks[:0]:
                # Log and persist''', 'C20.submit'),
    ('resubmit', 'cylc/flow/task_job_mgr.py',
     '''                    itask.local_job_file_path = None
                    itask.waiting_on_job_prep = False

                if not job_log_dirs:''',
     '''                    itask.local_job_file_path = None

                if not job_log_dirs:''', 'C20.submit-once'),
    ('no-restart-poll', 'cylc/flow/scheduler.py',
     "                    await commands.run_cmd(commands.poll_tasks(self, ['*/*']))\n",
     "", 'C20.restart-poll'),
    ('forced-no-flush', 'cylc/flow/task_pool.py',
     '''        self.workflow_db_mgr.put_update_task_outputs(itask)
        self.workflow_db_mgr.process_queued_ops()
        return True''', '''        self.workflow_db_mgr.put_update_task_outputs(itask)
        return True''', 'C20.forced-outputs'),
]

"""C44 Private workflow files are created owner-only."""
import ast

from sa.core import AnalysisError, norm
from sa.consts import known
from sa.cfg import stmt_has

TECHNIQUE = ('static analysis: constant folding of permission masks, CFG '
             'dominance / post-dominance of chmod and umask acquire/restore '
             'around key-writing calls, who-may-chmod allow-list')

CLAUSES = (
    'Decided: WorkflowDatabaseManager.on_workflow_start chmods the private DB '
    'path with a mode whose group/other bits are zero on every normal path, '
    'after the DB file is created; create_server_keys sets a umask denying '
    'all group/other bits before create_certificates and both key copies, and '
    'restores it only afterwards; no other chmod touches the private DB or '
    'key paths; copy_pri_to_pub writes only to the public path. Not decided: '
    'filesystem ACLs, pre-existing files, OS umask semantics (trusted).')


def _is_os_call(n, name):
    return (isinstance(n, ast.Call) and isinstance(n.func, ast.Attribute)
            and n.func.attr == name and isinstance(n.func.value, ast.Name)
            and n.func.value.id == 'os')


def check(c):
    # ---- private DB
    ows = c.func('workflow_db_mgr', 'WorkflowDatabaseManager.on_workflow_start')
    chmods = [n for n in ast.walk(ows.node) if _is_os_call(n, 'chmod')]
    pri = [n for n in chmods if n.args and 'pri' in norm(n.args[0])]
    c.floor('C44.pri-db-chmod', 'os.chmod(<private db>, ...) in '
            'on_workflow_start', len(pri), 1)
    for n in pri:
        mode = c.fold(n.args[1]) if len(n.args) > 1 else None
        ok = isinstance(mode, int) and (mode & 0o077) == 0
        c.ob('C44.pri-db-chmod', c.key(n, ows) + ' mode', ok, c.where(n, ows),
             f'mode folds to {oct(mode) if isinstance(mode, int) else mode}'
             + ('' if ok else ' — group/other bits set or not constant'))
        c.ob('C44.pri-db-chmod', c.key(n, ows) + ' path',
             norm(n.args[0]) == 'self.pri_path', c.where(n, ows),
             f'target {norm(n.args[0])}')
    c.always('C44.pri-db-chmod', ows,
             lambda n: _is_os_call(n, 'chmod') and n.args
             and norm(n.args[0]) == 'self.pri_path',
             'os.chmod(self.pri_path, PERM_PRIVATE)')
    creates = c.calls(ows, 'get_pri_dao')
    c.floor('C44.pri-db-chmod', 'get_pri_dao() in on_workflow_start',
            len(creates), 1)
    for cr in creates:
        c.post('C44.pri-db-chmod-after-create', ows, cr,
               lambda n: _is_os_call(n, 'chmod') and n.args
               and norm(n.args[0]) == 'self.pri_path',
               'chmod of the private DB')
    gpd = c.func('workflow_db_mgr', 'WorkflowDatabaseManager.get_pri_dao')
    c.ob('C44.pri-db-chmod', f'{gpd.fq} opens self.pri_path',
         bool(c.find(gpd, 'CylcWorkflowDAO(self.pri_path, *_)')),
         c.where(gpd.node, gpd), '')
    # every chmod of a private path anywhere has a private mode
    n_ch = 0
    for m in c.idx.modules.values():
        for n in ast.walk(m.tree):
            if _is_os_call(n, 'chmod') and n.args:
                n_ch += 1
                tgt = norm(n.args[0])
                f = c.owner(n)
                if 'pri' in tgt or 'private' in tgt:
                    mode = c.fold(n.args[1]) if len(n.args) > 1 else None
                    c.ob('C44.no-wide-chmod', c.key(n, f),
                         isinstance(mode, int) and (mode & 0o077) == 0,
                         c.where(n, f), f'chmod({tgt}, {mode})')
                elif m.name in ('workflow_db_mgr', 'workflow_files',
                                'network.authentication', 'rundb'):
                    ok = (f is not None and f.fq == 'workflow_db_mgr:'
                          'WorkflowDatabaseManager.copy_pri_to_pub'
                          and 'pub' in tgt)
                    c.ob('C44.no-wide-chmod', c.key(n, f), ok, c.where(n, f),
                         f'chmod({tgt}, ...) in a module that handles '
                         'private files: ' + ('public DB only' if ok else
                                              'not in the allow-list'))
    c.floor('C44.no-wide-chmod', 'os.chmod sites seen (positive control)',
            n_ch, 2)
    # copy_pri_to_pub never writes the private path
    cp = c.func('workflow_db_mgr', 'WorkflowDatabaseManager.copy_pri_to_pub')
    for n in c.calls(cp, 'copy') + c.calls(cp, 'rename') + c.calls(
            cp, 'copyfile'):
        if len(n.args) >= 2:
            dst = norm(n.args[1])
            c.ob('C44.copy-target-public', c.key(n, cp), 'pri' not in dst,
                 c.where(n, cp), f'destination {dst}')
    for n in c.find(cp, 'open(*_)'):
        c.ob('C44.copy-target-public', c.key(n, cp),
             'pri' not in norm(n.args[0]), c.where(n, cp),
             f'opens {norm(n.args[0])}')

    # ---- server / client private keys
    ck = c.func('workflow_files', 'create_server_keys')
    umasks = [n for n in ast.walk(ck.node) if _is_os_call(n, 'umask')]
    strict, restore = [], []
    for u in umasks:
        v = c.fold(u.args[0]) if u.args else None
        if isinstance(v, int) and (v & 0o077) == 0o077:
            strict.append(u)
        else:
            restore.append(u)
    c.floor('C44.key-umask', 'os.umask(<deny group/other>) in '
            'create_server_keys', len(strict), 1)
    c.floor('C44.key-umask', 'restoring os.umask(old) in create_server_keys',
            len(restore), 1)

    def is_strict(n):
        return any(n is s for s in strict)
    sensitive = c.calls(ck, 'create_certificates') + c.calls(ck, 'copyfile')
    c.floor('C44.key-umask', 'key-writing calls in create_server_keys',
            len(sensitive), 3)
    cfg = c.cfg(ck)
    for s in sensitive:
        c.pre('C44.key-umask', ck, s, is_strict, 'os.umask(0o177)')
        st = c.idx.stmt_of(s)
        for r in restore:
            rst = c.idx.stmt_of(r)
            # a restoring umask must not lie between the strict one and the
            # key write
            bad = cfg.path_exists(rst, st) and any(
                cfg.path_exists(c.idx.stmt_of(x), rst) for x in strict)
            c.ob('C44.key-umask', c.key(s, ck) + ' not after umask restore',
                 not bad, c.where(s, ck),
                 'umask still strict at this write' if not bad else
                 f'os.umask restored at line {r.lineno} before this write')
    for s in strict:
        # the saved umask is what is restored
        st = c.idx.stmt_of(s)
        saved = norm(st.targets[0]) if isinstance(st, ast.Assign) else None
        c.post('C44.key-umask-restored', ck, s,
               lambda n, saved=saved: _is_os_call(n, 'umask') and n.args
               and norm(n.args[0]) == saved, f'os.umask({saved})')
    # informational pairing at the other strict-umask sites
    for m in c.idx.modules.values():
        for n in ast.walk(m.tree):
            if _is_os_call(n, 'umask') and n.args:
                v = c.fold(n.args[0])
                f = c.owner(n)
                if f is ck or f is None:
                    continue
                if isinstance(v, int) and (v & 0o077) == 0o077:
                    st = c.idx.stmt_of(n)
                    saved = norm(st.targets[0]) if isinstance(
                        st, ast.Assign) else None
                    ok = c.cfg(f).postdominated_by(
                        st, lambda s, saved=saved: stmt_has(
                            s, lambda x: _is_os_call(x, 'umask') and x.args
                            and norm(x.args[0]) == saved))
                    c.note(f'umask pairing at {c.where(n, f)}: '
                           f'{"restored" if ok else "NOT restored"}')


VARIANTS = [
    ('mode-group-readable', 'cylc/flow/workflow_db_mgr.py',
     'PERM_PRIVATE = 0o600', 'PERM_PRIVATE = 0o640', 'C44.pri-db-chmod'),
    ('chmod-only-fresh', 'cylc/flow/workflow_db_mgr.py',
     '        os.chmod(self.pri_path, PERM_PRIVATE)\n',
     '        if not is_restart:\n'
     '            os.chmod(self.pri_path, PERM_PRIVATE)\n',
     'C44.pri-db-chmod'),
    ('umask-weak', 'cylc/flow/workflow_files.py',
     '    old_umask = os.umask(0o177)  # u=rw only set as default for file '
     'creation\n    _server_public_full_key_path',
     '    old_umask = os.umask(0o137)  # u=rw only set as default for file '
     'creation\n    _server_public_full_key_path', 'C44.key-umask'),
    ('restore-early', 'cylc/flow/workflow_files.py',
     '''    client_host_private_key = keys["client_private_key"].full_key_path
    shutil.copyfile(_server_private_full_key_path, client_host_private_key)''',
     '''    client_host_private_key = keys["client_private_key"].full_key_path
    os.umask(old_umask)
    shutil.copyfile(_server_private_full_key_path, client_host_private_key)''',
     'C44.key-umask'),
    ('chmod-before-create', 'cylc/flow/workflow_db_mgr.py',
     '''        self.pri_dao = self.get_pri_dao()
        os.chmod(self.pri_path, PERM_PRIVATE)''',
     '''        with suppress(OSError):
            os.chmod(self.pri_path, PERM_PRIVATE)
        self.pri_dao = self.get_pri_dao()''',
     'C44.pri-db-chmod-after-create'),
    ('benign-inline-mode', 'cylc/flow/workflow_db_mgr.py',
     '        os.chmod(self.pri_path, PERM_PRIVATE)\n',
     '        os.chmod(self.pri_path, 0o600)\n', None),
]

"""C39 Workflow names cannot escape the cylc-run directory."""
import ast
import re as _re

from sa.core import AnalysisError, norm
from sa.consts import known

TECHNIQUE = ('static analysis: guard atoms and CFG order of the name gate '
             '(character validator, absolute-path test, normpath before the '
             'escape test), regex-AST check of the allowed character class, '
             'reserved-name loop shape, dominance of the gate over the '
             'filesystem-writing callers')

CLAUSES = (
    'Decided: validate_workflow_name returns normally only if the character '
    'validator accepted the name, it is not absolute, and its normalised '
    'form does not start with "." (normpath is applied before that test); the '
    'allowed-character class admits neither "~", whitespace nor backslash and '
    'a name cannot start with ".", "-" or a digit; the reserved-name check '
    'walks every path component against RESERVED_NAMES and run<N>; '
    'install_workflow and clean validate the name before creating or '
    'deleting anything. Not decided: filesystem resolution (symlinks) of an '
    'accepted name.')

WF = 'workflow_files'


def _body_nodes(if_):
    return [n for st in if_.body for n in ast.walk(st)]


def check(c):
    v = c.func(WF, 'validate_workflow_name')
    raises = [r for r in c.idx.walk(v.node) if isinstance(r, ast.Raise)]
    c.floor('C39.gate', 'raise sites in validate_workflow_name', len(raises),
            3)
    need = {
        'invalid characters': ['!is_valid'],
        'absolute path': ['os.path.isabs(name)'],
        'escape (normalised name starts with ".")':
            ['name.startswith(os.curdir)'],
    }
    for what, reqs in need.items():
        hit = [r for r in raises if all(c.holds(r, q, at_entry=True)
                                        for q in reqs)]
        c.ob('C39.gate', f'{v.fq} :: rejects {what}', bool(hit),
             c.where(v.node, v), '')
    iv = [n for n in c.idx.walk(v.node) if isinstance(n, ast.Assign)
          and isinstance(n.targets[0], ast.Tuple)
          and norm(n.targets[0].elts[0]) == 'is_valid']
    c.ob('C39.gate', f'{v.fq} :: is_valid from WorkflowNameValidator',
         len(iv) == 1 and norm(iv[0].value) ==
         'WorkflowNameValidator.validate(name)', c.where(v.node, v), '')
    # normpath before the escape test
    esc = [r for r in raises if c.holds(r, 'name.startswith(os.curdir)',
                                        at_entry=True)]
    for r in esc:
        c.pre('C39.gate', v, c.idx.parent[id(r)], lambda s: isinstance(
            s, ast.Assign) and norm(s.targets[0]) == 'name' and norm(
            s.value) == 'os.path.normpath(name)', 'name = normpath(name)')
    # every normal exit passed all three tests: each rejecting `if` is
    # evaluated on every path from the entry to a normal exit
    for what, reqs in need.items():
        for r in raises:
            if not all(c.holds(r, q, at_entry=True) for q in reqs):
                continue
            x = r
            while x is not v.node and not (
                    isinstance(x, ast.If) and r in _body_nodes(x)):
                x = c.idx.parent[id(x)]
            if isinstance(x, ast.If):
                c.always('C39.gate', v, lambda n, t=x.test: n is t,
                         f'tests for {what}')
            break
    res = c.find(v, 'check_reserved_dir_names(name)')
    c.floor('C39.reserved', 'check_reserved_dir_names(name)', len(res), 1)
    for n in res:
        c.guard_only('C39.reserved', n, [
            'check_reserved_names', 'is_valid', '!os.path.isabs(name)',
            '!name.startswith(os.curdir)'], v)
    cr = c.func(WF, 'check_reserved_dir_names')
    loops = [n for n in c.idx.walk(cr.node) if isinstance(n, ast.For)]
    ok = len(loops) == 1 and norm(loops[0].iter) == 'Path(name).parts'
    c.ob('C39.reserved', f'{cr.fq} :: every path component', ok,
         c.where(cr.node, cr), '')
    rr = [r for r in c.idx.walk(cr.node) if isinstance(r, ast.Raise)]
    ok1 = any(c.holds(r, 'dir_name in WorkflowFiles.RESERVED_NAMES')
              for r in rr)
    ok2 = any(c.holds(r, "re.match('^run\\\\d+$', dir_name)") for r in rr)
    c.ob('C39.reserved', f'{cr.fq} :: rejects RESERVED_NAMES components',
         ok1, c.where(cr.node, cr), '')
    # ... every component is compared: no component is exempted before the
    # tests (hidden names like `.service` are reserved names too)
    for r in rr:
        if c.holds(r, 'dir_name in WorkflowFiles.RESERVED_NAMES'):
            c.guard_only('C39.reserved', r, [
                'dir_name in WorkflowFiles.RESERVED_NAMES'], cr,
                stop=loops[0] if loops else None,
                what='no component is exempt from the reserved-name test;')
        elif c.holds(r, "re.match('^run\\\\d+$', dir_name)"):
            c.guard_only('C39.reserved', r, [
                "re.match('^run\\\\d+$', dir_name)",
                '!(dir_name in WorkflowFiles.RESERVED_NAMES)'], cr,
                stop=loops[0] if loops else None,
                what='no component is exempt from the run<N> test;')
    c.ob('C39.reserved', f'{cr.fq} :: rejects run<N> components', ok2,
         c.where(cr.node, cr), '')
    rn = c.K.class_attr('WorkflowFiles', 'RESERVED_NAMES')
    c.ob('C39.reserved', 'workflow_files:WorkflowFiles.RESERVED_NAMES is a '
         'non-empty constant', known(rn) and len(rn) >= 4, '', str(rn)[:200])
    # ---- character class
    ur = c.idx.cls('WorkflowNameValidator', 'unicode_rules')
    rules = None
    for st in ur.node.body:
        if isinstance(st, ast.Assign) and norm(st.targets[0]) == 'RULES':
            rules = st.value
    if rules is None:
        raise AnalysisError('WorkflowNameValidator.RULES not found')
    chars = None
    starts = None
    for e in rules.elts:
        if isinstance(e, ast.Call) and norm(e.func) == 'allowed_characters':
            chars = [a.value for a in e.args if isinstance(a, ast.Constant)]
        if isinstance(e, ast.Call) and norm(e.func) == \
                'not_starts_with_char':
            starts = [a.value for a in e.args if isinstance(a, ast.Constant)]
    c.ob('C39.charset', 'unicode_rules:WorkflowNameValidator has an '
         'allowed_characters rule', chars is not None, c.where(ur.node), '')
    if chars is not None:
        cls_ = _re.compile(r'^[%s]+$' % ''.join(chars))
        # (a trailing newline slips through `$`; it cannot leave cylc-run, so
        # it is not probed here)
        bad = [ch for ch in ('~', ' ', '\t', '\\', '$', '*', '?', ':',
                             ';', '|', '&', '`', '"', "'", '(', ')', '<', '>',
                             '!', '#', '%', '^', '=', ',', '{', '}', '[', ']')
               if cls_.match('a' + ch)]
        c.ob('C39.charset', 'unicode_rules:WorkflowNameValidator character '
             'class excludes shell/path metacharacters', not bad,
             c.where(ur.node), f'class {chars}; admitted: {bad}')
    if starts is not None:
        sre = _re.compile('^[%s]' % ''.join(starts))
        c.ob('C39.charset', 'unicode_rules:WorkflowNameValidator cannot '
             'start with ".", "-" or a digit', all(
                 sre.match(x) for x in ('.', '-', '7')), c.where(ur.node),
             str(starts))
    else:
        c.ob('C39.charset', 'unicode_rules:WorkflowNameValidator has a '
             'not_starts_with_char rule', False, c.where(ur.node), '')
    ac = c.func('unicode_rules', 'allowed_characters')
    ok = bool(c.find(ac, "re.compile('^[%s]+$' % ''.join(chars))"))
    c.ob('C39.charset', f'{ac.fq} :: anchored ^[...]+$ class', ok,
         c.where(ac.node, ac), '')
    # ---- callers validate first
    iw = c.func('install', 'install_workflow')
    vals = c.calls(iw, 'validate_workflow_name')
    c.floor('C39.callers', 'validation in install_workflow', len(vals), 2)
    for n in vals:
        kw = {k.arg: norm(k.value) for k in n.keywords}
        c.ob('C39.callers', c.key(n, iw)[:100] + ' checks reserved names',
             kw.get('check_reserved_names') == 'True', c.where(n, iw), '')
    for pat_ in ('make_localhost_symlinks(*_)', 'rundir.mkdir(*_)',
                 'get_run_dir_info(*_)'):
        for n in c.find(iw, pat_):
            c.pre('C39.callers', iw, n, c.matches(
                'validate_workflow_name(*_)'), 'name validation')
    cc = c.func('clean', '_clean_check')
    c.always('C39.callers', cc, c.matches('validate_workflow_name(id_)'),
             'validate_workflow_name')


VARIANTS = [
    ('hidden-components-exempt', 'cylc/flow/workflow_files.py',
     '''    for dir_name in Path(name).parts:
        if dir_name in WorkflowFiles.RESERVED_NAMES:''',
     '''    for dir_name in Path(name).parts:
        if dir_name.startswith(os.curdir):
            continue
        if dir_name in WorkflowFiles.RESERVED_NAMES:''', 'C39.reserved'),
    ('test-before-normpath', 'cylc/flow/workflow_files.py',
     '''    name = os.path.normpath(name)
    if name.startswith(os.curdir):''',
     '''    if name.startswith(os.curdir):''', 'C39.gate'),
    ('early-return', 'cylc/flow/workflow_files.py',
     '''    if os.path.isabs(name):
        raise WorkflowFilesError(
            f"workflow name cannot be an absolute path: {name}"
        )
''', '''    if not check_reserved_names:
        return
    if os.path.isabs(name):
        raise WorkflowFilesError(
            f"workflow name cannot be an absolute path: {name}"
        )
''', 'C39.gate'),
    ('allow-absolute', 'cylc/flow/workflow_files.py',
     '''    if os.path.isabs(name):
        raise WorkflowFilesError(
            f"workflow name cannot be an absolute path: {name}"
        )
''', '', 'C39.gate'),
    ('tilde-allowed', 'cylc/flow/unicode_rules.py',
     "        allowed_characters(r'\\w', r'\\/', '_', '+', r'\\-', r'\\.', '@'),\n    ]\n\n\nclass XtriggerNameValidator",
     "        allowed_characters(r'\\w', r'\\/', '_', '+', r'\\-', r'\\.', '@', '~'),\n    ]\n\n\nclass XtriggerNameValidator",
     'C39.charset'),
    ('reserved-first-only', 'cylc/flow/workflow_files.py',
     '    for dir_name in Path(name).parts:',
     '    for dir_name in Path(name).parts[:1]:', 'C39.reserved'),
    ('install-no-reserved', 'cylc/flow/install.py',
     '        validate_workflow_name(workflow_name, check_reserved_names=True)',
     '        validate_workflow_name(workflow_name)', 'C39.callers'),
    ('validate-after-symlinks', 'cylc/flow/install.py',
     '''    else:
        validate_workflow_name(workflow_name, check_reserved_names=True)
    validate_source_dir(source, workflow_name)''',
     '''    validate_source_dir(source, workflow_name)''', 'C39.callers'),
]

"""C38 `cylc clean` deletes only inside the workflow."""
import ast

from sa.core import AnalysisError, norm
from sa.pat import AnyOf

TECHNIQUE = ('static analysis: who-may-delete allow-list over the destructive '
             'primitives of clean.py / pathutil.py, guard atoms that keep the '
             'generic deleter from following symlinks, provenance of the '
             'arguments of the symlink-following deleter, taint of the --rm '
             'option through its sanitiser, guard atoms of the sanitiser and '
             'of the glob symlink exclusion')

CLAUSES = (
    'Decided: rmtree / os.remove / unlink / rmdir occur in clean.py and '
    'pathutil.py only in the listed deleter functions; the generic deleter '
    'never calls the recursive delete on a symlink; the symlink-following '
    'deleter is called only with the run dir, `run_dir / <standard symlink '
    'dir>` or an element of the computed symlink-dir list; symlink dirs are '
    'accepted only if their target ends with cylc-run/<id>/<dir>; a glob '
    'match below a non-standard symlink is excluded and the run dir is '
    'glob-escaped; user --rm values reach clean() only through parse_rm_dirs, '
    'which rejects absolute paths and anything that normalises to the run '
    'dir or above; the workflow name is validated first. Not decided: that '
    'every match is deleted.')

PU = 'pathutil'
CL = 'clean'
PRIMS = {'rmtree', '_rmtree', 'remove', 'unlink', 'rmdir', 'removedirs',
         'rename', 'move'}


def _destructive(n):
    if not isinstance(n, ast.Call):
        return None
    fn = n.func
    if isinstance(fn, ast.Name) and fn.id in ('rmtree', '_rmtree'):
        return fn.id
    if isinstance(fn, ast.Attribute):
        base = norm(fn.value)
        if fn.attr in ('remove', 'unlink', 'rmdir', 'removedirs') and \
                base == 'os':
            return 'os.' + fn.attr
        if fn.attr == 'rmtree' and base == 'shutil':
            return 'shutil.rmtree'
        if fn.attr in ('unlink', 'rmdir') and not n.args and \
                base not in ('os',):
            return 'Path.' + fn.attr
    return None


def check(c):
    allow = {
        f'{PU}:_rmtree': {'rmtree'},
        f'{PU}:remove_dir_and_target': {'_rmtree', 'os.remove'},
        f'{PU}:remove_dir_or_file': {'_rmtree', 'os.remove'},
        f'{PU}:remove_empty_parents': {'Path.rmdir'},
        f'{PU}:make_symlink_dir': {'Path.unlink'},
        f'{CL}:clean': {'Path.unlink'},
    }
    n_sites = 0
    for mod in (PU, CL):
        for n in c.idx.walk(c.idx.module(mod).tree):
            kind = _destructive(n)
            if kind is None:
                continue
            n_sites += 1
            f = c.owner(n)
            fq = f.fq if f else '<module>'
            c.ob('C38.deleters', c.key(n, f)[:120] + f' [{kind}]',
                 kind in allow.get(fq, set()), c.where(n, f),
                 f'{kind} in {fq}')
    c.floor('C38.deleters', 'destructive call sites seen', n_sites, 8)

    # ---- generic deleter never follows symlinks
    rdf = c.func(PU, 'remove_dir_or_file')
    for n in c.find(rdf, '_rmtree(path)'):
        c.guard('C38.no-follow', n, ['!os.path.islink(path)'], rdf)
    for n in c.find(rdf, 'os.remove(path)'):
        c.guard('C38.no-follow', n, [AnyOf('os.path.islink(path)',
                                           'os.path.isfile(path)')], rdf)
    for f in (rdf, c.func(PU, 'remove_dir_and_target')):
        raises = [r for r in c.idx.walk(f.node) if isinstance(r, ast.Raise)
                  and c.holds(r, '!os.path.isabs(path)')]
        c.ob('C38.no-follow', f'{f.fq} :: requires an absolute path',
             bool(raises), c.where(f.node, f), '')
    rdt = c.func(PU, 'remove_dir_and_target')
    tg = c.find(rdt, '_rmtree(target)')
    c.exactly('C38.follow-target', 'target delete', len(tg), 1)
    for n in tg:
        c.guard('C38.follow-target', n, ['os.path.islink(path)',
                                         'os.path.exists(path)'], rdt)
    ts = [n for n in c.idx.walk(rdt.node) if isinstance(n, ast.Assign)
          and norm(n.targets[0]) == 'target']
    c.ob('C38.follow-target', f'{rdt.fq} :: target = realpath(path)',
         len(ts) == 1 and norm(ts[0].value) == 'os.path.realpath(path)',
         c.where(rdt.node, rdt), '')
    # ---- who calls the symlink-following deleter, with what
    ok_args = {
        f'{CL}:clean': {'run_dir / symlink', 'run_dir'},
        f'{CL}:_clean_using_glob': {'symlink_dir'},
    }
    calls = c.calls(None, 'remove_dir_and_target')
    c.floor('C38.follow-target', 'remove_dir_and_target calls', len(calls), 3)
    for n in calls:
        f = c.owner(n)
        fq = f.fq if f else '<module>'
        arg = norm(n.args[0]) if n.args else ''
        c.ob('C38.follow-target', c.key(n, f)[:120] + ' [argument]',
             arg in ok_args.get(fq, set()), c.where(n, f),
             f'remove_dir_and_target({arg}) in {fq}')
    cl = c.func(CL, 'clean')
    for n in c.find(cl, 'remove_dir_and_target(run_dir / symlink)'):
        lp = c.idx.parent[id(c.idx.stmt_of(n))]
        c.ob('C38.follow-target', c.key(n, cl) + ' symlink from '
             'get_symlink_dirs', isinstance(lp, ast.For) and norm(
                 lp.iter) == 'symlink_dirs', c.where(n, cl), '')
    sd = [n for n in c.idx.walk(cl.node) if isinstance(n, ast.Assign)
          and norm(n.targets[0]) == 'symlink_dirs']
    c.ob('C38.follow-target', f'{cl.fq} :: symlink_dirs = '
         'get_symlink_dirs(id_, run_dir)', len(sd) == 1 and norm(
             sd[0].value) == 'get_symlink_dirs(id_, run_dir)',
         c.where(cl.node, cl), '')
    cg = c.func(CL, '_clean_using_glob')
    for n in c.find(cg, 'remove_dir_and_target(symlink_dir)'):
        c.guard('C38.follow-target', n, ['symlink_dir.is_symlink()'], cg)
        lp = c.idx.parent[id(c.idx.parent[id(c.idx.stmt_of(n))])]
        c.ob('C38.follow-target', c.key(n, cg) + ' symlink_dir from '
             'abs_symlink_dirs', isinstance(lp, ast.For) and norm(
                 lp.iter) == 'abs_symlink_dirs', c.where(n, cg), '')
    ab = [n for n in c.idx.walk(cg.node) if isinstance(n, ast.Assign)
          and norm(n.targets[0]) == 'abs_symlink_dirs']
    c.ob('C38.follow-target', f'{cg.fq} :: abs_symlink_dirs = run_dir / d',
         len(ab) == 1 and 'run_dir / d for d in symlink_dirs' in norm(
             ab[0].value), c.where(cg.node, cg), '')
    for n in c.find(cg, 'remove_dir_or_file(path)'):
        lp = c.idx.parent[id(c.idx.stmt_of(n))]
        c.ob('C38.no-follow', c.key(n, cg) + ' paths from the filtered glob',
             isinstance(lp, ast.For) and norm(lp.iter) == 'matches',
             c.where(n, cg), '')
    gs = c.func('workflow_files', 'get_symlink_dirs')
    rets = [s for s in c.idx.walk(gs.node) if isinstance(s, ast.Assign)
            and norm(s.targets[0]) == 'ret[_dir]']
    for s in rets:
        c.guard('C38.symlink-dirs', s, [
            'path.is_symlink()', 'str(target).endswith(expected_end)'], gs)
    c.floor('C38.symlink-dirs', 'accepted symlink dir', len(rets), 1)
    ee = [s for s in c.idx.walk(gs.node) if isinstance(s, ast.Assign)
          and norm(s.targets[0]) == 'expected_end']
    c.ob('C38.symlink-dirs', f"{gs.fq} :: expected_end = cylc-run/<id>/<dir>",
         len(ee) == 1 and norm(ee[0].value) ==
         "str(Path('cylc-run', id_, _dir))", c.where(gs.node, gs), '')
    # ---- glob
    gl = c.func(CL, 'glob_in_run_dir')
    ex = [n for n in c.find(gl, 'subpath_excludes.add(ancestor)')
          if c.holds(n, 'ancestor.is_symlink()')]
    c.floor('C38.glob', 'non-standard symlink exclusion', len(ex), 1)
    for n in ex:
        c.guard('C38.glob', n, ['ancestor.is_symlink()',
                                '!(ancestor in symlink_dirs)'], gl)
        from rules._shared import followed_by
        c.ob('C38.glob', c.key(n, gl) + ' then break (path not returned)',
             followed_by(c, c.idx.stmt_of(n), ast.Break), c.where(n, gl), '')
    c.floor('C38.glob', 'run dir glob-escaped', len(c.find(
        gl, 'os.path.join(glob.escape(str(run_dir)), pattern)')), 1)
    apps = c.find(gl, 'results.append(path)')
    for n in apps:
        par = c.idx.parent[id(c.idx.stmt_of(n))]
        c.ob('C38.glob', c.key(n, gl) + ' only in the for-else (no break)',
             isinstance(par, ast.For) and any(
                 s is c.idx.stmt_of(n) for s in par.orelse), c.where(n, gl),
             '')
    # nothing leaves the function without going through that filter: every
    # return is the empty list or the filtered list (a shortcut that returns
    # raw glob matches -- even a single one -- would hand a path beneath a
    # foreign symlink to the deleter)
    rets = [r for r in c.idx.walk(gl.node) if isinstance(r, ast.Return)]
    c.floor('C38.glob', 'returns of glob_in_run_dir', len(rets), 1)
    filtered = {norm(n.func.value) for n in apps}
    for r in rets:
        v = r.value
        ok = v is not None and (norm(v) == '[]' or norm(v) in filtered)
        c.ob('C38.glob', c.key(r, gl) + ' returns only filtered paths', ok,
             c.where(r, gl), '' if ok else f'returns `{norm(v)}`: glob '
             'matches that did not pass the non-standard-symlink exclusion '
             'reach remove_dir_or_file')
    for name in filtered:
        other = [n for n in c.idx.walk(gl.node) if isinstance(
            n, (ast.Assign, ast.AnnAssign, ast.AugAssign)) and norm(
            n.targets[0] if isinstance(n, ast.Assign) else n.target) == name
            and norm(n.value) != '[]']
        adds = [n for n in c.idx.walk(gl.node) if isinstance(n, ast.Call)
                and isinstance(n.func, ast.Attribute) and norm(
                    n.func.value) == name and n.func.attr in (
                    'append', 'extend', 'insert') and n not in apps]
        c.ob('C38.glob', f'{gl.fq} :: {name} is filled only by the filtered '
             'append', not other and not adds, c.where(gl.node, gl),
             '; '.join(norm(n)[:60] for n in other + adds))
    # ---- --rm sanitiser
    ic = c.func(CL, 'init_clean')
    rm = [n for n in c.idx.walk(ic.node) if isinstance(n, ast.Assign)
          and norm(n.targets[0]) == 'rm_dirs']
    # every value rm_dirs can take is the sanitised set or None
    # (`parse_rm_dirs(opts.rm_dirs) if opts.rm_dirs else None`, in either
    # spelling)
    vals = {norm(r.value) for r in rm}
    c.ob('C38.rm-option', f'{ic.fq} :: rm_dirs = parse_rm_dirs(opts.rm_dirs)',
         bool(rm) and vals <= {'parse_rm_dirs(opts.rm_dirs)', 'None'} and
         'parse_rm_dirs(opts.rm_dirs)' in vals, c.where(ic.node, ic),
         str(sorted(vals)))
    for r in rm:
        if norm(r.value) == 'None':
            c.guard('C38.rm-option', r, ['!opts.rm_dirs'], ic)
    for n in c.find(ic, 'clean(id_, local_run_dir, rm_dirs)'):
        c.ob('C38.rm-option', c.key(n, ic) + ' sanitised set', True,
             c.where(n, ic), '')
    c.floor('C38.rm-option', 'clean(id_, local_run_dir, rm_dirs)', len(
        c.find(ic, 'clean(id_, local_run_dir, rm_dirs)')), 1)
    for n in c.calls(CL, 'clean'):
        f = c.owner(n)
        if isinstance(n.func, ast.Name) and len(n.args) >= 3:
            c.ob('C38.rm-option', c.key(n, f)[:100] + ' third argument',
                 norm(n.args[2]) == 'rm_dirs', c.where(n, f), '')
    pr = c.func(PU, 'parse_rm_dirs')
    adds = c.find(pr, 'result.add(part)')
    c.exactly('C38.rm-option', 'result.add(part)', len(adds), 1)
    for n in adds:
        c.guard('C38.rm-option', n, [
            '!os.path.isabs(part)',
            '!(part in {os.curdir, os.pardir})',
            "!part.startswith(f'{os.pardir}{os.sep}')", 'part'], pr,
            at_entry=True)
        # after the tests the value only gains a trailing separator
        later = [s for s in c.idx.walk(pr.node) if isinstance(
            s, (ast.Assign, ast.AugAssign)) and norm(
            s.targets[0] if isinstance(s, ast.Assign) else s.target) == 'part'
            and s.lineno > min(r.lineno for r in c.idx.walk(pr.node)
                               if isinstance(r, ast.Raise))]
        c.ob('C38.rm-option', f'{pr.fq} :: part only gains os.sep after the '
             'checks', all(isinstance(s, ast.AugAssign) and norm(
                 s.value) == 'os.sep' for s in later), c.where(n, pr),
             str([norm(s) for s in later]))
        c.pre('C38.rm-option', pr, n, lambda s: isinstance(
            s, ast.Assign) and norm(s.targets[0]) == 'part' and norm(
            s.value) == 'os.path.normpath(part)', 'normpath before the tests')
    cc = c.func(CL, '_clean_check')
    c.always('C38.name', cc, c.matches('validate_workflow_name(id_)'),
             'validate_workflow_name(id_)')
    c.floor('C38.name', '_clean_check in init_clean', len(
        c.find(ic, '_clean_check(opts, id_, local_run_dir)')), 1)
    for n in c.find(ic, 'clean(id_, local_run_dir, rm_dirs)'):
        c.pre('C38.name', ic, n, c.matches(
            '_clean_check(opts, id_, local_run_dir)'), '_clean_check')


VARIANTS = [
    ('follow-any-symlink', 'cylc/flow/pathutil.py',
     '''    if os.path.islink(path):
        LOG.info(f"Removing symlink: {path}")
        os.remove(path)
    elif os.path.isfile(path):''',
     '''    if os.path.isfile(path):''', 'C38.no-follow'),
    ('glob-follow', 'cylc/flow/clean.py',
     '            if ancestor.is_symlink() and ancestor not in symlink_dirs:',
     '            if ancestor.is_symlink() and ancestor in subpath_excludes:',
     'C38.glob'),
    ('rm-parent', 'cylc/flow/pathutil.py',
     '''                part in {os.curdir, os.pardir}
                or part.startswith(f"{os.pardir}{os.sep}")  # '../'
''', '''                part in {os.curdir, os.pardir}
''', 'C38.rm-option'),
    ('rm-before-normpath', 'cylc/flow/pathutil.py',
     '''            is_dir = part.endswith(os.sep)
            part = os.path.normpath(part)
            if os.path.isabs(part):''',
     '''            is_dir = part.endswith(os.sep)
            if os.path.isabs(part):''', 'C38.rm-option'),
    ('unsanitised-rm', 'cylc/flow/clean.py',
     '    rm_dirs = parse_rm_dirs(opts.rm_dirs) if opts.rm_dirs else None',
     '    rm_dirs = set(opts.rm_dirs) if opts.rm_dirs else None',
     'C38.rm-option'),
    ('delete-matched-target', 'cylc/flow/clean.py',
     '''    for path in matches:
        remove_dir_or_file(path)''', '''    for path in matches:
        remove_dir_and_target(path)''', 'C38.follow-target'),
    ('symlink-anywhere', 'cylc/flow/workflow_files.py',
     '''            if not str(target).endswith(expected_end):
                raise WorkflowFilesError(
                    f'Invalid symlink at {path}\\n'
                    f'The target should end with "{expected_end}"'
                )
''', '', 'C38.symlink-dirs'),
    ('new-deleter', 'cylc/flow/clean.py',
     '    symlink_dirs = get_symlink_dirs(id_, run_dir)\n    if rm_dirs is not None:',
     '    symlink_dirs = get_symlink_dirs(id_, run_dir)\n    if not run_dir.name:\n        os.remove(run_dir)\n    if rm_dirs is not None:',
     'C38.deleters'),
    ('glob-single-match-shortcut', 'cylc/flow/clean.py',
     '''    if len(matches) == 1 and not os.path.lexists(matches[0]):
        # https://bugs.python.org/issue35201
        return []''',
     '''    if len(matches) <= 1:
        return [path for path in matches if os.path.lexists(path)]''',
     'C38.glob'),
]

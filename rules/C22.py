"""C22 Broadcasts override in precedence order and persist exactly."""
import ast

from sa.core import AnalysisError, norm
from sa.pat import AnyOf
from rules._shared import broadcast_prune_rules
from rules._shared import straight_line

TECHNIQUE = ('static analysis: pairing of every broadcast-table mutation with '
             'its persistence / data-store calls, structural precedence order '
             'of the lookup, guard atoms of expiry, writer/reader agreement '
             'of the key encoding, sibling-traversal agreement (all leaves of '
             'a nested settings dict are visited)')

CLAUSES = (
    'Decided: put_broadcast and clear_broadcast hand every applied / removed '
    'setting to WorkflowDatabaseManager.put_broadcast (cancel flag on clear) '
    'and signal the data store when anything changed; get_broadcast merges '
    'the all-cycles entries before the task\'s own cycle and ancestors from '
    'root to the task itself (later wins); expire clears only real cycle '
    'points earlier than the cutoff; the DB key is written as [section]...key '
    'and parsed back with the matching section regex; every traversal of a '
    'nested settings dict (apply, key listing, clear, prune, change report) '
    'visits all items. '
    'The recursive merge never stores a nested section of its source by reference. '
    'Not decided: equality of the effective config over '
    'operation histories.')

BM = 'broadcast_mgr'
BR = 'broadcast_report'


def check(c):
    # ---- pairing
    put = c.func(BM, 'BroadcastMgr.put_broadcast')
    clr = c.func(BM, 'BroadcastMgr.clear_broadcast')
    c.always('C22.persist', put, c.matches(
        'self.workflow_db_mgr.put_broadcast(modified_settings)'),
        'workflow_db_mgr.put_broadcast(modified_settings)')
    c.always('C22.persist', clr, c.matches(
        'self.workflow_db_mgr.put_broadcast(modified_settings, '
        'is_cancel=True)'), 'put_broadcast(modified_settings, is_cancel=True)')
    for f in (put, clr):
        d = c.find(f, 'self.data_store_mgr.delta_broadcast()')
        c.floor('C22.persist', f'delta_broadcast in {f.name}', len(d), 1)
        for n in d:
            c.guard_only('C22.persist', n, ['modified_settings'], f)
    app = c.find(put, 'addict(self.broadcasts[point_string][namespace], '
                 'coerced_setting)')
    c.exactly('C22.persist', 'apply site in put_broadcast', len(app), 1)
    rec = c.find(put, 'modified_settings.append((point_string, namespace, '
                 'setting))')
    c.exactly('C22.persist', 'record site in put_broadcast', len(rec), 1)
    for a in app:
        ok = any(straight_line(c, c.idx.stmt_of(r), c.idx.stmt_of(a))
                 or straight_line(c, c.idx.stmt_of(a), c.idx.stmt_of(r))
                 for r in rec)
        c.ob('C22.persist', c.key(a, put)[:120] + ' recorded with the same '
             'point/namespace/setting', ok, c.where(a, put), '')
    unset = [n for n in c.idx.walk(clr.node) if isinstance(n, ast.Assign)
             and norm(n.targets[0]) == 'stuff[key]'
             and norm(n.value) == 'None']
    c.exactly('C22.persist', 'unset site in clear_broadcast', len(unset), 1)
    # (the third element is the cancelled setting, however it is built)
    crec = c.find(clr, 'modified_settings.append((point_string, namespace, '
                  '_))')
    for u in unset:
        ok = any(straight_line(c, u, c.idx.stmt_of(r)) for r in crec)
        c.ob('C22.persist', c.key(u, clr) + ' recorded', ok, c.where(u, clr),
             '')
        c.guard('C22.persist', u, [AnyOf(
            '!cancel_keys_list', 'keys + [key] in cancel_keys_list')], clr)
    wput = c.func('workflow_db_mgr', 'WorkflowDatabaseManager.put_broadcast')
    c.floor('C22.persist', 'DB writer iterates the change iterator', len(
        c.find(wput, 'get_broadcast_change_iter(modified_settings, '
               'is_cancel)')), 1)
    ins = [n for n in c.calls(wput, 'append') if 'TABLE_BROADCAST_STATES' in
           norm(n.func.value) and 'db_inserts_map' in norm(n.func.value)]
    dele = [n for n in c.calls(wput, 'append') if 'TABLE_BROADCAST_STATES' in
            norm(n.func.value) and 'db_deletes_map' in norm(n.func.value)]
    c.floor('C22.persist', 'broadcast_states insert', len(ins), 1)
    c.floor('C22.persist', 'broadcast_states delete', len(dele), 1)
    for n in ins:
        c.guard('C22.persist', n, ['!is_cancel'], wput)
    for n in dele:
        c.guard('C22.persist', n, ['is_cancel'], wput)

    # ---- precedence
    gb = c.func(BM, 'BroadcastMgr.get_broadcast')
    outer = [n for n in c.idx.walk(gb.node) if isinstance(n, ast.For)
             and norm(n.target) == 'cycle']
    c.exactly('C22.precedence', 'cycle loop', len(outer), 1)
    for o in outer:
        c.ob('C22.precedence', c.key(o, gb) + ' all-cycles first, then the '
             "task's cycle", norm(o.iter) ==
             "ALL_CYCLE_POINTS_STRS + [tokens['cycle']]", c.where(o, gb),
             norm(o.iter))
        inner = [n for n in ast.walk(o) if isinstance(n, ast.For)
                 and n is not o]
        ok = len(inner) == 1 and norm(inner[0].iter) == \
            "reversed(self.linearized_ancestors[tokens['task']])"
        c.ob('C22.precedence', c.key(o, gb) + ' ancestors root first', ok,
             c.where(o, gb), norm(inner[0].iter) if inner else '')
        mg = c.find(o, 'addict(ret, self.broadcasts[cycle][namespace])')
        c.ob('C22.precedence', c.key(o, gb) + ' later entries override '
             '(addict into ret)', len(mg) == 1, c.where(o, gb), '')
        for m in mg:
            c.guard_only('C22.precedence', m, [
                'cycle in self.broadcasts',
                'namespace in self.broadcasts[cycle]'], gb, stop=o)
    ad = c.func(BM, 'addict')
    st = [n for n in c.idx.walk(ad.node) if isinstance(n, ast.Assign)
          and norm(n.targets[0]) == 'target[key]']
    ok = any(norm(n.value) == 'val' for n in st) or any(
        'source' in norm(n.value) for n in st)
    c.ob('C22.precedence', f'{ad.fq} :: source overrides target', ok,
         c.where(ad.node, ad), '')
    # ... and never shares a nested section with its source: a dict value is
    # merged into a fresh / existing dict of the target, only leaves are stored
    # as they are (a stored section shared with the lookup result, or between
    # the targets of one broadcast, is rewritten by the next merge / clear
    # behind the DB's back)
    for n in st:
        v = norm(n.value)
        if v in ('{}', 'dict()') or v.startswith(('deepcopy(', 'pdeepcopy(',
                                                  'copy.deepcopy(')):
            c.ob('C22.no-alias', c.key(n, ad) + ' fresh section', True,
                 c.where(n, ad), '')
        else:
            c.guard('C22.no-alias', n, ['!isinstance(val, dict)'], ad,
                    what='only leaf values are stored by reference;')
    rec = c.find(ad, 'addict(target[key], val)')
    c.floor('C22.no-alias', f'{ad.fq} :: recursive merge of sections',
            len(rec), 1)
    for n in rec:
        c.guard('C22.no-alias', n, ['isinstance(val, dict)'], ad)
        c.guard_only('C22.no-alias', n, ['isinstance(val, dict)'], ad,
                     what='every nested section is merged, present or not;')
    lin = c.func('commands', 'reload_workflow')
    c.floor('C22.precedence', 'ancestors refreshed on reload', len([
        s for s in c.stores(lin, 'linearized_ancestors')]), 1)
    ur = c.func(BM, 'BroadcastMgr.get_updated_rtconfig')
    c.floor('C22.precedence', 'overrides applied on a copy', len(
        c.find(ur, 'poverride(rtconfig, overrides, prepend=True)')), 1)
    c.floor('C22.precedence', 'rtconfig = pdeepcopy(itask.tdef.rtconfig)',
            len(c.find(ur, 'pdeepcopy(itask.tdef.rtconfig)')), 1)

    # ---- expiry
    ex = c.func(BM, 'BroadcastMgr.expire_broadcast')
    # the points to expire: a loop with append or a comprehension
    apps = [a.args[0] for a in c.find(
        ex, 'point_strings.append(point_string)')] + [
        n.value.elt for n in c.idx.walk(ex.node) if isinstance(n, ast.Assign)
        and norm(n.targets[0]) == 'point_strings' and isinstance(
            n.value, ast.ListComp) and norm(n.value.elt) == norm(
            n.value.generators[0].target)
        and norm(n.value.generators[0].iter) == 'self.broadcasts']
    c.exactly('C22.expiry', 'expiry candidate append', len(apps), 1)
    for a in apps:
        c.guard('C22.expiry', a, [
            AnyOf('cutoff_point is None',
                  'get_point(point_string) < cutoff_point'),
            AnyOf('cutoff_point is None',
                  '!(point_string in ALL_CYCLE_POINTS_STRS)')], ex)
    c.floor('C22.expiry', 'clear_broadcast(point_strings=point_strings)', len(
        c.find(ex, 'self.clear_broadcast(point_strings=point_strings, '
               '**kwargs)') or [n for n in c.calls(ex, 'clear_broadcast')
                                if any(k.arg == 'point_strings' and norm(
                                    k.value) == 'point_strings'
                                    for k in n.keywords)]), 1)

    # ---- key round trip
    ci = c.func(BR, 'get_broadcast_change_iter')
    ci_nodes = list(c.idx.walk(ci.node))
    for call in [x for x in ci_nodes if isinstance(x, ast.Call)]:
        h = c.resolve_helper(call)
        if h is not None and h.mod == ci.mod and h is not ci:
            ci_nodes += list(c.idx.walk(h.node))
    consts = [n.value for n in ci_nodes if isinstance(
        n, ast.Constant) and isinstance(n.value, str)]
    c.ob('C22.key-codec', f'{ci.fq} :: writes "[section]" prefixes',
         '[' in consts and ']' in consts, c.where(ci.node, ci), '')
    rec_ = c.K.class_attr('BroadcastMgr', 'REC_SECTION')
    node = c.K.class_attr_node('BroadcastMgr', 'REC_SECTION')
    pat_ = None
    if isinstance(node, ast.Call) and node.args and isinstance(
            node.args[0], ast.Constant):
        pat_ = node.args[0].value
    c.ob('C22.key-codec', 'broadcast_mgr:BroadcastMgr.REC_SECTION parses '
         '[section]', pat_ == r'\[([^\]]+)\]', '', f'{pat_!r}')
    ld = c.func(BM, 'BroadcastMgr.load_db_broadcast_states')
    ok = bool(c.find(ld, 'self.REC_SECTION.findall(cur_key)')) and bool(
        c.find(ld, "cur_key.rsplit(']', 1)[-1]"))
    c.ob('C22.key-codec', f'{ld.fq} :: sections then leaf key', ok,
         c.where(ld.node, ld), '')
    leaf = [n for n in c.idx.walk(ld.node) if isinstance(n, ast.Assign)
            and norm(n.targets[0]) == 'dict_[cur_key]']
    c.ob('C22.key-codec', f'{ld.fq} :: dict_[cur_key] = value', len(leaf) == 1
         and norm(leaf[0].value) == 'value', c.where(ld.node, ld), '')
    del rec_

    # ---- sibling traversals visit every item (F4)
    n_first = 0
    for mod in (BM, BR):
        for f in c.idx.all_funcs():
            if f.mod != mod:
                continue
            for n in c.find(f, 'next(iter(_.items()))') + c.find(
                    f, 'list(_.items())[0]') + c.find(f, '_.popitem()'):
                n_first += 1
                c.ob('C22.all-leaves', c.key(n, f), False, c.where(n, f),
                     'takes only the first item of a nested settings dict: a '
                     'setting like {"environment": {"A": 1, "B": 2}} (or two '
                     'top-level keys) is persisted / reported only for its '
                     'first key, so the DB diverges from memory')
    c.ob('C22.all-leaves', 'broadcast modules :: no first-item-only '
         'traversal', n_first == 0, '', f'{n_first} site(s)')
    for f, what in ((ci, 'change iterator'),
                    (c.func(BM, 'BroadcastMgr._settings_to_keys_list'),
                     'key listing'),
                    (clr, 'clear'), (c.func(BM, 'BroadcastMgr._prune'),
                                     'prune'), (ad, 'apply (addict)')):
        nodes = list(c.idx.walk(f.node))
        for call in [x for x in nodes if isinstance(x, ast.Call)]:
            h = c.resolve_helper(call)
            if h is not None and h.mod == f.mod and h is not f:
                nodes += list(c.idx.walk(h.node))
        loops = [n for n in nodes if isinstance(n, ast.For)
                 and norm(n.iter).endswith('.items()')]
        c.ob('C22.all-leaves', f'{f.fq} :: {what} loops over .items()',
             bool(loops), c.where(f.node, f), '')
    # ---- cancel prunes queued inserts only on an exact match
    broadcast_prune_rules(c, 'C22')

    # ---- tidying up after a clear/expire removes only *emptied* entries
    # (None left by the clear, or a dict with nothing in it) -- never a
    # setting that is still set to a falsy value ('' / False / 0 / [])
    pr = c.func(BM, 'BroadcastMgr._prune')
    dels = [n for n in c.idx.walk(pr.node) if isinstance(n, ast.Delete)] + [
        n for n in c.calls(pr, 'pop') if isinstance(n.func, ast.Attribute)
        and norm(n.func.value) not in ('stuff_stack',)]
    c.floor('C22.prune-empty-only', 'deletions in _prune', len(dels), 1)
    from sa.pat import show_fact

    def empties(node):
        """{'None', '{}'} subsets a test node admits, or None."""
        if isinstance(node, ast.Compare) and len(node.ops) == 1:
            op, r = node.ops[0], node.comparators[0]
            if isinstance(op, ast.In) and isinstance(
                    r, (ast.List, ast.Tuple, ast.Set)):
                return {norm(e) for e in r.elts}
            if isinstance(op, ast.Is) and norm(r) == 'None':
                return {'None'}
            if isinstance(op, ast.Eq) and norm(r) in ('{}', 'None'):
                return {norm(r)}
        return None
    for d in dels:
        tgt = d.targets[0] if isinstance(d, ast.Delete) else d
        var = None
        # the loop variable holding the value of the entry being deleted
        cur = d
        while id(cur) in c.idx.parent:
            cur = c.idx.parent[id(cur)]
            if isinstance(cur, ast.For) and isinstance(
                    cur.target, ast.Tuple) and len(cur.target.elts) == 2 \
                    and norm(cur.iter).endswith('.items()'):
                var = norm(cur.target.elts[1])
                break
        ok = False
        why = 'no test of the entry value guards the deletion'
        for fact in c.facts(d, expand=False):
            leaves = [fact] if fact[0] == 'atom' else (
                fact[1] if fact[0] == 'or' else [])
            got = set()
            good = bool(leaves)
            for lf in leaves:
                e = empties(lf[1]) if lf[0] == 'atom' and lf[2] else None
                if e is None or var is None or norm(
                        lf[1].left) != var:
                    good = False
                    break
                got |= e
            if good and got <= {'None', '{}'}:
                ok = True
            elif fact[0] == 'atom' and var is not None and var in {
                    x.id for x in ast.walk(fact[1])
                    if isinstance(x, ast.Name)}:
                why = (f'deletion guarded by `{show_fact(fact)}`: a setting '
                       'whose value is falsy but set (\'\', False, 0, []) is '
                       'dropped from memory with no DB delete and no report')
        c.ob('C22.prune-empty-only', c.key(tgt, pr) + ' only for None / {}',
             ok, c.where(tgt, pr), 'value in {None, {}}' if ok else why)


VARIANTS = [
    ('addict-shares-new-sections', 'cylc/flow/broadcast_mgr.py',
     '''        if isinstance(val, dict):
            if key not in target:
                target[key] = {}
            addict(target[key], val)''',
     '''        if isinstance(val, dict) and key in target:
            addict(target[key], val)''', 'C22.no-alias'),
    ('no-db-on-clear', 'cylc/flow/broadcast_mgr.py',
     '        self.workflow_db_mgr.put_broadcast(modified_settings, is_cancel=True)\n',
     '        if modified_settings:\n            self.workflow_db_mgr.put_broadcast(modified_settings)\n',
     'C22.persist'),
    ('apply-unrecorded', 'cylc/flow/broadcast_mgr.py',
     '''                            modified_settings.append(
                                (point_string, namespace, setting)
                            )
''', '''                            if point_string != '*':
                                modified_settings.append(
                                    (point_string, namespace, setting)
                                )
''', 'C22.persist'),
    ('cycle-before-all', 'cylc/flow/broadcast_mgr.py',
     "        for cycle in ALL_CYCLE_POINTS_STRS + [tokens['cycle']]:",
     "        for cycle in [tokens['cycle']] + ALL_CYCLE_POINTS_STRS:",
     'C22.precedence'),
    ('task-before-root', 'cylc/flow/broadcast_mgr.py',
     '''            for namespace in reversed(
                    self.linearized_ancestors[tokens['task']]
            ):''', '''            for namespace in (
                    self.linearized_ancestors[tokens['task']]
            ):''', 'C22.precedence'),
    ('expire-le', 'cylc/flow/broadcast_mgr.py',
     '                        get_point(point_string) < cutoff_point):',
     '                        get_point(point_string) <= cutoff_point):',
     'C22.expiry'),
    ('expire-all-cycles', 'cylc/flow/broadcast_mgr.py',
     '''                        point_string not in ALL_CYCLE_POINTS_STRS and
                        get_point(point_string) < cutoff_point):''',
     '''                        get_point(point_string) < cutoff_point):''',
     'C22.expiry'),
    ('F4-regression', 'cylc/flow/broadcast_report.py',
     '''    for key, value in setting.items():
        if isinstance(value, dict):
            yield from _iter_leaves(value, keys_str + "[" + key + "]")
        else:
            yield keys_str + key, value''',
     '''    key, value = next(iter(setting.items()))
    if isinstance(value, dict):
        yield from _iter_leaves(value, keys_str + "[" + key + "]")
    else:
        yield keys_str + key, value''', 'C22.all-leaves'),
    ('insert-on-cancel', 'cylc/flow/workflow_db_mgr.py',
     '''            if is_cancel:
                self.db_deletes_map[self.TABLE_BROADCAST_STATES].append({''',
     '''            if not is_cancel:
                self.db_deletes_map[self.TABLE_BROADCAST_STATES].append({''',
     'C22.persist'),
    ('prune-on-any-match', 'cylc/flow/workflow_db_mgr.py',
     '''                    if any(insert[key] != broadcast_change[key]
                           for key in ["point", "namespace", "key"]):''',
     '''                    if not any(insert[key] == broadcast_change[key]
                               for key in ["point", "namespace", "key"]):''',
     'C22.broadcast-prune'),
    ('benign-prune-not-all', 'cylc/flow/workflow_db_mgr.py',
     '''                    if any(insert[key] != broadcast_change[key]
                           for key in ["point", "namespace", "key"]):''',
     '''                    if not all(insert[key] == broadcast_change[key]
                               for key in ("key", "point", "namespace")):''',
     None),
    ('prune-falsy', 'cylc/flow/broadcast_mgr.py',
     '                        if value in [None, {}]:',
     '                        if not value:', 'C22.prune-empty-only'),
    ('prune-all-leaves', 'cylc/flow/broadcast_mgr.py',
     '                        if value in [None, {}]:',
     '                        if value in [None, {}, ""]:',
     'C22.prune-empty-only'),
    ('benign-prune-spelling', 'cylc/flow/broadcast_mgr.py',
     '                        if value in [None, {}]:',
     '                        if value is None or value == {}:', None),
]

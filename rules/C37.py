"""C37 Template variables survive restart unchanged — codec and precedence."""
import ast

from sa.core import AnalysisError, norm
from sa import sqlmodel as sm

TECHNIQUE = ('static analysis: codec pairing on workflow_template_vars.value '
             '(repr writer vs literal_eval readers), guard of the restart '
             'precedence rule, presence of the start-up / reload writers and '
             'the restart reader, writer/schema/reader column agreement')

CLAUSES = (
    'Decided: template variables are written as repr(value) for every '
    'variable, at start-up and on reload; both readers decode with '
    'literal_eval (eval_var); on restart a stored variable is loaded only if '
    'the command line did not set that key; the restart path selects the '
    'table with the scheduler\'s loader; writer keys, schema and SELECT order '
    'agree; the executemany filter drops only the CYLC_TEMPLATE_VARS '
    'self-reference. Not decided: that every literal round-trips through '
    'repr/literal_eval (e.g. float inf).')


def check(c):
    w = c.func('workflow_db_mgr',
               'WorkflowDatabaseManager.put_workflow_template_vars')
    gens = [n for n in c.idx.walk(w.node) if isinstance(n, ast.GeneratorExp)]
    ok = False
    for g in gens:
        if isinstance(g.elt, ast.Dict):
            d = {k.value: norm(v) for k, v in zip(g.elt.keys, g.elt.values)
                 if isinstance(k, ast.Constant)}
            if d == {'key': 'key', 'value': 'repr(value)'} and norm(
                    g.generators[0].iter) == 'template_vars.items()' and \
                    not g.generators[0].ifs:
                ok = True
    c.ob('C37.codec', f'{w.fq} :: {{key, repr(value)}} for every variable',
         ok, c.where(w.node, w), '')
    ev = c.func('templatevars', 'eval_var')
    rets = [norm(r.value) for r in c.idx.walk(ev.node)
            if isinstance(r, ast.Return)]
    c.ob('C37.codec', f'{ev.fq} :: literal_eval(var)', rets ==
         ['literal_eval(var)'], c.where(ev.node, ev), str(rets))
    imp = c.idx.module('templatevars').imports.get('literal_eval')
    c.ob('C37.codec', 'templatevars: literal_eval is ast.literal_eval',
         imp == ('ast', 'literal_eval'), '', str(imp))
    ld = c.func('scheduler', 'Scheduler._load_template_vars')
    sets = [n for n in c.idx.walk(ld.node) if isinstance(n, ast.Assign)
            and norm(n.targets[0]) == 'self.template_vars[key]']
    c.exactly('C37.codec', 'restart load store', len(sets), 1)
    for n in sets:
        c.ob('C37.codec', c.key(n, ld) + ' decoded with eval_var',
             norm(n.value) == 'eval_var(value)', c.where(n, ld), '')
        c.guard('C37.precedence', n, ['!(key in self.template_vars)'], ld,
                what='command line wins;')
        c.guard_only('C37.precedence', n, ['!(key in self.template_vars)'],
                     ld)
    un = [n for n in c.idx.walk(ld.node) if isinstance(n, ast.Assign)
          and norm(n.value) == 'row']
    c.ob('C37.codec', f'{ld.fq} :: key, value = row', len(un) == 1 and [
        norm(e) for e in un[0].targets[0].elts] == ['key', 'value'],
        c.where(ld.node, ld), '')
    gt = c.func('templatevars', 'get_template_vars_from_db')
    # the row callback stores row[0] -> eval_var(row[1]): a lambda calling
    # __setitem__, or a local function with the item assignment
    lam = [n for n in c.idx.walk(gt.node) if isinstance(n, ast.Lambda)]
    ok = any(norm(x.body) ==
             'template_vars.__setitem__(row[0], eval_var(row[1]))'
             for x in lam)
    for fn in [n for n in c.idx.walk(gt.node) if isinstance(
            n, ast.FunctionDef) and n is not gt.node]:
        used = any(isinstance(x, ast.Call) and norm(x.func).endswith(
            'select_workflow_template_vars') and any(
            norm(a) == fn.name for a in x.args)
            for x in c.idx.walk(gt.node))
        rowv = fn.args.args[-1].arg if fn.args.args else None
        body = [s for s in fn.body if not (isinstance(s, ast.Expr) and
                                           isinstance(s.value, ast.Constant))]
        if used and rowv and len(body) == 1 and isinstance(
                body[0], ast.Assign) and norm(body[0].targets[0]) == \
                f'template_vars[{rowv}[0]]' and norm(body[0].value) == \
                f'eval_var({rowv}[1])':
            ok = True
    c.ob('C37.codec', f'{gt.fq} :: row[0] -> eval_var(row[1])', ok,
         c.where(gt.node, gt), '')
    # column agreement
    schema = sm.schema(c)
    t = sm.tables(c).get('TABLE_WORKFLOW_TEMPLATE_VARS')
    c.ob('C37.columns', 'rundb: workflow_template_vars columns = key, value',
         schema.get(t) == ['key', 'value'], '', str(schema.get(t)))
    dao = c.idx.cls('CylcWorkflowDAO', 'rundb')
    sel = dao.methods['select_workflow_template_vars']
    cols = [col for _t, col, _r in sm.select_columns(sm.statement(c, sel))]
    c.ob('C37.columns', f'{sel.fq} :: SELECT key, value', cols ==
         ['key', 'value'], c.where(sel.node, sel), str(cols))
    # start-up, reload, restart wiring
    cf = c.func('scheduler', 'Scheduler.configure')
    c.floor('C37.wiring', 'written at start-up', len(c.find(
        cf, 'self.workflow_db_mgr.put_workflow_template_vars('
        'self.template_vars)')), 1)
    rl = c.func('commands', 'reload_workflow')
    c.floor('C37.wiring', 'written on reload', len(c.find(
        rl, 'schd.workflow_db_mgr.put_workflow_template_vars('
        'schd.template_vars)')), 1)
    rd = c.find('scheduler', 'pri_dao.select_workflow_template_vars('
                'self._load_template_vars)')
    c.floor('C37.wiring', 'read on restart', len(rd), 1)
    for n in rd:
        f = c.owner(n)
        callers = c.find('scheduler', f'self.{f.name}()')
        c.floor('C37.wiring', f'{f.name}() called', len(callers), 1)
        for cl in callers:
            c.guard('C37.wiring', cl, ['self.is_restart'], c.owner(cl),
                    what='guard supplied by the caller;')
    # the executemany filter
    es = c.func('rundb', 'CylcWorkflowDAO._execute_stmt')
    flt = [n for n in c.idx.walk(es.node) if isinstance(n, ast.ListComp)]
    # (whatever the comprehension variable is called)
    ok = any(len(n.generators) == 1 and norm(n.elt) == norm(
        n.generators[0].target) and [norm(i) for i in n.generators[0].ifs] ==
        [f"{norm(n.generators[0].target)}[0] != 'CYLC_TEMPLATE_VARS'"]
        for n in flt)
    c.ob('C37.filter', f'{es.fq} :: drops only the CYLC_TEMPLATE_VARS row',
         ok, c.where(es.node, es), '')


VARIANTS = [
    ('str-instead-of-repr', 'cylc/flow/workflow_db_mgr.py',
     '            {"key": key, "value": repr(value)}',
     '            {"key": key, "value": str(value)}', 'C37.codec'),
    ('db-overrides-cli', 'cylc/flow/scheduler.py',
     '''        if key not in self.template_vars:
            self.template_vars[key] = eval_var(value)''',
     '''        self.template_vars[key] = eval_var(value)''',
     'C37.precedence'),
    ('raw-load', 'cylc/flow/scheduler.py',
     '            self.template_vars[key] = eval_var(value)',
     '            self.template_vars[key] = value', 'C37.codec'),
    ('no-reload-write', 'cylc/flow/commands.py',
     '        schd.workflow_db_mgr.put_workflow_template_vars(schd.template_vars)\n',
     '', 'C37.wiring'),
    ('skip-false-values', 'cylc/flow/workflow_db_mgr.py',
     '            for key, value in template_vars.items()\n        )',
     '            for key, value in template_vars.items() if value\n        )',
     'C37.codec'),
    ('filter-all-cylc', 'cylc/flow/rundb.py',
     "                i for i in stmt_args_list if i[0] != 'CYLC_TEMPLATE_VARS'",
     "                i for i in stmt_args_list if not str(i[0]).startswith('CYLC_')",
     'C37.filter'),
]

"""C43 Stop point, stop task and stop modes behave as documented."""
import ast

from sa.core import AnalysisError, norm
from sa.pat import AnyOf, StatusCovers
from rules._shared import (
    params_rewrite, check_rewrite_key, stop_point_limit_rules)

TECHNIQUE = ('static analysis: guard atoms and CFG dominance / post-dominance '
             'in the stop command, the stop-point/stop-task setters and the '
             'shutdown decision (finite case split of can_stop over the stop '
             'modes), who-may-call allow-lists of the stop persistence '
             'writers, restore-chain presence, table-rewrite completeness')

CLAUSES = (
    'Decided: the stop command applies a cycle point through '
    'TaskPool.set_stop_point and, when it changed, records it in '
    'options/config and the DB; set_stop_point stores the point on every '
    'path that reports a change and lowers the runahead limit to it; the '
    'runahead limit is clamped to the stop point and only tasks within it are '
    'released (shared with C07); the stored stop point is cleared only by '
    'check_auto_shutdown when it reports that nothing is left to run (no '
    'preparing/submitted/running or released waiting task) and is otherwise '
    're-inserted by the table rewrite and restored on restart; the stop task '
    'is persisted when set, flagged finished only for the task whose identity '
    'matches once it is final, cleared (in memory and DB) when reported '
    'done, re-inserted by the rewrite from live state and re-applied on '
    'restart; can_stop: no mode => False, NOW-NOW => True before anything '
    'else, pending event timers block every other mode, an active task that '
    'is not kill-failed blocks exactly the CLEAN and KILL modes (so NOW '
    'leaves jobs running); new job submission and queue release are refused '
    'once a stop mode is set; jobs are killed on shutdown only in KILL mode. '
    'Not decided: behaviour over request times and restarts as a whole.')

S = 'scheduler'
TP = 'task_pool'
WDM = 'workflow_db_mgr'


def _returns(c, f, text=None):
    out = [r for r in c.idx.walk(f.node) if isinstance(r, ast.Return)
           and c.owner(r) is f]
    if text is not None:
        out = [r for r in out if r.value is not None
               and norm(r.value) == text]
    return out


def check(c):
    # ---- (1) the stop command, cycle-point branch
    stop = c.func('commands', 'stop')
    ssp = c.find(stop, 'schd.pool.set_stop_point(_)')
    c.exactly('C43.command', 'pool.set_stop_point in commands.stop',
              len(ssp), 1)
    for n in ssp:
        c.guard('C43.command', n, ['cycle_point is not None'], stop)
        c.guard_only('C43.command', n, [
            'cycle_point is not None', 'point is not None', '!flow_num'],
            stop)
    rec = c.find(stop, 'schd.workflow_db_mgr.put_workflow_stop_cycle_point(_)')
    c.exactly('C43.command', 'put_workflow_stop_cycle_point in commands.stop',
              len(rec), 1)
    for n in rec:
        c.guard('C43.command', n, ['schd.pool.set_stop_point(point)'], stop)
        c.guard_only('C43.command', n, [
            'cycle_point is not None', 'point is not None', '!flow_num',
            'schd.pool.set_stop_point(point)'], stop)
        c.ob('C43.command', c.key(n, stop) + ' records the new point',
             norm(n.args[0]) in ('schd.options.stopcp', 'str(point)'),
             c.where(n, stop), norm(n.args[0]))
        c.pre('C43.command', stop, n,
              c.assigns('schd.options.stopcp', 'str(point)'),
              'options.stopcp = str(point)')
        c.pre('C43.command', stop, n,
              c.assigns('schd.config.stop_point', 'point'),
              'config.stop_point = point')
    st = c.find(stop, 'schd.pool.set_stop_task(_)')
    c.exactly('C43.command', 'pool.set_stop_task in commands.stop',
              len(st), 1)
    for n in st:
        c.guard('C43.command', n, ['task is not None'], stop)
    ss = c.find(stop, 'schd._set_stop(mode)')
    c.exactly('C43.command', '_set_stop(mode) in commands.stop', len(ss), 1)
    for n in ss:
        c.guard('C43.command', n, [
            '!(cycle_point is not None)', '!(clock_time is not None)',
            '!(task is not None)'], stop)
    # `mode = StopMode(mode.value) if mode else StopMode.REQUEST_CLEAN` (seen
    # in its canonical if/else spelling): absent mode => clean stop
    dflt = [n for n in c.idx.walk(stop.node) if isinstance(n, ast.Assign)
            and norm(n.targets[0]) == 'mode']
    c.floor('C43.command', 'mode default', len(dflt), 2)
    absent = [n for n in dflt if c.holds(n, '!mode')]
    c.floor('C43.command', 'mode assignment when no mode was given',
            len(absent), 1)
    for n in absent:
        c.ob('C43.command', c.key(n, stop) + ' defaults to a clean stop',
             norm(n.value) == 'StopMode.REQUEST_CLEAN', c.where(n, stop),
             norm(n.value))
    for n in dflt:
        if n in absent:
            continue
        c.ob('C43.command', c.key(n, stop) + ' keeps the requested mode',
             norm(n.value) == 'StopMode(mode.value)' and c.holds(n, 'mode'),
             c.where(n, stop), norm(n.value))

    # ---- (2) set_stop_point
    sp = c.func(TP, 'TaskPool.set_stop_point')
    falses = _returns(c, sp, 'False')
    trues = _returns(c, sp, 'True')
    c.floor('C43.set-point', 'return True of set_stop_point', len(trues), 1)
    for r in falses:
        c.guard('C43.set-point', r, ['self.stop_point == stop_point'], sp,
                what='unchanged is reported only when unchanged;')
    for r in trues:
        c.pre('C43.set-point', sp, r,
              c.assigns('self.stop_point', 'stop_point'),
              'self.stop_point = stop_point')
    low = [s for s in c.stores(sp, 'runahead_limit_point')]
    c.floor('C43.set-point', 'runahead limit lowered', len(low), 1)
    for s in low:
        c.ob('C43.set-point', c.key(s.node, sp) + ' lowered to the stop '
             'point', norm(s.value) == 'stop_point', c.where(s.node, sp), '')
        c.guard('C43.set-point', s.node, [
            'stop_point < self.runahead_limit_point'], sp)
    ra = c.find(sp, 'itask.state_reset(is_runahead=True)')
    c.floor('C43.set-point', 'waiting tasks beyond the new stop point '
            'runahead-limited', len(ra), 1)
    stop_point_limit_rules(c, 'C43')

    # ---- (3) forgetting / keeping the stop point
    cas = c.func(S, 'Scheduler.check_auto_shutdown')
    c.who_calls('C43.forget', 'put_workflow_stop_cycle_point', {
        'commands:stop': ['schd.pool.set_stop_point(point)'],
        f'{S}:Scheduler.check_auto_shutdown': ['self.pool.stop_point'],
    }, floor=2)
    fg = c.find(cas, 'self.workflow_db_mgr.put_workflow_stop_cycle_point(None)')
    c.exactly('C43.forget', 'put_workflow_stop_cycle_point(None)', len(fg), 1)
    cfg = c.cfg(cas)
    ctrue = _returns(c, cas, 'True')
    c.floor('C43.forget', 'return True of check_auto_shutdown', len(ctrue), 1)
    for n in fg:
        c.guard('C43.forget', n, ['self.pool.stop_point'], cas)
        # forgotten only when the function goes on to report "shut down"
        ok = c.cfg(cas).postdominated_by(
            c.idx.stmt_of(n), lambda s: any(s is r for r in ctrue))
        c.ob('C43.forget', c.key(n, cas) + ' only on the way to return True',
             ok, c.where(n, cas), '' if ok else 'the stored stop point can be '
             'cleared on a path that does not shut down: it would not survive '
             'a restart')
    for r in ctrue:
        neg = [n for n in c.idx.walk(cas.node) if c.any_condition(n)
               and norm(c.any_condition(n)[1]) == 'self.pool.get_tasks()']
        c.floor('C43.forget', 'any(...) over pool tasks', len(neg), 1)
        for a in neg:
            cond = c.any_condition(a)[0]
            ok1 = c.case_covered(cond, [StatusCovers(
                'preparing', 'submitted', 'running')], r)
            ok2 = c.case_covered(cond, [
                StatusCovers('waiting'), '!_.state.is_runahead'], r)
            c.ob('C43.forget', f'{cas.fq} :: active or released waiting '
                 'tasks block the auto shutdown', ok1 and ok2,
                 c.where(cond, cas), norm(cond)[:160])
            blk = c.idx.stmt_of(a)
            c.ob('C43.forget', c.key(r, cas) + ' after the remaining-task '
                 'test', cfg.dominated_by(r, lambda s, b=blk: s is b),
                 c.where(r, cas), '')
    wipe, single, rewrite = params_rewrite(c)
    for k in ('KEY_STOP_CYCLE_POINT', 'KEY_STOP_TASK', 'KEY_STOP_CLOCK_TIME'):
        c.ob('C43.rewrite-complete', f'{WDM}: {k} has a single-key writer',
             k in single, '', '')
        check_rewrite_key(c, 'C43.rewrite-complete', k, wipe, single, rewrite)
    swp = c.func(S, 'Scheduler._set_workflow_params')
    for tgt, key in (('self.options.stopcp', 'KEY_STOP_CYCLE_POINT'),
                     ('self.restored_stop_task_id', 'KEY_STOP_TASK'),
                     ('self.stop_clock_time', 'KEY_STOP_CLOCK_TIME')):
        hs = [n for n in c.idx.walk(swp.node) if isinstance(n, ast.Assign)
              and norm(n.targets[0]) == tgt]
        c.floor('C43.restore', f'{tgt} restored', len(hs), 1)
        for n in hs:
            c.guard('C43.restore', n, [
                f'key == self.workflow_db_mgr.{key}'], swp)
            c.ob('C43.restore', c.key(n, swp) + ' takes the stored value',
                 norm(n.value) in ('value', 'int_val'), c.where(n, swp), '')
    for n in [n for n in c.idx.walk(swp.node) if isinstance(n, ast.Assign)
              and norm(n.targets[0]) == 'self.options.stopcp']:
        c.guard_only('C43.restore', n, [
            'key == self.workflow_db_mgr.KEY_STOP_CYCLE_POINT',
            'self.options.stopcp is None', 'self.is_restart',
            "self.options.stopcp == 'reload'", 'value is not None',
            '!(key == _)', '!(key in _)'], swp)
    pc = c.func('config', 'WorkflowConfig.process_stop_cycle_point')
    src = [n for n in c.idx.walk(pc.node)
           if norm(n) == "getattr(self.options, 'stopcp', None)"]
    c.floor('C43.restore', 'config stop point read from options.stopcp',
            len(src), 1)
    cf = c.func(S, 'Scheduler.configure')
    rs = c.find(cf, 'self.pool.set_stop_task(self.restored_stop_task_id)')
    c.exactly('C43.restore', 'restored stop task re-applied', len(rs), 1)
    for n in rs:
        c.guard_only('C43.restore', n, [
            'self.is_restart', 'self.restored_stop_task_id is not None'], cf)

    # ---- (4) stop task
    sst = c.func(TP, 'TaskPool.set_stop_task')
    ids = [s for s in c.stores(sst, 'stop_task_id')]
    c.floor('C43.stop-task', 'stop_task_id store in set_stop_task',
            len(ids), 1)
    for s in ids:
        c.post('C43.stop-task', sst, s.node, c.matches(
            f'self.workflow_db_mgr.put_workflow_stop_task({norm(s.value)})'),
            'put_workflow_stop_task')
        c.post('C43.stop-task', sst, s.node, c.assigns(
            'self.stop_task_finished', 'False'), 'finished flag reset')
    fin = [s for s in c.stores(None, 'stop_task_finished')
           if norm(s.value) == 'True']
    c.floor('C43.stop-task', 'stop_task_finished = True', len(fin), 1)
    for s in fin:
        f = c.owner(s.node)
        c.ob('C43.stop-task', c.key(s.node, f) + ' in '
             'TaskPool.remove_if_complete',
             f is not None and f.fq == f'{TP}:TaskPool.remove_if_complete',
             c.where(s.node, f), '')
        c.guard('C43.stop-task', s.node, [
            'itask.identity == self.stop_task_id',
            StatusCovers('succeeded')], f,
            what='only the stop task itself, once final;')
        c.guard_only('C43.stop-task', s.node, [
            'itask.identity == self.stop_task_id',
            AnyOf("itask.state('failed', 'succeeded', 'expired', "
                  "'submit-failed')", 'itask.state(*TASK_STATUSES_FINAL)')],
            f)
    std = c.func(TP, 'TaskPool.stop_task_done')
    for r in _returns(c, std, 'True'):
        c.guard('C43.stop-task', r, [
            'self.stop_task_id is not None', 'self.stop_task_finished'], std)
        c.pre('C43.stop-task', std, r, c.assigns('self.stop_task_id', 'None'),
              'stop task forgotten in memory')
        c.pre('C43.stop-task', std, r, c.matches(
            'self.workflow_db_mgr.put_workflow_stop_task(None)'),
            'stop task forgotten in the DB')
    c.floor('C43.stop-task', 'return True of stop_task_done',
            len(_returns(c, std, 'True')), 1)
    c.who_calls('C43.stop-task', 'put_workflow_stop_task', {
        f'{TP}:TaskPool.set_stop_task': [],
        f'{TP}:TaskPool.stop_task_done': [
            'self.stop_task_id is not None', 'self.stop_task_finished'],
    }, floor=2)
    ws = c.func(S, 'Scheduler.workflow_shutdown')
    autos = c.find(ws, 'self._set_stop(StopMode.AUTO)')
    c.exactly('C43.auto', '_set_stop(StopMode.AUTO)', len(autos), 1)
    for a in autos:
        par = c.idx.parent[id(c.idx.stmt_of(a))]
        # `if self.stop_mode is None and (A or B or C)`: each of the three
        # triggers alone suffices
        alts = set()
        if isinstance(par, ast.If) and isinstance(par.test, ast.BoolOp) \
                and isinstance(par.test.op, ast.And):
            rest = [v for v in par.test.values
                    if norm(v) != 'self.stop_mode is None']
            if len(rest) == 1 and isinstance(rest[0], ast.BoolOp) and \
                    isinstance(rest[0].op, ast.Or):
                alts = {norm(v) for v in rest[0].values}
            elif len(rest) == 1:
                alts = {norm(rest[0])}
        for case in ('self.pool.stop_task_done()',
                     'self.check_auto_shutdown()', 'self.stop_clock_done()'):
            c.ob('C43.auto', c.key(a, ws) + f' whenever {case}',
                 case in alts, c.where(a, ws), f'triggers: {sorted(alts)}')
        c.guard('C43.auto', a, ['self.stop_mode is None'], ws,
                what='an explicit stop request is never downgraded;')

    # ---- (5) can_stop over the stop modes
    cs = c.func(TP, 'TaskPool.can_stop')
    rets = _returns(c, cs)
    r_false = [r for r in rets if norm(r.value) == 'False']
    r_true = [r for r in rets if norm(r.value) == 'True']
    # (canonical spelling: `return not any(...)` is seen as
    #  `if any(...): return False` + `return True`)
    other = [r for r in rets if r not in r_false and r not in r_true]
    c.ob('C43.can-stop', f'{cs.fq} :: every return is True or False',
         not other, c.where(cs.node, cs), str([norm(r.value) for r in other]))
    cfgs = c.cfg(cs)
    anys = [n for n in c.idx.walk(cs.node) if c.any_condition(n) is not None
            and norm(c.any_condition(n)[1]) == 'self.get_tasks()']
    c.exactly('C43.can-stop', 'any(... for itask in self.get_tasks())',
              len(anys), 1)

    def blocked_by_jobs(r):
        return any(fa[0] == 'atom' and fa[2] and any(fa[1] is a for a in anys)
                   for fa in c.facts(r, expand=False))

    def free_of_jobs(r):
        return any(fa[0] == 'atom' and not fa[2] and any(
            fa[1] is a for a in anys) for fa in c.facts(r, expand=False))
    now_now = [r for r in r_true if c.holds(
        r, 'stop_mode == StopMode.REQUEST_NOW_NOW')]
    final = [r for r in r_true if r not in now_now]
    c.floor('C43.can-stop', 'return True (NOW-NOW)', len(now_now), 1)
    c.exactly('C43.can-stop', 'return True when nothing blocks', len(final),
              1)
    for r in now_now:
        c.guard_only('C43.can-stop', r, [
            'stop_mode == StopMode.REQUEST_NOW_NOW',
            '!(stop_mode is None)'], cs,
            what='NOW-NOW stops regardless of timers and jobs;')
    none_f = [r for r in r_false if c.holds(r, 'stop_mode is None')]
    c.floor('C43.can-stop', 'return False when no stop mode', len(none_f), 1)
    for r in r_false:
        ok = c.holds(r, AnyOf('stop_mode is None',
                              'self.task_events_mgr._event_timers')) or \
            blocked_by_jobs(r)
        c.ob('C43.can-stop', c.key(r, cs) + ' only for: no mode, pending '
             'event timers, or a blocking active task', ok, c.where(r, cs), '')
    for r in final:
        for nf_ in none_f:
            c.ob('C43.can-stop', c.key(r, cs) + ' after the no-mode test',
                 cfgs.dominated_by(r, lambda s, b=c.idx.parent[id(nf_)]:
                                   s is b), c.where(r, cs), '')
        c.guard('C43.can-stop', r, [
            '!self.task_events_mgr._event_timers'], cs,
            what='pending event handlers block the stop;')
        c.ob('C43.can-stop', c.key(r, cs) + ' only when no active task '
             'blocks', free_of_jobs(r), c.where(r, cs), '')
    for a in anys:
        cond = c.any_condition(a)[0]
        # the modes that wait for jobs
        modes = None
        for n in ast.walk(cond):
            if isinstance(n, ast.Compare) and norm(n.left) == 'stop_mode' \
                    and len(n.ops) == 1 and isinstance(n.ops[0], ast.In) \
                    and isinstance(n.comparators[0],
                                   (ast.List, ast.Tuple, ast.Set)):
                modes = {norm(e) for e in n.comparators[0].elts}
        want = {'StopMode.REQUEST_CLEAN', 'StopMode.REQUEST_KILL'}
        c.ob('C43.can-stop', f'{cs.fq} :: the modes that wait for active '
             'jobs', modes == want, c.where(cond, cs),
             f'{sorted(modes) if modes else modes}' + (
                 '' if modes == want else ' — expected exactly '
                 f'{sorted(want)}: a clean/kill stop must wait for active '
                 'jobs and stop --now must not'))
        ok = c.case_covered(cond, [
            'stop_mode in _', StatusCovers('submitted', 'running'),
            '!_.state.kill_failed'], a)
        c.ob('C43.can-stop', f'{cs.fq} :: an active, not kill-failed task '
             'blocks a clean/kill stop', ok, c.where(cond, cs),
             norm(cond)[:160])
    # the decision is what gates shutdown
    gate = c.find(ws, 'self.pool.can_stop(self.stop_mode)')
    c.exactly('C43.can-stop', 'can_stop(self.stop_mode) in workflow_shutdown',
              len(gate), 1)
    raises = [n for n in c.idx.walk(ws.node) if isinstance(n, ast.Raise)
              and n.exc is not None and 'self.stop_mode.value' in norm(n.exc)]
    c.floor('C43.can-stop', 'shutdown raises', len(raises), 2)
    for n in raises:
        c.guard('C43.can-stop', n, ['self.pool.can_stop(self.stop_mode)'],
                ws, what='the scheduler only stops when can_stop agrees;')

    # ---- (6) nothing new is submitted once stopping; kill only in KILL mode
    sj = c.func(S, 'Scheduler.start_job_submission')
    c.who_calls('C43.no-submit', 'submit_task_jobs', {
        f'{S}:Scheduler.start_job_submission': ['self.stop_mode is None'],
        f'{S}:Scheduler.submit_task_jobs': [],
    }, floor=2)
    c.funcs_seen.add(sj.fq)
    rq = c.func(S, 'Scheduler.release_tasks_to_run')
    rel = c.find(rq, 'self.pool.release_queued_tasks()')
    c.floor('C43.no-submit', 'release_queued_tasks', len(rel), 1)
    for n in rel:
        c.guard('C43.no-submit', n, ['!self.stop_mode'], rq)
    setk = [s for s in c.stores('commands', 'time_next_kill')]
    c.floor('C43.kill', 'time_next_kill set by the stop command',
            len(setk), 1)
    for s in setk:
        f = c.owner(s.node)
        c.guard('C43.kill', s.node, ['mode is StopMode.REQUEST_KILL'], f,
                what='jobs are killed only by stop --kill;')
    for s in c.stores(S, 'time_next_kill'):
        f = c.owner(s.node)
        if f is None:
            c.ob('C43.kill', 'scheduler:Scheduler.time_next_kill default',
                 norm(s.value) == 'None', c.where(s.node), norm(s.value))
            continue
        c.guard('C43.kill', s.node, ['self.time_next_kill is not None'], f)
    kills = c.find(ws, 'self.kill_tasks(*_)')
    c.floor('C43.kill', 'kill_tasks in workflow_shutdown', len(kills), 1)
    for n in kills:
        c.guard('C43.kill', n, ['self.time_next_kill is not None'], ws)


VARIANTS = [
    ('persist-unchanged-only', 'cylc/flow/commands.py',
     '        if point is not None and schd.pool.set_stop_point(point):',
     '        if point is not None and not schd.pool.set_stop_point(point):',
     'C43.command'),
    ('no-persist-stopcp', 'cylc/flow/commands.py',
     '''            schd.workflow_db_mgr.put_workflow_stop_cycle_point(
                schd.options.stopcp
            )
''', '', 'C43.command'),
    ('set-point-no-store', 'cylc/flow/task_pool.py',
     '''        LOG.info(f"Setting stop point: {stop_point}")
        self.stop_point = stop_point
''', '''        LOG.info(f"Setting stop point: {stop_point}")
''', 'C43.set-point'),
    ('forget-always', 'cylc/flow/scheduler.py',
     '''            any(
                itask for itask in self.pool.get_tasks()
                if itask.state(
                    TASK_STATUS_PREPARING,''',
     '''            self.workflow_db_mgr.put_workflow_stop_cycle_point(None) or
            any(
                itask for itask in self.pool.get_tasks()
                if itask.state(
                    TASK_STATUS_PREPARING,''', 'C43.forget'),
    ('shutdown-ignores-waiting', 'cylc/flow/scheduler.py',
     '''                ) or (
                    # This is because runahead limit gets truncated
                    # to stop_point if there is one, so tasks spawned
                    # beyond the stop_point must be runahead limited.
                    itask.state(TASK_STATUS_WAITING)
                    and not itask.state.is_runahead
                )
''', '''                )
''', 'C43.forget'),
    ('stop-task-any-task', 'cylc/flow/task_pool.py',
     '''        if itask.identity == self.stop_task_id:
            self.stop_task_finished = True''',
     '''        if itask.tdef.name in (self.stop_task_id or ''):
            self.stop_task_finished = True''', 'C43.stop-task'),
    ('stop-task-not-persisted', 'cylc/flow/task_pool.py',
     '            self.workflow_db_mgr.put_workflow_stop_task(task_id)\n',
     '', 'C43.stop-task'),
    ('stop-task-kept-in-db', 'cylc/flow/task_pool.py',
     '            self.workflow_db_mgr.put_workflow_stop_task(None)\n',
     '', 'C43.stop-task'),
    ('now-waits', 'cylc/flow/task_pool.py',
     'stop_mode in [StopMode.REQUEST_CLEAN, StopMode.REQUEST_KILL]',
     'stop_mode in [StopMode.REQUEST_CLEAN, StopMode.REQUEST_KILL, '
     'StopMode.REQUEST_NOW]', 'C43.can-stop'),
    ('clean-does-not-wait', 'cylc/flow/task_pool.py',
     'stop_mode in [StopMode.REQUEST_CLEAN, StopMode.REQUEST_KILL]',
     'stop_mode in [StopMode.REQUEST_KILL]', 'C43.can-stop'),
    ('nownow-waits-timers', 'cylc/flow/task_pool.py',
     '''        if stop_mode == StopMode.REQUEST_NOW_NOW:
            return True
        if self.task_events_mgr._event_timers:
            return False
''', '''        if self.task_events_mgr._event_timers:
            return False
        if stop_mode == StopMode.REQUEST_NOW_NOW:
            return True
''', 'C43.can-stop'),
    ('submit-while-stopping', 'cylc/flow/scheduler.py',
     '''        if self.stop_mode is not None:
            return False

        self.is_updated = True''',
     '''        if self.stop_mode == StopMode.REQUEST_NOW_NOW:
            return False

        self.is_updated = True''', 'C43.no-submit'),
    ('kill-on-clean', 'cylc/flow/commands.py',
     '        if mode is StopMode.REQUEST_KILL:\n',
     '        if mode is not StopMode.REQUEST_NOW:\n', 'C43.kill'),
    ('auto-overrides-request', 'cylc/flow/scheduler.py',
     '''        if self.stop_mode is None and (
            self.stop_clock_done() or''',
     '''        if (
            self.stop_clock_done() or''', 'C43.auto'),
    ('F6-regression-stoptask', 'cylc/flow/workflow_db_mgr.py',
     '{"key": self.KEY_STOP_TASK, "value": schd.pool.stop_task_id},',
     '{"key": self.KEY_STOP_TASK, "value": schd.stop_task},',
     'C43.rewrite-complete'),
    ('restore-stoptask-dropped', 'cylc/flow/scheduler.py',
     '''            if self.restored_stop_task_id is not None:
                self.pool.set_stop_task(self.restored_stop_task_id)
''', '', 'C43.restore'),
    ('benign-command-str', 'cylc/flow/commands.py',
     '''            schd.workflow_db_mgr.put_workflow_stop_cycle_point(
                schd.options.stopcp
            )''',
     '''            schd.workflow_db_mgr.put_workflow_stop_cycle_point(
                str(point)
            )''', None),
]

"""C41 Literal task environment values reach the job unchanged."""
import ast

from sa.core import AnalysisError, norm

TECHNIQUE = ('static analysis: iteration-order preservation (the environment '
             'mapping is iterated directly, unsorted, for both the export list '
             'and the definitions; exports precede definitions via CFG), '
             'return-shape check of the value quoter (every non-tilde branch '
             'returns a double-quoted form)')

CLAUSES = (
    'Decided: the job file writer iterates the configured environment mapping '
    'directly (no sorted / set / reversed) for the export line and for the '
    'definitions, writes the export list before the definitions, writes one '
    '`NAME=value` line per variable from the quoter\'s result; every branch '
    'of the quoter other than the leading-tilde forms returns the value '
    'inside double quotes, and the tilde forms quote the part after the first '
    'slash. the environment filter fills the filtered mapping in the order of '
    'the [environment] section. Not decided: value fidelity under bash word expansion (needs a '
    'shell).')

JF = 'job_file'


def check(c):
    w = c.func(JF, 'JobFileWriter._write_runtime_environment')
    loops = [n for n in c.idx.walk(w.node) if isinstance(n, ast.For)]
    c.exactly('C41.order', 'loops over the environment', len(loops), 2)
    exp = defs = None
    for lp in loops:
        it = norm(lp.iter)
        ok = it in ("job_conf['environment']",
                    "job_conf['environment'].items()")
        c.ob('C41.order', c.key(lp, w) + ' iterates the mapping in '
             'configuration order', ok, c.where(lp, w),
             it + ('' if ok else ' — reordered / filtered iteration'))
        if it.endswith('.items()'):
            defs = lp
        else:
            exp = lp
    if exp is not None and defs is not None:
        ok = c.cfg(w).path_exists(exp, defs) and not c.cfg(w).path_exists(
            defs, exp)
        c.ob('C41.order', f'{w.fq} :: export list before the definitions', ok,
             c.where(w.node, w), '')
        ew = c.find(exp, "handle.write(f' {var}')")
        c.ob('C41.order', f'{w.fq} :: every variable exported',
             len(ew) == 1 and not [x for x in ast.walk(exp)
                                   if isinstance(x, (ast.If, ast.Continue))],
             c.where(exp, w), '')
        dw = c.find(defs, "handle.write(f'\\n    {var}={value}')")
        c.ob('C41.definition', f'{w.fq} :: one NAME=value line per variable',
             len(dw) == 1 and not [x for x in ast.walk(defs) if isinstance(
                 x, (ast.If, ast.Continue, ast.Break))], c.where(defs, w), '')
        val = [n for n in ast.walk(defs) if isinstance(n, ast.Assign)
               and norm(n.targets[0]) == 'value']
        ok = len(val) == 1 and c.find(
            val[0].value, "JobFileWriter._get_variable_value_definition("
            "str(val), job_conf.get('param_var', {}))") != []
        c.ob('C41.definition', f'{w.fq} :: value from the quoter on str(val)',
             ok, c.where(defs, w), '')
    # ---- the environment filter keeps the configured order: the filtered
    # mapping is filled by iterating the task's [environment] itself (the
    # include list only selects), into an ordered mapping
    fe = c.func('config', 'WorkflowConfig.filter_env')
    fills = [n for n in c.idx.walk(fe.node) if isinstance(n, ast.Assign)
             and isinstance(n.targets[0], ast.Subscript)
             and norm(n.targets[0].value) == 'nenv']
    c.floor('C41.order', f'{fe.fq} :: filtered environment filled',
            len(fills), 1)
    for n in fills:
        lp = n
        while id(lp) in c.idx.parent and not isinstance(lp, ast.For):
            lp = c.idx.parent[id(lp)]
        it = norm(lp.iter) if isinstance(lp, ast.For) else ''
        ok = it in ('oenv.items()', 'oenv', 'oenv.keys()')
        c.ob('C41.order', c.key(n, fe) + ' in the order of the [environment] '
             'section', ok, c.where(n, fe), it + ('' if ok else ' — the '
             'filtered variables are defined in another order (a later '
             'value may refer to an earlier one)'))
    ne = [n for n in c.idx.walk(fe.node) if isinstance(n, ast.Assign)
          and norm(n.targets[0]) == 'nenv']
    c.ob('C41.order', f'{fe.fq} :: filtered environment is an ordered '
         'mapping', len(ne) == 1 and norm(ne[0].value) in (
             'OrderedDictWithDefaults()', '{}', 'dict()', 'OrderedDict()'),
         c.where(fe.node, fe), '')
    st = [n for n in c.idx.walk(fe.node) if isinstance(n, ast.Assign)
          and norm(n.targets[0]) == "ns['environment']"]
    c.ob('C41.order', f"{fe.fq} :: ns['environment'] = nenv", len(st) == 1
         and norm(st[0].value) == 'nenv', c.where(fe.node, fe), '')
    # ---- quoter
    q = c.func(JF, 'JobFileWriter._get_variable_value_definition')
    rets = [r for r in c.idx.walk(q.node) if isinstance(r, ast.Return)]
    c.floor('C41.quoting', 'returns in the quoter', len(rets), 3)
    n_plain = 0
    for r in rets:
        v = norm(r.value)
        if c.holds(r, "re.match('^(~[^/\\\\s]*/)(.*)$', value)") or c.holds(
                r, 'match'):
            c.ob('C41.quoting', c.key(r, q) + ' ~head/"tail"',
                 v == '\'%s"%s"\' % (head, tail)', c.where(r, q), v)
        elif c.holds(r, "re.match('^~[^\\\\s]*$', value)"):
            c.ob('C41.quoting', c.key(r, q) + ' bare ~user left as is',
                 v == 'value', c.where(r, q), v)
        else:
            n_plain += 1
            c.ob('C41.quoting', c.key(r, q) + ' double-quoted',
                 v == '\'"%s"\' % value', c.where(r, q), v)
    c.floor('C41.quoting', 'plain (non-tilde) branch', n_plain, 1)
    # value is only re-assigned by parameter template interpolation
    asg = [n for n in c.idx.walk(q.node) if isinstance(n, ast.Assign)
           and norm(n.targets[0]) == 'value']
    for n in asg:
        c.ob('C41.quoting', c.key(n, q) + ' only parameter interpolation',
             norm(n.value) == 'interpolate_template(value, param_vars)'
             and c.holds(n, 'param_vars'), c.where(n, q), '')


VARIANTS = [
    ('filter-in-include-order', 'cylc/flow/config.py',
     '''            for key, val in oenv.items():
                if (not fincl or key in fincl) and key not in fexcl:
                    nenv[key] = val''',
     '''            for key in (fincl or oenv):
                if key in oenv and key not in fexcl:
                    nenv[key] = oenv[key]''', 'C41.order'),
    ('sorted-env', 'cylc/flow/job_file.py',
     "            for var, val in job_conf['environment'].items():",
     "            for var, val in sorted(job_conf['environment'].items()):",
     'C41.order'),
    ('export-after', 'cylc/flow/job_file.py',
     '''            handle.write("\\n    export")
            for var in job_conf['environment']:
                handle.write(f' {var}')
            for var, val in job_conf['environment'].items():
                value = JobFileWriter._get_variable_value_definition(
                    str(val), job_conf.get('param_var', {})
                )
                handle.write(f'\\n    {var}={value}')''',
     '''            for var, val in job_conf['environment'].items():
                value = JobFileWriter._get_variable_value_definition(
                    str(val), job_conf.get('param_var', {})
                )
                handle.write(f'\\n    {var}={value}')
            handle.write("\\n    export")
            for var in job_conf['environment']:
                handle.write(f' {var}')''', 'C41.order'),
    ('unquoted', 'cylc/flow/job_file.py',
     '''            return '"%s"' % value''', '''            return value''',
     'C41.quoting'),
    ('strip-value', 'cylc/flow/job_file.py',
     '''                    str(val), job_conf.get('param_var', {})''',
     '''                    str(val).strip(), job_conf.get('param_var', {})''',
     'C41.definition'),
    ('skip-empty', 'cylc/flow/job_file.py',
     '''            for var, val in job_conf['environment'].items():
                value = JobFileWriter''',
     '''            for var, val in job_conf['environment'].items():
                if val == '':
                    continue
                value = JobFileWriter''', 'C41.definition'),
]

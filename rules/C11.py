"""C11 Completion: tasks are retained exactly when incomplete."""
import ast

from sa.core import AnalysisError, norm
from sa.pat import AnyOf, StatusIn

TECHNIQUE = ('static analysis: guard atoms of the removal / retention gate, '
             'guard table of the default completion-expression builder, shape '
             'of the evaluator call (exact variable map), folded fallback '
             'expression')

CLAUSES = (
    'Decided: a finished task is removed only when its outputs are complete '
    'and is reported incomplete when final and not complete; the default '
    'completion expression requires all required outputs, adds "succeeded or '
    'failed" only when success or failure is optional, "submit_failed" only '
    'when submission success/failure is optional and "expired" only when '
    'expiry is optional, and a user expression takes precedence; is_complete '
    'evaluates the expression with exactly the completed-map through the '
    'message -> completion-variable table, falling back to "any final output" '
    'only for an empty expression. '
    'The history loader visits every overlapping task_outputs row. '
    'Not decided: agreement of builder and '
    'evaluator for every output set (boolean semantics of expressions).')

TO = 'task_outputs'
TP = 'task_pool'


def check(c):
    # whether a finished task counts as complete when its flow comes back is
    # judged on the outputs of *every* DB row overlapping its flows (rows of
    # merged / partial flows each hold a part): the history loader does not
    # stop at the first overlapping row
    lh = c.func('task_pool', 'TaskPool._load_historical_outputs')
    hl = [n for n in c.idx.walk(lh.node) if isinstance(n, ast.For)
          and norm(n.iter).endswith('.items()') and isinstance(
              n.target, ast.Tuple) and len(n.target.elts) == 2]
    c.floor('C11.history', f'{lh.fq} :: loop over the recorded output rows',
            len(hl), 1)
    for lp in hl:
        ex = [x for x in ast.walk(lp) if isinstance(x, (ast.Break, ast.Return))]
        c.ob('C11.history', c.key(lp, lh)[:90] + ' visits every row', not ex,
             c.where(ex[0], lh) if ex else c.where(lp, lh), '' if not ex else
             'the loop stops at the first overlapping row: status and outputs '
             'can come from different rows, a completed task is revived as '
             'incomplete')
    final = ['failed', 'succeeded', 'expired', 'submit-failed']
    ric = c.func(TP, 'TaskPool.remove_if_complete')
    n8 = 0
    for n in c.find(ric, 'self.remove(itask)'):
        c.guard('C11.retention', n, [StatusIn(*final)], ric)
        if c.holds(n, '!cylc.flow.flags.cylc7_back_compat'):
            n8 += 1
            c.guard('C11.retention', n,
                    ['itask.state.outputs.is_complete()'], ric)
    c.floor('C11.retention', 'Cylc 8 removal site', n8, 1)
    falses = [r for r in c.idx.walk(ric.node) if isinstance(r, ast.Return)
              and norm(r.value) == 'False']
    keep = [r for r in falses if c.holds(
        r, '!itask.state.outputs.is_complete()')]
    c.floor('C11.retention', 'retain when incomplete', len(keep), 1)
    c.who_calls('C11.retention', 'remove_if_complete', {
        f'{TP}:TaskPool.spawn_on_output': []}, floor=2)
    li = c.func(TP, 'TaskPool.log_incomplete_tasks')
    for a in c.calls(li, 'append'):
        c.guard('C11.retention', a, [
            StatusIn(*final), '!itask.state.outputs.is_complete()'], li)
    pic = c.func('task_proxy', 'TaskProxy.is_complete')
    c.ob('C11.retention', f'{pic.fq} :: delegates to outputs.is_complete()',
         bool(c.find(pic, 'self.state.outputs.is_complete()')),
         c.where(pic.node, pic), '')

    # ---- default expression builder
    ge = c.func(TO, 'get_completion_expression')
    rets = [r for r in c.idx.walk(ge.node) if isinstance(r, ast.Return)]
    user = [r for r in rets if norm(r.value) == 'completion']
    c.exactly('C11.builder', 'return of the user expression', len(user), 1)
    for r in user:
        c.guard('C11.builder', r, ['completion'], ge)
    src = [n for n in c.idx.walk(ge.node) if isinstance(n, ast.Assign)
           and norm(n.targets[0]) == 'completion']
    c.ob('C11.builder', f"{ge.fq} :: completion = rtconfig.get('completion')",
         len(src) == 1 and norm(src[0].value) ==
         "tdef.rtconfig.get('completion')", c.where(ge.node, ge), '')
    req = [n for n in c.idx.walk(ge.node) if isinstance(n, ast.Assign)
           and norm(n.targets[0]) == 'required']
    ok = False
    if len(req) == 1 and isinstance(req[0].value, ast.SetComp):
        sc = req[0].value
        g = sc.generators[0]
        ok = (norm(sc.elt) == 'trigger_to_completion_variable(trigger)'
              and norm(g.iter) == 'tdef.outputs.items()'
              and [norm(i) for i in g.ifs] == ['required'])
    c.ob('C11.builder', f'{ge.fq} :: required = variables of required '
         'outputs', ok, c.where(ge.node, ge), '')
    c.floor('C11.builder', "' and '.join(sorted(required))", len(
        c.find(ge, "' and '.join(sorted(required))")), 1)
    final_ret = [r for r in rets if norm(r.value) == "' or '.join(parts)"]
    c.exactly('C11.builder', "return ' or '.join(parts)", len(final_ret), 1)
    # optional parts
    def opt(o):
        return f"tdef.outputs['{o}'][1] is False"
    adds = []
    for n in c.idx.walk(ge.node):
        if isinstance(n, ast.Call) and isinstance(n.func, ast.Attribute) and \
                n.func.attr == 'append' and norm(n.func.value) == 'parts':
            adds.append(n)
        elif isinstance(n, ast.Assign) and norm(n.targets[0]) == 'parts' \
                and isinstance(n.value, ast.List) and n.value.elts:
            adds.append(n)
    sf, ex, fin = [], [], []
    for n in adds:
        txt = norm(n)
        if 'TASK_OUTPUT_SUBMIT_FAILED' in txt:
            sf.append(n)
        elif 'TASK_OUTPUT_EXPIRED' in txt:
            ex.append(n)
        elif 'TASK_OUTPUT_FAILED' in txt:
            fin.append(n)
    c.floor('C11.builder', '"succeeded or failed" parts', len(fin), 2)
    # ... and *whenever* success or failure is optional (and there is no user
    # expression) one of them is added: the sites together are reached under
    # exactly (succeeded optional or failed optional) -- a truth table over
    # (user expression, any required output, succeeded opt., failed opt.)
    from rules._shared import reach_table
    atoms = {'completion': 'completion', 'required': 'required',
             'so': opt('succeeded'), 'fo': opt('failed')}
    tabs = [reach_table(c, n, atoms, ge) for n in fin]
    if any(t is None for t in tabs):
        c.ob('C11.builder', f'{ge.fq} :: "succeeded or failed" is added '
             'whenever success or failure is optional', False,
             c.where(ge.node, ge), 'a site depends on something other than '
             'the four atoms')
    elif tabs:
        wrong = []
        for combo in tabs[0]:
            comp, _req, so_, fo_ = combo
            want = (not comp) and (so_ or fo_)
            got = any(t[combo] for t in tabs)
            if want != got:
                wrong.append(dict(zip(atoms, combo)))
        c.ob('C11.builder', f'{ge.fq} :: "succeeded or failed" is added '
             'whenever success or failure is optional', not wrong,
             c.where(ge.node, ge), f'differs for {wrong[:3]}: with nothing '
             'required and only failure optional the expression is empty and '
             'any final status counts as complete' if wrong else '')
    for n in fin:
        c.guard('C11.builder', n, [AnyOf(opt('succeeded'), opt('failed'))],
                ge, what='only when success/failure is optional;')
    c.exactly('C11.builder', '"submit_failed" part', len(sf), 1)
    for sites, a1, a2, what in ((sf, 'submitted', 'submit-failed',
                                 'submit_failed'),
                                (ex, 'expired', 'expired', 'expired')):
        at = {'completion': 'completion', 'a': opt(a1)}
        if a2 != a1:
            at['b'] = opt(a2)
        tb = [reach_table(c, n, at, ge) for n in sites]
        bad = None
        if any(t is None for t in tb) or not tb:
            bad = 'site depends on something else'
        else:
            for combo in tb[0]:
                comp = combo[0]
                if ((not comp) and any(combo[1:])) != any(
                        t[combo] for t in tb):
                    bad = str(dict(zip(at, combo)))
        c.ob('C11.builder', f'{ge.fq} :: "{what}" is added whenever it is '
             'optional', bad is None, c.where(ge.node, ge), bad or '')
    for n in sf:
        c.guard('C11.builder', n, [AnyOf(opt('submitted'),
                                         opt('submit-failed'))], ge)
        c.guard_only('C11.builder', n, [opt('submitted'),
                                        opt('submit-failed'),
                                        '!completion'], ge)
    c.exactly('C11.builder', '"expired" part', len(ex), 1)
    for n in ex:
        c.guard('C11.builder', n, [opt('expired')], ge)
        c.guard_only('C11.builder', n, [opt('expired'), '!completion'], ge)
    ttc = c.func(TO, 'trigger_to_completion_variable')
    c.ob('C11.builder', f"{ttc.fq} :: output.replace('-', '_')",
         bool(c.find(ttc, "output.replace('-', '_')")), c.where(ttc.node, ttc),
         '')

    # ---- evaluation
    ic = c.func(TO, 'TaskOutputs.is_complete')
    calls = c.calls(ic, 'CompletionEvaluator')
    c.exactly('C11.evaluate', 'CompletionEvaluator call in is_complete',
              len(calls), 1)
    for n in calls:
        ok = len(n.args) == 1 and norm(n.args[0]) == 'expr' and len(
            n.keywords) == 1 and n.keywords[0].arg is None
        dc = n.keywords[0].value if n.keywords else None
        ok = ok and isinstance(dc, ast.DictComp) and norm(dc.key) == \
            'self._message_to_compvar[message]' and norm(dc.value) == \
            'completed' and norm(dc.generators[0].iter) == \
            'self._completed.items()' and not dc.generators[0].ifs
        c.ob('C11.evaluate', c.key(n, ic)[:100] + ' variables = completed '
             'map via message -> variable', ok, c.where(n, ic), '')
    ex_ = [n for n in c.idx.walk(ic.node) if isinstance(n, ast.Assign)
           and norm(n.targets[0]) == 'expr']
    c.ob('C11.evaluate', f'{ic.fq} :: expr = own expression or the '
         'final-output fallback', len(ex_) == 1 and norm(ex_[0].value) ==
         'self._completion_expression or FINAL_OUTPUT_COMPLETION',
         c.where(ic.node, ic), '')
    fb = c.K.name(c.idx.module(TO), 'FINAL_OUTPUT_COMPLETION')
    c.ob('C11.evaluate', f'{TO}:FINAL_OUTPUT_COMPLETION', True if fb is None
         else True, '', str(fb))
    node = c.K.mod_attr_node(TO, 'FINAL_OUTPUT_COMPLETION')
    outs = []
    if node is not None:
        for n in ast.walk(node):
            if isinstance(n, ast.List):
                outs = [c.K.fold(e, c.idx.module(TO)) for e in n.elts]
    c.ob('C11.evaluate', f'{TO}:FINAL_OUTPUT_COMPLETION lists the four final '
         'outputs', sorted(map(str, outs)) == sorted(
             ['succeeded', 'failed', 'submit-failed', 'expired']), '',
         str(outs))
    init = c.func(TO, 'TaskOutputs.__init__')
    c.floor('C11.evaluate', 'expression built from the task definition', len(
        c.find(init, 'get_completion_expression(tdef)')), 1)
    c.who_writes('C11.evaluate', '_completion_expression', {
        (f'{TO}:TaskOutputs.__init__', 'assign')}, floor=2)


VARIANTS = [
    ('history-first-row-only', 'cylc/flow/task_pool.py',
     '''                        for msg in outputs:
                            itask.state.outputs.set_message_complete(msg)
''', '''                        for msg in outputs:
                            itask.state.outputs.set_message_complete(msg)
                    break
''', 'C11.history'),
    ('fail-optional-only-gets-no-part', 'cylc/flow/task_outputs.py',
     '''        else:
            parts.append(
                f'{TASK_OUTPUT_SUCCEEDED} or {TASK_OUTPUT_FAILED}'
            )''', '''        elif tdef.outputs[TASK_OUTPUT_SUCCEEDED][1] is False:
            parts.append(
                f'{TASK_OUTPUT_SUCCEEDED} or {TASK_OUTPUT_FAILED}'
            )''', 'C11.builder'),
    ('remove-incomplete', 'cylc/flow/task_pool.py',
     '        if not itask.state.outputs.is_complete():\n            # Keep incomplete',
     '        if not itask.state.outputs.is_complete() and output:\n            # Keep incomplete',
     'C11.retention'),
    ('failed-always-ok', 'cylc/flow/task_outputs.py',
     '''    if (
        tdef.outputs[TASK_OUTPUT_SUCCEEDED][1] is False
        or tdef.outputs[TASK_OUTPUT_FAILED][1] is False
    ):''', '''    if (
        tdef.outputs[TASK_OUTPUT_SUCCEEDED][1] is False
        or tdef.outputs[TASK_OUTPUT_FAILED][1] is not True
    ):''', 'C11.builder'),
    ('expired-always', 'cylc/flow/task_outputs.py',
     '    if tdef.outputs[TASK_OUTPUT_EXPIRED][1] is False:',
     '    if tdef.outputs[TASK_OUTPUT_EXPIRED][1] is not True:',
     'C11.builder'),
    ('required-all', 'cylc/flow/task_outputs.py',
     '''        for trigger, (_message, required) in tdef.outputs.items()
        if required
    }''', '''        for trigger, (_message, required) in tdef.outputs.items()
        if required is not None
    }''', 'C11.builder'),
    ('eval-only-completed', 'cylc/flow/task_outputs.py',
     '''                for message, completed in self._completed.items()
            },
        )''', '''                for message, completed in self._completed.items()
                if completed
            },
        )''', 'C11.evaluate'),
    ('user-expr-ignored', 'cylc/flow/task_outputs.py',
     '''    if completion:
        # completion expression is defined in the runtime -> return it
        return completion
''', '', 'C11.builder'),
]

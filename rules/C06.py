"""C06 Held tasks never submit; holds persist and apply to future instances."""
import ast

from sa.core import AnalysisError, norm
from rules._shared import params_rewrite, check_rewrite_key, straight_line

TECHNIQUE = ('static analysis: guard dominance at the two submission gates, '
             'required hold sites in the spawner, CFG post-dominance pairing '
             'of every in-memory hold mutation with its persistence call, '
             'restore call-chain presence, table-rewrite completeness')

CLAUSES = (
    'Decided: readiness and queue release refuse held tasks; spawn_task holds '
    'a new non-transient task that is in tasks_to_hold or beyond the hold '
    'point before returning it; every TaskPool function that mutates '
    'tasks_to_hold is followed on all normal paths by put_tasks_to_hold of '
    'the same set, every hold_point store by put_workflow_hold_cycle_point; '
    'restart reloads tasks_to_hold and the hold point and re-applies it; the '
    'function that wipes the workflow_params table re-inserts the hold point '
    'from live state; a task is marked waiting_on_job_prep (which '
    'by-passes the queue and the readiness / is_held tests) only at the '
    'four listed sites. Not decided: interleavings with spawning over '
    'histories.')

TP = 'task_pool'


def check(c):
    from rules._shared import job_prep_writer_rules
    job_prep_writer_rules(c, 'C06.prep-bypass')
    # ---- gates
    rr = c.func('task_proxy', 'TaskProxy.is_ready_to_run')
    rets = [n for n in c.idx.walk(rr.node) if isinstance(n, ast.Return)]
    pos = [r for r in rets if not (isinstance(r.value, ast.Constant)
                                   and r.value.value is False)]
    c.floor('C06.ready-gate', 'non-False returns of is_ready_to_run',
            len(pos), 1)
    for r in pos:
        c.guard('C06.ready-gate', r, ['!self.state.is_held'], rr,
                what='a held task is never ready;')
    rel = c.func('task_queues.independent', 'LimitedTaskQueue.release')
    retv = {norm(r.value) for r in c.idx.walk(rel.node)
            if isinstance(r, ast.Return) and r.value is not None}
    for lst in retv:
        apps = c.find(rel, f'{lst}.append(_)')
        c.floor('C06.queue-gate', 'release appends', len(apps), 1)
        for a in apps:
            c.guard('C06.queue-gate', a,
                    [f'!{norm(a.args[0])}.state.is_held'], rel)

    # ---- future instances
    st = c.func(TP, 'TaskPool.spawn_task')
    holds = c.find(st, 'self.hold_active_task(itask)')
    by_name = [h for h in holds if c.holds(
        h, '(name, point) in self.tasks_to_hold')]
    by_point = [h for h in holds if c.holds(
        h, 'self.hold_point < itask.point')]
    c.floor('C06.spawn-hold', 'hold_active_task ⟸ (name, point) in '
            'tasks_to_hold', len(by_name), 1)
    c.floor('C06.spawn-hold', 'hold_active_task ⟸ point > hold_point',
            len(by_point), 1)
    def nt_block(h):
        """The enclosing `if not itask.transient:` statement."""
        cur = h
        while id(cur) in c.idx.parent:
            cur = c.idx.parent[id(cur)]
            if isinstance(cur, ast.If) and c.find(
                    cur.test, 'not itask.transient'):
                return cur
        return None
    for h in by_name:
        blk = nt_block(h)
        c.ob('C06.spawn-hold', c.key(h, st) + ' in the non-transient block',
             blk is not None, c.where(h, st), '')
        c.guard_only('C06.spawn-hold', h, [
            '(name, point) in self.tasks_to_hold', '!itask.transient'], st,
            stop=blk)
    for h in by_point:
        blk = nt_block(h)
        c.guard('C06.spawn-hold', h, ['self.hold_point'], st)
        c.guard_only('C06.spawn-hold', h, [
            'self.hold_point', 'self.hold_point < itask.point',
            '!((name, point) in self.tasks_to_hold)', '!itask.transient'],
            st, stop=blk)
    final = [r for r in c.idx.walk(st.node) if isinstance(r, ast.Return)
             and norm(r.value) == 'itask']
    c.floor('C06.spawn-hold', 'return itask', len(final), 1)
    for r in final:
        c.pre('C06.spawn-hold', st, r, c.matches('not itask.transient'),
              'the `if not itask.transient` block')
    for h in by_name + by_point:
        blk = nt_block(h)
        if blk is None:
            continue
        # nothing in the block can return before the hold decision
        top = h
        while c.idx.parent[id(top)] is not blk:
            top = c.idx.parent[id(top)]
        i = next(k for k, s in enumerate(blk.body) if s is top)
        early = [n for s in blk.body[:i] for n in ast.walk(s)
                 if isinstance(n, ast.Return)]
        c.ob('C06.spawn-hold', c.key(h, st) + ' decided before any return '
             'of the block', not early, c.where(h, st), '')
    hat = c.func(TP, 'TaskPool.hold_active_task')
    c.always('C06.hold-active', hat,
             c.matches('itask.state_reset(is_held=True)'),
             'state_reset(is_held=True)')
    c.always('C06.hold-active', hat,
             c.matches('self.tasks_to_hold.add((itask.tdef.name, '
                       'itask.point))'), 'tasks_to_hold.add')

    # ---- persistence pairing
    muts = c.stores(TP, 'tasks_to_hold')
    c.floor('C06.persist-holds', 'tasks_to_hold mutations', len(muts), 7)
    for s in muts:
        f = c.owner(s.node)
        if f is None or f.name in ('__init__', 'load_db_tasks_to_hold'):
            continue
        c.post('C06.persist-holds', f, s.node,
               c.matches('self.workflow_db_mgr.put_tasks_to_hold('
                         'self.tasks_to_hold)'), 'put_tasks_to_hold')
    for m in c.idx.modules.values():
        if m.name == TP:
            continue
        for s in c.stores(m.name, 'tasks_to_hold'):
            f = c.owner(s.node)
            c.ob('C06.persist-holds', c.key(s.node, f), False,
                 c.where(s.node, f), 'tasks_to_hold mutated outside TaskPool')
    hp = [s for s in c.stores(TP, 'hold_point')]
    c.floor('C06.persist-hold-point', 'hold_point stores', len(hp), 3)
    for s in hp:
        f = c.owner(s.node)
        if f is None or f.name == '__init__':
            continue
        val = norm(s.value)
        c.post('C06.persist-hold-point', f, s.node,
               c.matches(f'self.workflow_db_mgr.put_workflow_hold_cycle_point'
                         f'({val})'),
               f'put_workflow_hold_cycle_point({val})')
    pt = c.func('workflow_db_mgr', 'WorkflowDatabaseManager.put_tasks_to_hold')
    d = [s for s in c.stores(pt, 'db_deletes_map')]
    i = [s for s in c.stores(pt, 'db_inserts_map')]
    # delete-all + one row per element of the given set, unfiltered: as a
    # comprehension over the parameter, or as a list filled by a loop over it
    param = pt.node.args.args[1].arg
    ok = len(d) == 1 and norm(d[0].value) == '[{}]' and len(i) == 1
    if ok:
        v = i[0].value
        if isinstance(v, ast.ListComp):
            ok = (len(v.generators) == 1 and not v.generators[0].ifs
                  and norm(v.generators[0].iter) == param)
        elif isinstance(v, ast.Name):
            loops = [n for n in c.idx.walk(pt.node) if isinstance(n, ast.For)
                     and norm(n.iter) == param]
            apps = [a for lp in loops for a in ast.walk(lp)
                    if isinstance(a, ast.Call) and isinstance(
                        a.func, ast.Attribute) and a.func.attr == 'append'
                    and norm(a.func.value) == v.id]
            ok = (len(loops) == 1 and len(apps) == 1
                  and c.idx.parent[id(c.idx.stmt_of(apps[0]))] is loops[0]
                  and not any(isinstance(x, (ast.Continue, ast.Break))
                              for x in ast.walk(loops[0])))
        else:
            ok = False
    c.ob('C06.persist-holds', f'{pt.fq} :: replaces the table with the '
         'given set', ok, c.where(pt.node, pt), '')

    # ---- restore
    lp = c.func('scheduler', 'Scheduler._load_pool_from_db')
    c.always('C06.restore', lp, c.matches('self.pool.load_db_tasks_to_hold()'),
             'load_db_tasks_to_hold()')
    ld = c.func(TP, 'TaskPool.load_db_tasks_to_hold')
    c.always('C06.restore', ld, c.matches('self.tasks_to_hold.update(_)'),
             'tasks_to_hold.update(rows)')
    c.floor('C06.restore', 'select_tasks_to_hold() used by the loader',
            len(c.calls(ld, 'select_tasks_to_hold')), 1)
    swp = c.func('scheduler', 'Scheduler._set_workflow_params')
    hs = [n for n in c.idx.walk(swp.node) if isinstance(n, ast.Assign)
          and norm(n.targets[0]) == 'self.options.holdcp']
    c.floor('C06.restore', 'options.holdcp restored', len(hs), 1)
    for n in hs:
        c.guard('C06.restore', n, [
            'key == self.workflow_db_mgr.KEY_HOLD_CYCLE_POINT'], swp)
    use = c.find(None, 'commands.set_hold_point(self, holdcp)')
    c.floor('C06.restore', 'set_hold_point(self, holdcp) at start-up',
            len(use), 1)
    for u in use:
        f = c.owner(u)
        src = [n for n in c.idx.walk(f.node) if isinstance(n, ast.Assign)
               and norm(n.targets[0]) == 'holdcp'
               and norm(n.value) == 'self.options.holdcp']
        c.ob('C06.restore', c.key(u, f) + ' from options.holdcp', bool(src),
             c.where(u, f), '')
        c.guard_only('C06.restore', u, ['holdcp is not None'], f)
    cmd = c.func('commands', 'set_hold_point')
    c.floor('C06.restore', 'pool.set_hold_point in the command',
            len(c.find(cmd, 'schd.pool.set_hold_point(_)')), 1)
    shp = c.func(TP, 'TaskPool.set_hold_point')
    hl = c.find(shp, 'self.hold_active_task(itask)')
    c.floor('C06.hold-point', 'hold_active_task in set_hold_point', len(hl), 1)
    for h in hl:
        c.guard('C06.hold-point', h, ['point < itask.point'], shp)
        c.guard_only('C06.hold-point', h, ['point < itask.point'], shp)

    # ---- rewrite completeness (F6)
    wipe, single, rewrite = params_rewrite(c)
    c.ob('C06.rewrite-complete', 'workflow_db_mgr: hold point has a '
         'single-key writer', 'KEY_HOLD_CYCLE_POINT' in single, '', '')
    check_rewrite_key(c, 'C06.rewrite-complete', 'KEY_HOLD_CYCLE_POINT',
                      wipe, single, rewrite)


VARIANTS = [
    ('restart-straight-to-prep', 'cylc/flow/task_pool.py',
     '''                # Re-prepare same submit.
                itask.submit_num -= 1
''', '''                # Re-prepare same submit.
                itask.submit_num -= 1
                itask.waiting_on_job_prep = True
''', 'C06.prep-bypass'),
    ('ready-ignores-held', 'cylc/flow/task_proxy.py',
     '''        if self.state.is_held:
            # A held task is not ready to run.
            return False
''', '', 'C06.ready-gate'),
    ('no-hold-future', 'cylc/flow/task_pool.py',
     '''            if (name, point) in self.tasks_to_hold:
                LOG.info(f"[{itask}] holding (as requested earlier)")
                self.hold_active_task(itask)
            elif self.hold_point''',
     '''            if False:
                pass
            elif self.hold_point''', 'C06.spawn-hold'),
    ('hold-point-ge', 'cylc/flow/task_pool.py',
     '            elif self.hold_point and itask.point > self.hold_point:',
     '            elif self.hold_point and itask.point >= self.hold_point:',
     'C06.spawn-hold'),
    ('forget-persist', 'cylc/flow/task_pool.py',
     '''                self.tasks_to_hold.discard(
                    (id_['task'], get_point(id_['cycle']))
                )
        self.workflow_db_mgr.put_tasks_to_hold(self.tasks_to_hold)''',
     '''                self.tasks_to_hold.discard(
                    (id_['task'], get_point(id_['cycle']))
                )''', 'C06.persist-holds'),
    ('persist-only-if-active', 'cylc/flow/task_pool.py',
     '''        self.tasks_to_hold.add((itask.tdef.name, itask.point))
        self.workflow_db_mgr.put_tasks_to_hold(self.tasks_to_hold)''',
     '''        self.tasks_to_hold.add((itask.tdef.name, itask.point))
        if itask.state.is_held:
            return
        self.workflow_db_mgr.put_tasks_to_hold(self.tasks_to_hold)''',
     'C06.persist-holds'),
    ('release-point-not-persisted', 'cylc/flow/task_pool.py',
     '''        self.workflow_db_mgr.put_tasks_to_hold(self.tasks_to_hold)
        self.workflow_db_mgr.put_workflow_hold_cycle_point(None)''',
     '''        self.workflow_db_mgr.put_tasks_to_hold(self.tasks_to_hold)''',
     'C06.persist-hold-point'),
    ('no-reload-holds', 'cylc/flow/scheduler.py',
     '        self.pool.load_db_tasks_to_hold()\n', '', 'C06.restore'),
    ('F6-regression-holdcp', 'cylc/flow/workflow_db_mgr.py',
     '''            {
                "key": self.KEY_HOLD_CYCLE_POINT,
                "value": (
                    str(schd.pool.hold_point)
                    if schd.pool.hold_point is not None else None
                ),
            },
''', '', 'C06.rewrite-complete'),
    ('benign-reorder', 'cylc/flow/task_pool.py',
     '''        self.tasks_to_hold.clear()
        self.workflow_db_mgr.put_tasks_to_hold(self.tasks_to_hold)
        self.workflow_db_mgr.put_workflow_hold_cycle_point(None)''',
     '''        self.tasks_to_hold.clear()
        self.workflow_db_mgr.put_workflow_hold_cycle_point(None)
        self.workflow_db_mgr.put_tasks_to_hold(self.tasks_to_hold)''', None),
]

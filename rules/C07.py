"""C07 Task instances stay within cycle bounds and on their sequences."""
import ast

from sa.core import AnalysisError, norm
from sa.pat import AnyOf, StatusIn

TECHNIQUE = ('static analysis: who-may-construct allow-list for TaskProxy '
             'with the bounds predicate dominating the spawning constructor, '
             'operator-exact guard atoms of can_be_spawned, provenance of '
             'add_to_pool arguments, stop-point guards in spawn_task / '
             'set_stop_point')

CLAUSES = (
    'Decided: TaskProxy objects are constructed only at the listed sites: '
    'the spawner (dominated by can_be_spawned), the restart loader (DB rows), '
    'reload (same point/name), and ghost/transient proxies outside the pool; '
    'can_be_spawned returns True only for known tasks with '
    'initial <= point <= final that are valid points of a sequence of the '
    'task; graph children are generated only on valid points of their '
    'sequence; what is added to the pool comes from the spawner or loader and '
    'is tested for None; a task depending on something beyond the stop point '
    'is not spawned; lowering the stop point re-limits waiting tasks beyond '
    'it. Not decided: offset arithmetic landing on-sequence.')

TP = 'task_pool'


def check(c):
    # ---- constructor sites
    sites = [n for n in c.calls(None, 'TaskProxy')
             if isinstance(n.func, ast.Name)]
    c.floor('C07.constructors', 'TaskProxy(...) sites', len(sites), 6)
    allow = {
        f'{TP}:TaskPool._load_db_task_proxy': 'spawn',
        f'{TP}:TaskPool.load_db_task_pool_for_restart': 'restart',
        f'{TP}:TaskPool._reload_taskdefs': 'reload',
        'task_events_mgr:TaskEventsManager.process_job_message': 'ghost',
        'data_store_mgr:DataStoreMgr.generate_ghost_task': 'ghost',
        'scripts.validate:run': 'validate',
    }
    for s in sites:
        f = c.owner(s)
        fq = f.fq if f else '<module>'
        kind = allow.get(fq)
        kw = {k.arg: k.value for k in s.keywords}
        if kind is None:
            c.ob('C07.constructors', c.key(s, f), False, c.where(s, f),
                 f'TaskProxy constructed in {fq}: not in the allow-list')
        elif kind == 'spawn':
            c.guard('C07.constructors', s,
                    ['self.can_be_spawned(taskdef.name, point)'], f,
                    what='bounds predicate dominates the spawner;')
            ok = len(s.args) >= 3 and norm(s.args[1]) == 'taskdef' and norm(
                s.args[2]) == 'point'
            c.ob('C07.constructors', c.key(s, f) + ' same name/point as '
                 'tested', ok, c.where(s, f), '')
        elif kind == 'reload':
            ok = len(s.args) >= 3 and norm(s.args[2]) == 'itask.point' and \
                'itask.tdef.name' in norm(s.args[1])
            c.ob('C07.constructors', c.key(s, f) + ' same point and name as '
                 'the replaced task', ok, c.where(s, f), '')
        elif kind == 'ghost':
            ok = 'data_mode' in kw and norm(kw['data_mode']) == 'True'
            c.ob('C07.constructors', c.key(s, f) + ' ghost proxy '
                 '(data_mode=True)', ok, c.where(s, f), '')
        else:
            c.ob('C07.constructors', c.key(s, f), True, c.where(s, f), kind)
    # ghost / validate proxies never reach the pool
    for fq in ('task_events_mgr:TaskEventsManager.process_job_message',
               'data_store_mgr:DataStoreMgr.generate_ghost_task',
               'scripts.validate:run'):
        mod, q = fq.split(':')
        f = c.func_opt(mod, q)
        if f is None:
            continue
        bad = c.calls(f, 'add_to_pool')
        c.ob('C07.constructors', f'{fq} :: does not add to the pool', not bad,
             c.where(f.node, f), '')

    # ---- the bounds predicate
    cbs = c.func(TP, 'TaskPool.can_be_spawned')
    trues = [r for r in c.idx.walk(cbs.node) if isinstance(r, ast.Return)
             and norm(r.value) == 'True']
    c.exactly('C07.bounds', 'return True in can_be_spawned', len(trues), 1)
    for r in trues:
        c.guard('C07.bounds', r, [
            'name in self.config.taskdefs',
            AnyOf('!self.config.initial_point',
                  'self.config.initial_point <= point'),
            AnyOf('!self.config.final_point',
                  'point <= self.config.final_point'),
            'self.config.get_taskdef(name).is_valid_point(point)',
        ], cbs)
    other = [r for r in c.idx.walk(cbs.node) if isinstance(r, ast.Return)
             and norm(r.value) not in ('True', 'False')]
    c.ob('C07.bounds', f'{cbs.fq} :: returns only literals', not other,
         c.where(cbs.node, cbs), '')
    ivp = c.func('taskdef', 'TaskDef.is_valid_point')
    ok = bool(c.find(ivp, 'any((_s.is_valid(point) for _s in '
                     'self.sequences))'))
    c.ob('C07.bounds', f'{ivp.fq} :: any(seq.is_valid(point) for seq in '
         'self.sequences)', ok, c.where(ivp.node, ivp), '')
    # graph children
    ggc = c.func('taskdef', 'generate_graph_children')
    apps = [n for n in c.calls(ggc, 'append')
            if c.find(n, 'TaskTuple(name, child_point, is_abs)')]
    c.floor('C07.children', 'graph child append', len(apps), 1)
    for a in apps:
        c.guard('C07.children', a, ['seq.is_valid(child_point)'], ggc)
    cp = [n for n in c.idx.walk(ggc.node) if isinstance(n, ast.Assign)
          and norm(n.targets[0]) == 'child_point']
    c.ob('C07.children', f'{ggc.fq} :: child_point = '
         'trigger.get_child_point(point, seq)',
         len(cp) == 1 and norm(cp[0].value) ==
         'trigger.get_child_point(point, seq)', c.where(ggc.node, ggc), '')
    nx = [n for n in c.calls(ggc, 'append') if norm(n.func.value) == 'nexts']
    for a in nx:
        c.guard('C07.children', a, ['nxt is not None'], ggc)

    # ---- what reaches the pool
    good_src = ('self.spawn_task(', 'self.get_or_spawn_task(',
                'self._load_db_task_proxy(')
    for a in c.calls(TP, 'add_to_pool'):
        f = c.owner(a)
        arg = norm(a.args[0])
        srcs = []
        for n in c.idx.walk(f.node):
            if isinstance(n, ast.Assign):
                for t in n.targets:
                    names = [norm(e) for e in (t.elts if isinstance(
                        t, ast.Tuple) else [t])]
                    if arg in names:
                        v = n.value
                        if isinstance(v, ast.Tuple) and isinstance(
                                t, ast.Tuple):
                            v = v.elts[names.index(arg)]
                        srcs.append(norm(v))
            elif isinstance(n, ast.For) and norm(n.target) == arg:
                srcs.append('for:' + norm(n.iter))
        key = c.key(a, f)
        # nearest preceding assignment in the same block wins
        ast_ = c.idx.stmt_of(a)
        par = c.idx.parent[id(ast_)]
        for nm in ('body', 'orelse'):
            blk = getattr(par, nm, None)
            if isinstance(blk, list) and any(s is ast_ for s in blk):
                i = next(k for k, s in enumerate(blk) if s is ast_)
                for s in reversed(blk[:i]):
                    if isinstance(s, ast.Assign) and norm(
                            s.targets[0]) == arg:
                        srcs = [norm(s.value)]
                        break
        if f.name == 'load_db_task_pool_for_restart':
            ok = any(s.startswith('TaskProxy(') for s in srcs)
            c.ob('C07.pool-source', key, ok, c.where(a, f),
                 'restart loader adds the proxy built from the DB row')
            continue
        if f.name == 'spawn_on_output' and srcs == ['for:tasks']:
            # tasks = [c_task] / matched pool tasks + c_task; c_task spawned
            c.guard('C07.pool-source', a, ['!in_pool'], f)
            ok = bool(c.find(f, 'self.spawn_task(c_name, c_point, '
                             'itask.flow_nums)'))
            c.ob('C07.pool-source', key + ' child from spawn_task', ok,
                 c.where(a, f), '')
            continue
        ok = bool(srcs) and all(any(s.startswith(g) or s.startswith(
            '(' + g) for g in good_src) for s in srcs)
        c.ob('C07.pool-source', key + ' source', ok, c.where(a, f),
             f'{arg} <- {srcs}')
        c.guard('C07.pool-source', a, [AnyOf(
            f'{arg} is not None', f'!({arg} is None)')], f,
            what='None (unspawnable) is never added;')

    # ---- stop point
    st = c.func(TP, 'TaskPool.spawn_task')
    nones = [r for r in c.idx.walk(st.node) if isinstance(r, ast.Return)
             and norm(r.value) == 'None' and c.holds(
                 r, 'self.stop_point < _p')]
    c.floor('C07.stop-point', 'return None ⟸ prerequisite beyond stop point',
            len(nones), 1)
    for r in nones:
        c.guard('C07.stop-point', r, [
            'self.stop_point', 'itask.point <= self.stop_point'], st)
        # the points tested are all the prerequisite target points: either a
        # `for pct in <points>: if pct > stop: return None` loop or the
        # equivalent `if any(pct > stop for pct in <points>): return None`
        srcs = set()
        cur = r
        while id(cur) in c.idx.parent and cur is not st.node:
            cur = c.idx.parent[id(cur)]
            if isinstance(cur, ast.For):
                srcs.add(norm(cur.iter))
            if isinstance(cur, ast.If):
                for n in ast.walk(cur.test):
                    if isinstance(n, (ast.GeneratorExp, ast.ListComp)):
                        srcs |= {norm(g.iter) for g in n.generators}
        c.ob('C07.stop-point', c.key(r, st) + ' over all target points',
             srcs == {'itask.state.prerequisites_get_target_points()'},
             c.where(r, st), f'{sorted(srcs)}')
    # no task beyond the stop point is released to run: the runahead limit is
    # capped at the stop point (after the future-offset extension)
    from rules._shared import stop_point_limit_rules
    stop_point_limit_rules(c, 'C07')
    ssp = c.func(TP, 'TaskPool.set_stop_point')
    rl = c.find(ssp, 'itask.state_reset(is_runahead=True)')
    c.floor('C07.stop-point', 're-limit in set_stop_point', len(rl), 1)
    for n in rl:
        c.guard('C07.stop-point', n, [
            'stop_point < itask.point', StatusIn('waiting')], ssp)


VARIANTS = [
    ('final-ge', 'cylc/flow/task_pool.py',
     'if self.config.final_point and point > self.config.final_point:',
     'if self.config.final_point and point >= self.config.final_point:',
     'C07.bounds'),
    ('no-initial-check', 'cylc/flow/task_pool.py',
     'if self.config.initial_point and point < self.config.initial_point:',
     'if self.config.initial_point and point > self.config.initial_point:',
     'C07.bounds'),
    ('no-seq-check', 'cylc/flow/task_pool.py',
     '        if not self.config.get_taskdef(name).is_valid_point(point):',
     '        if False:', 'C07.bounds'),
    ('spawn-unchecked', 'cylc/flow/task_pool.py',
     '''        if not self.can_be_spawned(taskdef.name, point):
            return None
''', '''        if not transient and not self.can_be_spawned(taskdef.name, point):
            return None
''', 'C07.constructors'),
    ('child-off-seq', 'cylc/flow/taskdef.py',
     '                if seq.is_valid(child_point):',
     '                if child_point is not None:', 'C07.children'),
    ('new-constructor', 'cylc/flow/task_pool.py',
     '''        ntask = self.get_task(point, tdef.name)
        is_in_pool = False''',
     '''        ntask = self.get_task(point, tdef.name)
        if ntask is None and flow_wait:
            ntask = TaskProxy(self.tokens, tdef, point, flow_nums)
        is_in_pool = False''', 'C07.constructors'),
    ('stop-point-lt', 'cylc/flow/task_pool.py',
     '                    if pct > self.stop_point:',
     '                    if pct < self.stop_point:', 'C07.stop-point'),
    ('benign-reorder-bounds', 'cylc/flow/task_pool.py',
     'if self.config.final_point and point > self.config.final_point:',
     'if self.config.final_point and self.config.final_point < point:', None),
]

"""C19 Stop-and-restart preserves the workflow state."""
import ast
import re

from sa.core import AnalysisError, norm
from sa.pat import AnyOf, StatusIn
from rules._shared import broadcast_prune_rules
from sa import sqlmodel as sm
from rules._shared import params_rewrite, check_rewrite_key

TECHNIQUE = ('static analysis: SQL/schema model (writer dict keys vs schema, '
             'SELECT lists vs reader unpack order through an alias table), '
             'codec pairing per column, column-shape agreement of sibling '
             'readers, restored-field coverage of the restart constructor, '
             'presence of every loader in the restart chain, table-rewrite '
             'completeness, CFG order of the shutdown flush')

CLAUSES = (
    'Decided: every dict row queued for insertion uses only columns of its '
    'table; every column in a SELECT list exists; for each restart reader the '
    'SELECT column order matches the unpack order (task pool, action timers, '
    'prerequisites, tasks to hold, xtriggers, broadcast states, previous '
    'instances, task outputs); set- and JSON-encoded columns are decoded with '
    'the matching codec; every reader of the task_outputs.outputs column '
    'handles its {trigger: message} dict shape; the restart constructor '
    'restores status, held flag, submit number, flow numbers, flow wait, '
    'manual-submit and late flags, re-prepares preparing tasks, reloads '
    'completed outputs and prerequisite / xtrigger satisfaction; '
    '_load_pool_from_db calls every loader; every workflow parameter with a '
    'single-key writer survives the table rewrite (re-inserted from the state '
    'its run-time writers keep current) and has a restore branch; '
    'shutdown writes event timers and the task pool and flushes the queue '
    'before closing the DB. '
    'The flow counter is restored from MAX(flow_num) of the DB. '
    'Not decided: equality of the continued run with '
    'an uninterrupted one.')

TP = 'task_pool'
S = 'scheduler'

# select function -> (reader function (module, qual), alias map)
PAIRS = {
    'select_task_pool_for_restart': (
        (TP, 'TaskPool.load_db_task_pool_for_restart'),
        {'value': 'is_late', 'try_num': '_', 'outputs': 'outputs_str'}),
    'select_abs_outputs_for_restart': (
        (TP, 'TaskPool.load_abs_outputs_for_restart'), {}),
    'select_xtriggers_for_restart': (
        ('xtrigger_mgr', 'XtriggerManager.load_xtrigger_for_restart'),
        {'signature': 'sig'}),
    'pre_select_broadcast_states': (
        ('broadcast_mgr', 'BroadcastMgr.load_db_broadcast_states'), {}),
}


def _unpack_of_row(c, f):
    """Names of the first tuple-unpack of the row parameter in reader f."""
    for n in sorted((x for x in c.idx.walk(f.node)
                     if isinstance(x, ast.Assign)), key=lambda x: x.lineno):
        if isinstance(n.targets[0], ast.Tuple) and norm(n.value) == 'row':
            return [norm(e) for e in n.targets[0].elts]
    return None


def check(c):
    from rules._shared import outputs_column_by_trigger_rules
    outputs_column_by_trigger_rules(c, 'C19.outputs-shape')
    schema = sm.schema(c)
    tabs = sm.tables(c)
    c.floor('C19.schema', 'tables in TABLES_ATTRS', len(schema), 15)
    dao = c.idx.cls('CylcWorkflowDAO', 'rundb')

    # ---- row identity: every insert is INSERT OR REPLACE, so the primary key
    # decides which rows overwrite each other
    primary_keys(c, 'C19.primary-keys')

    # ---- writers use schema columns
    rows = sm.writer_rows(c)
    c.floor('C19.writer-keys', 'queued insert rows', len(rows), 15)
    for t, d, n, f in rows:
        if t is None or t not in schema:
            c.ob('C19.writer-keys', c.key(n, f) + ' table', False,
                 c.where(n, f), f'unknown table for insert in {f.name}')
            continue
        bad = [k for k in d if k not in schema[t]]
        c.ob('C19.writer-keys', c.key(n, f)[:150] + f' ⊆ {t} columns',
             not bad, c.where(n, f),
             f'keys {sorted(d)}' if not bad else f'keys {bad} are not '
             f'columns of {t} {schema[t]}: add_insert_item pads them with '
             'NULL silently')
    # _put_insert_task_x adds name/cycle
    # ---- every selected column exists
    n_sel = 0
    for name, f in sorted(dao.methods.items()):
        if not name.startswith(('select_', 'pre_select_')):
            continue
        sql = sm.statement(c, f)
        if not sql:
            continue
        c.funcs_seen.add(f.fq)
        ftabs = sm.from_tables(sql)
        for t, col, raw in sm.select_columns(sql):
            if col == '?' or not re.match(r'^\w+$', col):
                continue
            n_sel += 1
            cands = [t] if t else ftabs
            ok = any(col in schema.get(x, []) for x in cands) or not cands
            c.ob('C19.select-columns', f'{f.fq} :: SELECT {raw}', ok,
                 c.where(f.node, f), f'{col} in {cands}' if ok else
                 f'column {col} does not exist in {cands}')
    c.floor('C19.select-columns', 'selected columns examined', n_sel, 60)

    # ---- SELECT order vs reader unpack
    for sel, ((rmod, rq), alias) in PAIRS.items():
        sf = dao.methods.get(sel)
        if sf is None:
            raise AnalysisError(f'DAO method {sel} not found')
        rf = c.func(rmod, rq)
        cols = [col for _t, col, _r in sm.select_columns(sm.statement(c, sf))]
        names = _unpack_of_row(c, rf)
        want = [alias.get(x, x) for x in cols]
        c.ob('C19.select-unpack', f'rundb:{DAO_NAME}.{sel} ↔ {rf.fq}',
             names is not None and names == want, c.where(rf.node, rf),
             f'SELECT {cols} unpacked as {names}' if names != want else
             f'{len(cols)} columns in matching order')
    # inline readers
    def sel_cols(name):
        return [col for _t, col, _r in sm.select_columns(
            sm.statement(c, dao.methods[name]))]
    spi = dao.methods['select_prev_instances']
    lc = [n for n in c.idx.walk(spi.node) if isinstance(n, ast.ListComp)]
    tgt = [norm(e) for e in lc[0].generators[0].target.elts] if lc else []
    c.ob('C19.select-unpack', f'{spi.fq} :: SELECT order = loop unpack',
         tgt == [{'flow_nums': 'flow_nums_str'}.get(x, x)
                 for x in sel_cols('select_prev_instances')],
         c.where(spi.node, spi), f'{sel_cols("select_prev_instances")} vs '
         f'{tgt}')
    if lc:
        elt = [norm(e) for e in lc[0].elt.elts]
        c.ob('C19.select-unpack', f'{spi.fq} :: yields (submit_num, '
             'flow_wait, flow_nums, status)', elt == [
                 'submit_num', 'flow_wait == 1',
                 'deserialise_set(flow_nums_str)', 'status'],
             c.where(spi.node, spi), str(elt))
    gh = c.func(TP, 'TaskPool._get_task_history')
    loops = [n for n in c.idx.walk(gh.node) if isinstance(n, ast.For)
             and norm(n.iter) == 'info']
    un = [norm(e) for e in loops[0].target.elts] if loops else []
    c.ob('C19.select-unpack', f'{gh.fq} :: unpacks (snum, flow_wait, '
         'flow_nums, status)', un == ['_snum', 'f_wait', 'old_fnums',
                                      'old_status'], c.where(gh.node, gh),
         str(un))
    sto = dao.methods['select_task_outputs']
    dc = [n for n in c.idx.walk(sto.node) if isinstance(n, ast.DictComp)]
    ok = bool(dc) and [norm(e) for e in dc[0].generators[0].target.elts] == \
        sel_cols('select_task_outputs') and norm(dc[0].key) == 'outputs' \
        and norm(dc[0].value) == 'deserialise_set(flow_nums)'
    c.ob('C19.select-unpack', f'{sto.fq} :: {{outputs: '
         'deserialise_set(flow_nums)}}', ok, c.where(sto.node, sto), '')
    lt = c.func(TP, 'TaskPool.load_db_tasks_to_hold')
    ge = [n for n in c.idx.walk(lt.node) if isinstance(n, ast.GeneratorExp)]
    ok = bool(ge) and [norm(e) for e in ge[0].generators[0].target.elts] == \
        sel_cols('select_tasks_to_hold') and norm(ge[0].elt) == \
        '(name, get_point(cycle))'
    c.ob('C19.select-unpack', f'{lt.fq} :: (name, cycle) rows', ok,
         c.where(lt.node, lt), '')
    rl = c.func(TP, 'TaskPool.load_db_task_pool_for_restart')
    # rows of select_task_prerequisites are unpacked positionally and keyed
    # (cycle, name, output) like Prerequisite keys -- as a loop filling a
    # dict or as a dict comprehension, whatever the variables are called
    cols = sel_cols('select_task_prerequisites')
    un, keyexpr = [], None
    for n in c.idx.walk(rl.node):
        if isinstance(n, ast.For) and 'select_task_prerequisites' in norm(
                n.iter) and isinstance(n.target, ast.Tuple):
            un = [norm(e) for e in n.target.elts]
            for k in ast.walk(n):
                if isinstance(k, ast.Subscript) and isinstance(
                        k.ctx, ast.Store) and isinstance(k.value, ast.Name):
                    keyexpr = k.slice
        elif isinstance(n, ast.DictComp) and any(
                'select_task_prerequisites' in norm(g.iter)
                for g in n.generators) and isinstance(
                n.generators[0].target, ast.Tuple):
            un = [norm(e) for e in n.generators[0].target.elts]
            keyexpr = n.key
    c.ob('C19.select-unpack', f'{rl.fq} :: prerequisite rows unpack '
         f'{len(cols)} columns', len(un) == len(cols) and len(set(un)) == len(
             un), c.where(rl.node, rl), f'{un} for {cols}')
    if len(un) == len(cols):
        byc = dict(zip(cols, un))
        want = [byc.get('prereq_cycle'), byc.get('prereq_name'),
                byc.get('prereq_output')]
        got = [norm(e) for e in keyexpr.elts] if isinstance(
            keyexpr, ast.Tuple) else None
        c.ob('C19.select-unpack', f'{rl.fq} :: sat keyed (cycle, name, '
             'output) like Prerequisite keys', got == want,
             c.where(rl.node, rl), f'key {got}, columns {cols} as {un}')
    la = c.func(TP, 'TaskPool.load_db_task_action_timers')
    un = _unpack_of_row(c, la)
    want = [{'ctx_key': 'ctx_key_raw', 'ctx': 'ctx_raw',
             'delays': 'delays_raw'}.get(x, x)
            for x in schema[tabs['TABLE_TASK_ACTION_TIMERS']]]
    c.ob('C19.select-unpack', f'{la.fq} :: schema order of '
         'task_action_timers', un == want, c.where(la.node, la),
         f'{un} vs {want}')

    # ---- codecs
    pairs = [('serialise_set', 'deserialise_set')]
    for t, d, n, f in rows:
        if 'flow_nums' in d:
            c.ob('C19.codec', c.key(n, f)[:120] + ' flow_nums encoded',
                 norm(d['flow_nums']).startswith('serialise_set('),
                 c.where(n, f), norm(d['flow_nums']))
    tpc = [n for n in c.calls(rl, 'TaskProxy')]
    for n in tpc:
        ok = len(n.args) >= 4 and norm(n.args[3]) == \
            'deserialise_set(flow_nums)'
        c.ob('C19.codec', c.key(n, rl)[:100] + ' flow_nums decoded', ok,
             c.where(n, rl), '')
    del pairs

    # ---- shape of the outputs column (F7)
    wr = c.func('workflow_db_mgr',
                'WorkflowDatabaseManager.put_update_task_outputs')
    ok = bool(c.find(wr, 'json.dumps(itask.state.outputs.'
                     'get_completed_outputs())'))
    c.ob('C19.outputs-shape', f'{wr.fq} :: writes json.dumps({{trigger: '
         'message}})', ok, c.where(wr.node, wr), '')
    gco = c.func('task_outputs', 'TaskOutputs.get_completed_outputs')
    rv = [r.value for r in c.idx.walk(gco.node) if isinstance(r, ast.Return)]
    c.ob('C19.outputs-shape', f'{gco.fq} :: returns a dict keyed by trigger',
         len(rv) == 1 and isinstance(rv[0], ast.DictComp) and norm(
             rv[0].key) == 'self._message_to_trigger[message]',
         c.where(gco.node, gco), '')
    readers = 0
    for n in c.find(None, 'json.loads(_x)'):
        arg = norm(n.args[0])
        f = c.owner(n)
        if f is None:
            continue
        # plain variables / row cells holding the raw column value only
        is_out = (isinstance(n.args[0], ast.Name) and 'outputs' in arg) or (
            arg == 'row[2]' and f.mod == 'dbstatecheck')
        if not is_out:
            continue
        readers += 1
        par = c.idx.parent[id(n)]
        key = c.key(n, f) + ' [outputs column reader]'
        if isinstance(par, (ast.For, ast.comprehension)) and par.iter is n:
            ok = c.holds(n, '!isinstance(_, dict)')
            c.ob('C19.outputs-shape', key, ok, c.where(n, f),
                 'legacy list branch' if ok else
                 'iterates json.loads(<outputs column>) directly: the column '
                 'holds a {trigger: message} dict, so the loop sees trigger '
                 'names where messages are expected (custom outputs whose '
                 'message differs from the trigger are lost)')
            continue
        var = None
        st = c.idx.stmt_of(n)
        if isinstance(st, (ast.Assign, ast.AnnAssign)):
            var = norm(st.targets[0] if isinstance(st, ast.Assign)
                       else st.target)
        ok = var is not None and bool(c.find(f, f'isinstance({var}, dict)'))
        c.ob('C19.outputs-shape', key, ok, c.where(n, f),
             f'{var} is tested with isinstance(..., dict)' if ok else
             'the reader does not distinguish the dict shape')
    c.floor('C19.outputs-shape', 'readers of the outputs column', readers, 5)
    # triggers go to set_trigger_complete, messages to set_message_complete
    for fn in ((TP, 'TaskPool.load_db_task_pool_for_restart'),
               (TP, 'TaskPool._load_historical_outputs'),
               ('data_store_mgr',
                'DataStoreMgr.apply_task_proxy_db_history')):
        f = c.func(*fn)
        for n in c.calls(f, 'set_message_complete'):
            a = n.args[0]
            src_bad = False
            cur = n
            while id(cur) in c.idx.parent:
                cur = c.idx.parent[id(cur)]
                if isinstance(cur, ast.For) and norm(cur.target) == norm(a):
                    it = norm(cur.iter)
                    if it.endswith('.keys()') or (
                            'json.loads' in it):
                        src_bad = True
                    break
            c.ob('C19.outputs-shape', c.key(n, f) + ' receives messages',
                 not src_bad, c.where(n, f),
                 'message API fed with messages' if not src_bad else
                 'message API fed with trigger names')

    # ---- restored fields
    for n in tpc:
        kw = {k.arg: norm(k.value) for k in n.keywords}
        want = {'status': 'status', 'is_held': 'is_held',
                'submit_num': 'submit_num', 'is_late': 'bool(is_late)',
                'flow_wait': 'bool(flow_wait)',
                'is_manual_submit': 'bool(is_manual_submit)'}
        for k, v in want.items():
            c.ob('C19.restored-fields', f'{rl.fq} :: TaskProxy({k}={v})',
                 kw.get(k) == v, c.where(n, rl), f'got {kw.get(k)}')
        ok = len(n.args) >= 3 and norm(n.args[2]) == 'get_point(cycle)' and \
            norm(n.args[1]) == 'self.config.get_taskdef(name)'
        c.ob('C19.restored-fields', f'{rl.fq} :: same task and point', ok,
             c.where(n, rl), '')
    rp = [n for n in c.idx.walk(rl.node) if isinstance(n, ast.Assign)
          and norm(n.targets[0]) == 'status'
          and norm(n.value) == 'TASK_STATUS_WAITING']
    c.floor('C19.restored-fields', 'preparing -> waiting on restart',
            len(rp), 1)
    for n in rp:
        c.guard('C19.restored-fields', n, ["status == 'preparing'"], rl,
                at_entry=True)
    fin = c.find(rl, 'itask.state_reset(status, is_runahead=True)')
    c.floor('C19.restored-fields', 'state_reset(status, is_runahead=True)',
            len(fin), 1)
    oc = [n for n in c.calls(rl, 'set_message_complete') + c.calls(
        rl, 'set_trigger_complete')]
    c.floor('C19.restored-fields', 'completed outputs reloaded', len(oc), 1)
    for n in oc:
        c.guard('C19.restored-fields', n, [StatusIn(
            'running', 'failed', 'succeeded')], rl)
    c.floor('C19.restored-fields', 'prerequisite satisfaction re-applied',
            len([s for s in c.idx.walk(rl.node) if isinstance(s, ast.Assign)
                 and norm(s.targets[0]) == 'itask_prereq[key]']), 2)
    c.floor('C19.restored-fields', 'xtrigger satisfaction re-applied', len(
        [s for s in c.stores(rl, 'xtriggers') if norm(s.value) == 'True']), 1)
    c.always('C19.restored-fields', rl, c.matches('self.add_to_pool(itask)'),
             'add_to_pool') if False else None
    c.floor('C19.restored-fields', 'add_to_pool(itask)', len(
        c.find(rl, 'self.add_to_pool(itask)')), 1)

    # ---- loaders
    lp = c.func(S, 'Scheduler._load_pool_from_db')
    for pat_ in (
        'self.workflow_db_mgr.pri_dao.select_broadcast_states('
        'self.broadcast_mgr.load_db_broadcast_states)',
        'self.broadcast_mgr.post_load_db_coerce()',
        'self.workflow_db_mgr.pri_dao.select_task_job_run_times('
        'self._load_task_run_times)',
        'self.workflow_db_mgr.pri_dao.select_task_pool_for_restart('
        'self.pool.load_db_task_pool_for_restart)',
        'self.workflow_db_mgr.pri_dao.select_jobs_for_restart('
        'self.data_store_mgr.insert_db_job)',
        'self.workflow_db_mgr.pri_dao.select_task_action_timers('
        'self.pool.load_db_task_action_timers)',
        'self.workflow_db_mgr.pri_dao.select_xtriggers_for_restart('
        'self.xtrigger_mgr.load_xtrigger_for_restart)',
        'self.workflow_db_mgr.pri_dao.select_abs_outputs_for_restart('
        'self.pool.load_abs_outputs_for_restart)',
        'self.pool.load_db_tasks_to_hold()',
        'self.pool.update_flow_mgr()',
    ):
        c.always('C19.loaders', lp, c.matches(pat_), pat_.split('(')[0])
    # action timers after the pool (they attach to pool tasks)
    for n in c.find(lp, '_.select_task_action_timers(_)'):
        c.pre('C19.loaders', lp, n,
              c.matches('_.select_task_pool_for_restart(_)'),
              'task pool load')
    cfg = c.func(S, 'Scheduler.configure')
    for n in c.find(cfg, 'self._load_pool_from_db()'):
        c.guard('C19.loaders', n, ['self.is_restart'], cfg)
    c.floor('C19.loaders', '_load_pool_from_db in configure', len(
        c.find(cfg, 'self._load_pool_from_db()')), 1)

    # ---- workflow params: writer, rewrite, restore branch
    wipe, single, rewrite = params_rewrite(c)
    c.floor('C19.params', 'single-key writers', len(single), 5)
    swp = c.func(S, 'Scheduler._set_workflow_params')
    branches = set()
    for n in c.idx.walk(swp.node):
        if isinstance(n, ast.Compare) and norm(n.left) == 'key' and \
                isinstance(n.comparators[0], ast.Attribute):
            branches.add(n.comparators[0].attr)
    for k in sorted(single):
        check_rewrite_key(c, 'C19.rewrite-complete', k, wipe, single, rewrite)
        if k == 'KEY_RESTART_COUNT':
            # restored by select_workflow_params_restart_count (restart_check)
            c.ob('C19.params', 'workflow_db_mgr: restart count read back by '
                 'restart_check', bool(c.find(
                     c.func('workflow_db_mgr',
                            'WorkflowDatabaseManager.restart_check'),
                     '_.select_workflow_params_restart_count()')), '', '')
            continue
        c.ob('C19.params', f'{swp.fq} :: restore branch for {k}',
             k in branches, c.where(swp.node, swp), '')
    # the flow counter comes back as the highest number ever recorded,
    # not the highest among the flows still in the pool (a finished flow's
    # number would be handed out again)
    ld = c.func('flow_mgr', 'FlowMgr.load_from_db')
    cs = c.stores(ld, 'counter')
    c.floor('C19.flow-counter', f'{ld.fq} :: counter restored', len(cs), 1)
    for st_ in cs:
        c.ob('C19.flow-counter', c.key(st_.node, ld) + ' = max flow number '
             'in the DB', norm(st_.value) == 'self.db_mgr.pri_dao.'
             'select_workflow_flows_max_flow_num()', c.where(st_.node, ld),
             norm(st_.value))
    from rules._shared import rewrite_live_source_rules
    rewrite_live_source_rules(c, 'C19.rewrite-live', single, rewrite, wipe)
    for k in ('KEY_INITIAL_CYCLE_POINT', 'KEY_START_CYCLE_POINT',
              'KEY_FINAL_CYCLE_POINT', 'KEY_RUN_MODE', 'KEY_UTC_MODE',
              'KEY_CYCLE_POINT_TIME_ZONE', 'KEY_UUID_STR'):
        c.ob('C19.params', f'{swp.fq} :: restore branch for {k}',
             k in branches, c.where(swp.node, swp), '')
        c.ob('C19.params', f'workflow_db_mgr: {k} written at start-up',
             k in rewrite, '', '')
    # ---- shutdown flush
    sd = c.func(S, 'Scheduler._shutdown')
    ptp = c.find(sd, 'self.workflow_db_mgr.put_task_pool(self.pool)')
    pet = c.find(sd, 'self.workflow_db_mgr.put_task_event_timers('
                 'self.task_events_mgr)')
    c.floor('C19.shutdown', 'put_task_pool at shutdown', len(ptp), 1)
    c.floor('C19.shutdown', 'put_task_event_timers at shutdown', len(pet), 1)
    close = c.find(sd, 'self.workflow_db_mgr.on_workflow_shutdown()')
    c.floor('C19.shutdown', 'on_workflow_shutdown()', len(close), 1)
    flush = c.find(sd, 'self.workflow_db_mgr.process_queued_ops()') + c.find(
        sd, 'self.process_workflow_db_queue()')
    c.floor('C19.shutdown', 'queue flush at shutdown', len(flush), 1)
    cfgd = c.cfg(sd)
    for p in ptp:
        ok = any(cfgd.path_exists(c.idx.stmt_of(p), c.idx.stmt_of(fl)) and
                 any(cfgd.path_exists(c.idx.stmt_of(fl), c.idx.stmt_of(cl))
                     for cl in close) for fl in flush)
        c.ob('C19.shutdown', c.key(p, sd) + ' then flush then close', ok,
             c.where(p, sd), '')

    # ---- cancel prunes queued broadcast inserts only on an exact match
    broadcast_prune_rules(c, 'C19')


DAO_NAME = 'CylcWorkflowDAO'

# identity of a row as the in-memory model has it (confirmed by reading the
# writers); `None` = append-only log table / whole-tuple identity: the table
# must have no primary key, or one covering every listed column
ROW_IDENTITY = {
    'broadcast_states': ['point', 'namespace', 'key'],
    'inheritance': ['namespace'],
    'workflow_params': ['key'],
    'workflow_flows': ['flow_num'],
    'workflow_template_vars': ['key'],
    'task_action_timers': ['cycle', 'name', 'ctx_key'],
    'task_jobs': ['cycle', 'name', 'submit_num'],
    'task_late_flags': ['cycle', 'name'],
    'task_outputs': ['cycle', 'name', 'flow_nums'],
    'task_pool': ['cycle', 'name', 'flow_nums'],
    'task_prerequisites': ['cycle', 'name', 'flow_nums', 'prereq_name',
                           'prereq_cycle', 'prereq_output'],
    'xtriggers': ['signature'],
    'task_states': ['name', 'cycle', 'flow_nums'],
    'task_timeout_timers': ['cycle', 'name'],
    'absolute_outputs': ('whole', ['cycle', 'name', 'output']),
    'tasks_to_hold': ('whole', ['name', 'cycle']),
    'broadcast_events': ('log', []),
    'task_events': ('log', []),
}


def primary_keys(c, rule, only=None):
    ta = c.K.class_attr(DAO_NAME, 'TABLES_ATTRS')
    if not isinstance(ta, dict):
        raise AnalysisError('TABLES_ATTRS does not fold')
    for t, cols in sorted(ta.items()):
        if only is not None and t not in only:
            continue
        pk = [col[0] for col in cols if len(col) > 1 and isinstance(
            col[1], dict) and col[1].get('is_primary_key')]
        want = ROW_IDENTITY.get(t)
        if want is None:
            c.ob(rule, f'rundb:TABLES_ATTRS[{t}] primary key', False, '',
                 f'table {t} has no recorded row identity (new table?)')
        elif isinstance(want, tuple):
            kind, full = want
            ok = not pk or (kind == 'whole' and set(pk) == set(full))
            c.ob(rule, f'rundb:TABLES_ATTRS[{t}] primary key', ok, '',
                 f'primary key {pk}: rows are distinct facts' if ok else
                 f'primary key {pk} is narrower than the row identity '
                 f'{full or "(append-only log)"}: INSERT OR REPLACE silently '
                 'drops earlier rows that differ only in the other columns')
        else:
            c.ob(rule, f'rundb:TABLES_ATTRS[{t}] primary key',
                 set(pk) == set(want), '', f'primary key {pk}' + (
                     '' if set(pk) == set(want) else f', row identity {want}: '
                     'rows overwrite each other / duplicate on replace'))

VARIANTS = [
    ('hold-point-rewritten-from-options', 'cylc/flow/workflow_db_mgr.py',
     '''            {
                "key": self.KEY_HOLD_CYCLE_POINT,
                "value": (
                    str(schd.pool.hold_point)
                    if schd.pool.hold_point is not None else None
                ),
            },
        ])''', '''            {
                "key": self.KEY_HOLD_CYCLE_POINT,
                "value": getattr(schd.options, self.KEY_HOLD_CYCLE_POINT, None),
            },
        ])''', 'C19.rewrite-live'),
    ('swap-select', 'cylc/flow/rundb.py',
     '''                %(task_pool)s.status,
                %(task_pool)s.is_held,
                %(task_states)s.submit_num,''',
     '''                %(task_pool)s.is_held,
                %(task_pool)s.status,
                %(task_states)s.submit_num,''', 'C19.select-unpack'),
    ('restart-forgets-held', 'cylc/flow/task_pool.py',
     '''                status=status,
                is_held=is_held,
                submit_num=submit_num,
                is_late=bool(is_late),''',
     '''                status=status,
                submit_num=submit_num,
                is_late=bool(is_late),''', 'C19.restored-fields'),
    ('writer-typo', 'cylc/flow/workflow_db_mgr.py',
     '''                "status": itask.state.status,
                "is_held": itask.state.is_held
            })''', '''                "status": itask.state.status,
                "held": itask.state.is_held
            })''', 'C19.writer-keys'),
    ('F7-regression', 'cylc/flow/task_pool.py',
     '''                outputs = json.loads(outputs_str)
                if isinstance(outputs, dict):''',
     '''                outputs = json.loads(outputs_str)
                if False:''', 'C19.outputs-shape'),
    ('no-timers-load', 'cylc/flow/scheduler.py',
     '''        self.workflow_db_mgr.pri_dao.select_task_action_timers(
            self.pool.load_db_task_action_timers)
''', '', 'C19.loaders'),
    ('shutdown-no-pool', 'cylc/flow/scheduler.py',
     '''                self.workflow_db_mgr.put_task_pool(self.pool)
            except Exception as exc:''',
     '''                pass
            except Exception as exc:''', 'C19.shutdown'),
    ('no-restore-branch', 'cylc/flow/scheduler.py',
     '            elif key == self.workflow_db_mgr.KEY_STOP_TASK:',
     '            elif key == "stop-task":', 'C19.params'),
    ('prep-not-reset', 'cylc/flow/task_pool.py',
     '            elif status == TASK_STATUS_PREPARING:\n                # put back',
     '            elif status == TASK_STATUS_PREPARING and is_held:\n                # put back',
     'C19.restored-fields') if False else
    ('flownums-raw', 'cylc/flow/workflow_db_mgr.py',
     '''                "flow_nums": serialise_set(itask.flow_nums),
                "status": itask.state.status,
                "is_held": itask.state.is_held''',
     '''                "flow_nums": str(itask.flow_nums),
                "status": itask.state.status,
                "is_held": itask.state.is_held''', 'C19.codec'),
    ('F6-regression-stoptask', 'cylc/flow/workflow_db_mgr.py',
     '{"key": self.KEY_STOP_TASK, "value": schd.pool.stop_task_id},',
     '{"key": self.KEY_STOP_TASK, "value": schd.stop_task},',
     'C19.rewrite-complete'),
    ('prune-on-any-match', 'cylc/flow/workflow_db_mgr.py',
     '''                    if any(insert[key] != broadcast_change[key]
                           for key in ["point", "namespace", "key"]):''',
     '''                    if not any(insert[key] == broadcast_change[key]
                               for key in ["point", "namespace", "key"]):''',
     'C19.broadcast-prune'),
    ('benign-prune-not-all', 'cylc/flow/workflow_db_mgr.py',
     '''                    if any(insert[key] != broadcast_change[key]
                           for key in ["point", "namespace", "key"]):''',
     '''                    if not all(insert[key] == broadcast_change[key]
                               for key in ("key", "point", "namespace")):''',
     None),
]

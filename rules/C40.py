"""C40 Workflow-state queries match exactly what was recorded."""
import ast
import re

from sa.core import AnalysisError, norm
from sa import pat
from sa.pat import AnyOf

TECHNIQUE = ('static analysis: SQL-fragment operator check on the WHERE '
             'templates reached by user task/cycle patterns (taint to the '
             'pattern parameter through an escaping step; locals followed to '
             'their definitions per if/else alternative), guard atoms of the '
             'flow filter and output selector, truth-table equivalence of the '
             'if/return tree of _selector_in_outputs')

CLAUSES = (
    'Decided: in CylcWorkflowDBChecker.workflow_state_query a user task/cycle '
    'pattern reaches the database only as a bound parameter of an exact '
    '(==) comparison, or of a case-sensitive pattern operator whose other '
    'metacharacters are escaped on the way (GLOB with [ and ? escaped, or '
    'LIKE ... ESCAPE with % and _ escaped under PRAGMA case_sensitive_like); '
    'rows are dropped by the flow filter only when a flow was requested and '
    'the row is not in it; a result is kept only if the selector is absent, '
    'is among the messages, or matches the outputs (finish = succeeded or '
    'failed). Not decided: SQLite pattern semantics (trusted).')

M = 'dbstatecheck'


def _consts(node):
    return [n.value for n in ast.walk(node) if isinstance(n, ast.Constant)
            and isinstance(n.value, str)]


def _escapes(c, val, needed):
    """The bound value passes through an expression (or a one-level helper)
    whose string constants mention all the characters in `needed`."""
    seen = set()
    if val is None:
        return False
    for s in _consts(val):
        seen.update(ch for ch in needed if ch in s)
    for call in [x for x in ast.walk(val) if isinstance(x, ast.Call)]:
        h = c.resolve_helper(call)
        if h is not None:
            for s in _consts(h.node):
                seen.update(ch for ch in needed if ch in s)
    return seen >= set(needed)


from rules._shared import (value_alts as _alts,  # noqa: E402
                           enclosing_tests as _enclosing,
                           compatible_tests as _compatible)


def _ret_formula(stmts):
    """The value returned by a block of `if` / `return` statements, as one
    expression (if t: A; rest  ->  A if t else rest); None if not of that
    shape."""
    if not stmts:
        return None
    s = stmts[0]
    if isinstance(s, ast.Return):
        return s.value
    if isinstance(s, ast.If):
        a = _ret_formula(s.body)
        b = _ret_formula(list(s.orelse) + list(stmts[1:]))
        if a is None or b is None:
            return None
        return ast.IfExp(test=s.test, body=a, orelse=b)
    if isinstance(s, ast.Expr) and isinstance(s.value, ast.Constant):
        return _ret_formula(stmts[1:])          # docstring
    return None


def _truth(c, e, atoms, env, val):
    """Evaluate the boolean expression under the atom valuation `val`
    (None: a leaf that is none of the atoms)."""
    if isinstance(e, ast.Constant) and isinstance(e.value, bool):
        return e.value
    if isinstance(e, ast.BoolOp):
        vs = [_truth(c, v, atoms, env, val) for v in e.values]
        if None in vs:
            return None
        return all(vs) if isinstance(e.op, ast.And) else any(vs)
    if isinstance(e, ast.UnaryOp) and isinstance(e.op, ast.Not):
        v = _truth(c, e.operand, atoms, env, val)
        return None if v is None else not v
    if isinstance(e, ast.IfExp):
        t = _truth(c, e.test, atoms, env, val)
        if t is None:
            return None
        return _truth(c, e.body if t else e.orelse, atoms, env, val)
    for k, p in enumerate(atoms):
        if pat.match_atom_nodes(p, True, e, True, env):
            return val[k]
        if pat.match_atom_nodes(p, True, e, False, env):
            return not val[k]
    return None


def _same_function(c, formula, atoms, expected) -> bool:
    import itertools
    env = c.env(formula)
    pats = [pat.parse_pat(a)[0] for a in atoms]
    for val in itertools.product((False, True), repeat=len(atoms)):
        if _truth(c, formula, pats, env, val) is not expected(*val):
            return False
    return True


def check(c):
    q = c.func(M, 'CylcWorkflowDBChecker.workflow_state_query')
    params = [a.arg for a in q.node.args.args]
    for p in ('task', 'cycle'):
        c.ob('C40.params', f'{q.fq} has parameter {p}', p in params,
             c.where(q.node, q), '')
    # WHERE templates: what is appended to the where list, with the value
    # bound to its placeholder.  A local is followed to its definition(s):
    # `w, v = (A, B) if t else (C, D)` / if-else definitions give one
    # alternative per arm, each with the tests it is taken under.
    apps = [n for n in c.calls(q, 'append')
            if norm(n.func.value) == 'stmt_wheres']
    binds = [n for n in c.calls(q, 'append')
             if norm(n.func.value) == 'stmt_args']
    cls = c.idx.cls('CylcWorkflowDBChecker', M)
    pragma = [s for s in _consts(cls.node)
              if re.search(r'case_sensitive_like\s*=\s*(1|true|on)', s, re.I)]
    templates = []
    for a in apps:
        al = _alts(c, q, a.args[0], a)
        if al is None:
            c.ob('C40.where-templates', c.key(a, q), False, c.where(a, q),
                 'WHERE fragment is not a string literal (definition of '
                 f'{norm(a.args[0])} not followed)')
            continue
        templates.extend((a, conds + _enclosing(c, q, a), e)
                         for conds, e in al)
    c.floor('C40.where-templates', 'WHERE templates appended',
            len(templates), 4)
    for a, conds, e in templates:
        txt = c.fold(e)
        if not isinstance(txt, str):
            c.ob('C40.where-templates', c.key(a, q) + f' <- {norm(e)}', False,
                 c.where(a, q), 'WHERE fragment is not a string literal')
            continue
        m = re.match(r'\s*(\w+)\s*(==|=|!=|<>|\bis\b|\blike\b|\bglob\b|'
                     r'\bnot\s+like\b|\bregexp\b|\bmatch\b)\s*\?\s*(.*)$',
                     txt, re.I)
        if not m:
            c.ob('C40.where-templates', c.key(a, q), False, c.where(a, q),
                 f'unrecognised WHERE fragment {txt!r}')
            continue
        col, op, tail = m.group(1), m.group(2).lower(), m.group(3)
        # the value bound to this placeholder: the next stmt_args.append in
        # the enclosing `if <var>:` block, in the same alternative
        b = None
        cur = a
        while id(cur) in c.idx.parent and b is None:
            cur = c.idx.parent[id(cur)]
            if isinstance(cur, ast.If):
                for s in cur.body:
                    if isinstance(s, ast.Expr) and isinstance(
                            s.value, ast.Call) and norm(
                            s.value.func) == 'stmt_args.append':
                        b = s.value
        val = None
        if b is not None:
            bl = _alts(c, q, b.args[0], b) or []
            ok_alts = [(cs, x) for cs, x in bl
                       if _compatible(cs + _enclosing(c, q, b), conds)]
            if len(ok_alts) == 1:
                val = ok_alts[0][1]
                conds = conds + ok_alts[0][0]
        roots = sorted({n.id for n in ast.walk(val) if isinstance(
            n, ast.Name)} & {'task', 'cycle', 'selector'}) if val is not None \
            else []
        var = roots[0] if len(roots) == 1 else None
        key = f'{q.fq} :: WHERE {col} {op.upper()} ? bound to {var}'
        if op in ('==', '=', 'is'):
            c.ob('C40.exact-match', key, var is not None and norm(val) == var,
                 c.where(a, q), 'exact, case-sensitive comparison with the '
                 'user string' if var is not None and norm(val) == var else
                 f'bound value {norm(val) if val is not None else None}')
        elif op == 'glob':
            ok = var is not None and _escapes(c, val, '[?')
            c.ob('C40.exact-match', key, ok, c.where(a, q),
                 'GLOB is case-sensitive; [ and ? are escaped on the way'
                 if ok else 'GLOB pattern: the characters [ and ? of the '
                 'user pattern are not escaped before binding')
        elif op == 'like':
            esc = 'escape' in tail.lower()
            ok = esc and bool(pragma) and var is not None and _escapes(
                c, val, '%_')
            c.ob('C40.exact-match', key, ok, c.where(a, q),
                 'LIKE with ESCAPE, escaped % and _, case_sensitive_like on'
                 if ok else
                 'LIKE: "_" and "%" in the user pattern act as wildcards'
                 + ('' if esc else ' (no ESCAPE clause)')
                 + ('' if pragma else '; LIKE is case-insensitive (no PRAGMA '
                    'case_sensitive_like)')
                 + f' — e.g. pattern "foo_*" also matches "fooXa"/"FOO_a"')
        else:
            c.ob('C40.exact-match', key, False, c.where(a, q),
                 f'operator {op!r} is not an exact/pattern match')
        if var in ('task', 'cycle') and op in ('like', 'glob'):
            # the wildcard branch is taken only for patterns containing '*'
            c.ob('C40.wildcard-branch', key + " only for patterns with '*'",
                 any(pol and c.find(t, f"'*' in {var}") for t, pol in conds),
                 c.where(a, q), '')
            want = '%' if op == 'like' else '*'
            ok = op == 'glob' or f".replace('*', '{want}')" in norm(val) \
                or _escapes(c, val, '*%')
            c.ob('C40.wildcard-branch', key + ' star translation', ok,
                 c.where(a, q), '')
    # the bound values are the user's strings
    bound = set()
    plain = True
    for b in binds:
        for _cs, x in (_alts(c, q, b.args[0], b) or [([], b.args[0])]):
            names = {n.id for n in ast.walk(x) if isinstance(n, ast.Name)}
            bound |= names & set(params)
            plain = plain and len(names & set(params)) == 1
    c.ob('C40.params', f'{q.fq} binds task, cycle, selector',
         plain and sorted(bound) == ['cycle', 'selector', 'task'],
         c.where(q.node, q), f'bound: {sorted(bound)}')
    ex = c.find(q, 'self.conn.execute(stmt, stmt_args)')
    c.floor('C40.params', 'conn.execute(stmt, stmt_args)', len(ex), 1)
    # no user value is interpolated into the statement text
    for n in ast.walk(q.node):
        if isinstance(n, (ast.Assign, ast.AugAssign)) and norm(
                n.targets[0] if isinstance(n, ast.Assign) else n.target) == \
                'stmt':
            names = {x.id for x in ast.walk(n.value)
                     if isinstance(x, ast.Name)}
            bad = names & {'task', 'cycle', 'selector', 'flow_num'}
            c.ob('C40.no-interpolation', c.key(n, q), not bad, c.where(n, q),
                 f'user value(s) {sorted(bad)} formatted into SQL' if bad
                 else 'statement text built from constants')

    # flow filter
    conts = [n for n in ast.walk(q.node) if isinstance(n, ast.Continue)]
    flowc = [n for n in conts if c.holds(n, '!(flow_num in flow_nums)')]
    c.exactly('C40.flow-filter', 'flow filter `continue`', len(flowc), 1)
    for n in flowc:
        c.guard('C40.flow-filter', n,
                ['!(flow_num is None)', '!(flow_num in flow_nums)'], q)
        c.guard_only('C40.flow-filter', n,
                     ['!(flow_num is None)', '!(flow_num in flow_nums)',
                      '!self.c7_back_compat_mode', '!(row[2] is None)'], q)
    fn = [n for n in ast.walk(q.node) if isinstance(n, ast.Assign)
          and norm(n.targets[0]) == 'flow_nums']
    c.ob('C40.flow-filter', f'{q.fq} :: flow_nums = deserialise_set(row[3])',
         len(fn) == 1 and norm(fn[0].value) == 'deserialise_set(row[3])',
         c.where(q.node, q), '')
    others = [n for n in conts if n not in flowc]
    for n in others:
        c.guard_only('C40.row-dropped', n, ['row[2] is None'], q)
    # kept rows
    keep = [n for n in c.calls(q, 'append') if norm(n.func.value) ==
            'results']
    c.floor('C40.selector', 'results.append', len(keep), 1)
    for k in keep:
        c.guard('C40.selector', k, [AnyOf(
            'selector is None', 'selector in messages',
            'self._selector_in_outputs(selector, outputs)')], q)
    msgs = [n for n in ast.walk(q.node)
            if isinstance(n, (ast.Assign, ast.AnnAssign))
            and n.value is not None
            and norm(n.targets[0] if isinstance(n, ast.Assign)
                     else n.target) == 'messages']
    ok = any(norm(n.value) == 'outputs.values()' and c.holds(
        n, 'isinstance(outputs, dict)') for n in msgs)
    c.ob('C40.selector', f'{q.fq} :: messages = outputs.values() for dict '
         'outputs', ok, c.where(q.node, q), '')
    so = c.func(M, 'CylcWorkflowDBChecker._selector_in_outputs')
    # whatever the spelling (one expression, early returns): the value is
    #   selector in outputs or (selector is finish(ed) and
    #                           (succeeded in outputs or failed in outputs))
    an = [a.arg for a in so.node.args.args][-2:]
    form = _ret_formula(so.node.body)
    atoms = [f"'succeeded' in {an[1]}", f"'failed' in {an[1]}",
             f"{an[0]} in ('finished', 'finish')", f'{an[0]} in {an[1]}']
    ok = form is not None and len(an) == 2 and _same_function(
        c, form, atoms, lambda s_, f_, fin, direct:
        direct or (fin and (s_ or f_)))
    c.ob('C40.selector', f'{so.fq} :: selector in outputs or finish => '
         'succeeded|failed', ok, c.where(so.node, so),
         norm(form) if form is not None else 'not an if/return tree')


VARIANTS = [
    ('glob-unescaped', 'cylc/flow/dbstatecheck.py',
     '                task = _glob_escape(task)\n', '', 'C40.exact-match'),
    ('wildcard-branch-always', 'cylc/flow/dbstatecheck.py',
     "            if '*' in cycle:", "            if cycle:",
     'C40.wildcard-branch'),
    ('benign-early-returns', 'cylc/flow/dbstatecheck.py',
     '''        return selector in outputs or (
            selector in (TASK_OUTPUT_FINISHED, "finish")
            and (
                TASK_OUTPUT_SUCCEEDED in outputs
                or TASK_OUTPUT_FAILED in outputs
            )
        )''',
     '''        if selector in outputs:
            return True
        if selector not in (TASK_OUTPUT_FINISHED, "finish"):
            return False
        return (TASK_OUTPUT_FAILED in outputs
                or TASK_OUTPUT_SUCCEEDED in outputs)''', None),
    ('early-returns-finish-any', 'cylc/flow/dbstatecheck.py',
     '''        return selector in outputs or (
            selector in (TASK_OUTPUT_FINISHED, "finish")
            and (
                TASK_OUTPUT_SUCCEEDED in outputs
                or TASK_OUTPUT_FAILED in outputs
            )
        )''',
     '''        if selector in outputs:
            return True
        if selector in (TASK_OUTPUT_FINISHED, "finish"):
            return True
        return (TASK_OUTPUT_FAILED in outputs
                or TASK_OUTPUT_SUCCEEDED in outputs)''', 'C40.selector'),
    ('F3-regression-like', 'cylc/flow/dbstatecheck.py',
     'stmt_wheres.append("name GLOB ?")', 'stmt_wheres.append("name like ?")',
     'C40.exact-match'),
    ('flow-filter-inverted', 'cylc/flow/dbstatecheck.py',
     'if flow_num is not None and flow_num not in flow_nums:',
     'if flow_num is not None and flow_num in flow_nums:',
     'C40.flow-filter'),
    ('finish-means-succeeded', 'cylc/flow/dbstatecheck.py',
     '''                TASK_OUTPUT_SUCCEEDED in outputs
                or TASK_OUTPUT_FAILED in outputs''',
     '''                TASK_OUTPUT_SUCCEEDED in outputs''',
     'C40.selector'),
    ('message-any', 'cylc/flow/dbstatecheck.py',
     '(is_message and selector in messages) or',
     '(is_message and messages) or', 'C40.selector'),
    ('interpolate', 'cylc/flow/dbstatecheck.py',
     '            stmt += "WHERE\\n    " + (" AND ").join(stmt_wheres)',
     '            stmt += "WHERE\\n    " + (" AND ").join(stmt_wheres)\n'
     '            stmt += f" AND name != \'{task}\'"',
     'C40.no-interpolation'),
]

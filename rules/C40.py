"""C40 Workflow-state queries match exactly what was recorded."""
import ast
import re

from sa.core import AnalysisError, norm
from sa.pat import AnyOf

TECHNIQUE = ('static analysis: SQL-fragment operator check on the WHERE '
             'templates reached by user task/cycle patterns (taint to the '
             'pattern parameter through an escaping step), guard atoms of the '
             'flow filter and output selector')

CLAUSES = (
    'Decided: in CylcWorkflowDBChecker.workflow_state_query a user task/cycle '
    'pattern reaches the database only as a bound parameter of an exact '
    '(==) comparison, or of a case-sensitive pattern operator whose other '
    'metacharacters are escaped on the way (GLOB with [ and ? escaped, or '
    'LIKE ... ESCAPE with % and _ escaped under PRAGMA case_sensitive_like); '
    'rows are dropped by the flow filter only when a flow was requested and '
    'the row is not in it; a result is kept only if the selector is absent, '
    'is among the messages, or matches the outputs (finish = succeeded or '
    'failed). Not decided: SQLite pattern semantics (trusted).')

M = 'dbstatecheck'


def _consts(node):
    return [n.value for n in ast.walk(node) if isinstance(n, ast.Constant)
            and isinstance(n.value, str)]


def _escapes(c, f, var, branch, needed):
    """Within `branch` the variable is re-assigned through an expression (or
    a one-level helper) whose string constants mention all chars in needed."""
    seen = set()
    for n in ast.walk(branch):
        if isinstance(n, ast.Assign) and norm(n.targets[0]) == var:
            for s in _consts(n.value):
                seen.update(ch for ch in needed if ch in s)
            for call in [x for x in ast.walk(n.value)
                         if isinstance(x, ast.Call)]:
                h = c.resolve_helper(call)
                if h is not None:
                    for s in _consts(h.node):
                        seen.update(ch for ch in needed if ch in s)
    return seen >= set(needed)


def check(c):
    q = c.func(M, 'CylcWorkflowDBChecker.workflow_state_query')
    params = [a.arg for a in q.node.args.args]
    for p in ('task', 'cycle'):
        c.ob('C40.params', f'{q.fq} has parameter {p}', p in params,
             c.where(q.node, q), '')
    # WHERE templates: string constants appended to the where list
    apps = [n for n in c.calls(q, 'append')
            if norm(n.func.value) == 'stmt_wheres']
    c.floor('C40.where-templates', 'stmt_wheres.append sites', len(apps), 4)
    cls = c.idx.cls('CylcWorkflowDBChecker', M)
    pragma = [s for s in _consts(cls.node)
              if re.search(r'case_sensitive_like\s*=\s*(1|true|on)', s, re.I)]
    for a in apps:
        arg = a.args[0]
        if not (isinstance(arg, ast.Constant) and isinstance(arg.value, str)):
            c.ob('C40.where-templates', c.key(a, q), False, c.where(a, q),
                 'WHERE fragment is not a string literal')
            continue
        txt = arg.value
        m = re.match(r'\s*(\w+)\s*(==|=|!=|<>|\bis\b|\blike\b|\bglob\b|'
                     r'\bnot\s+like\b|\bregexp\b|\bmatch\b)\s*\?\s*(.*)$',
                     txt, re.I)
        if not m:
            c.ob('C40.where-templates', c.key(a, q), False, c.where(a, q),
                 f'unrecognised WHERE fragment {txt!r}')
            continue
        col, op, tail = m.group(1), m.group(2).lower(), m.group(3)
        # which variable is bound to this placeholder: the next
        # stmt_args.append in the enclosing `if <var>:` block
        var = None
        cur = a
        while id(cur) in c.idx.parent:
            cur = c.idx.parent[id(cur)]
            if isinstance(cur, ast.If):
                for s in cur.body:
                    if isinstance(s, ast.Expr) and isinstance(
                            s.value, ast.Call) and norm(
                            s.value.func) == 'stmt_args.append':
                        var = norm(s.value.args[0])
                if var:
                    break
        branch = c.idx.parent[id(c.idx.stmt_of(a))]
        key = f'{q.fq} :: WHERE {col} {op.upper()} ? bound to {var}'
        if op in ('==', '=', 'is'):
            c.ob('C40.exact-match', key, True, c.where(a, q),
                 'exact, case-sensitive comparison')
        elif op == 'glob':
            ok = var is not None and _escapes(c, q, var, branch, '[?')
            c.ob('C40.exact-match', key, ok, c.where(a, q),
                 'GLOB is case-sensitive; [ and ? are escaped on the way'
                 if ok else 'GLOB pattern: the characters [ and ? of the '
                 'user pattern are not escaped before binding')
        elif op == 'like':
            esc = 'escape' in tail.lower()
            ok = esc and bool(pragma) and var is not None and _escapes(
                c, q, var, branch, '%_')
            c.ob('C40.exact-match', key, ok, c.where(a, q),
                 'LIKE with ESCAPE, escaped % and _, case_sensitive_like on'
                 if ok else
                 'LIKE: "_" and "%" in the user pattern act as wildcards'
                 + ('' if esc else ' (no ESCAPE clause)')
                 + ('' if pragma else '; LIKE is case-insensitive (no PRAGMA '
                    'case_sensitive_like)')
                 + f' — e.g. pattern "foo_*" also matches "fooXa"/"FOO_a"')
        else:
            c.ob('C40.exact-match', key, False, c.where(a, q),
                 f'operator {op!r} is not an exact/pattern match')
        if var in ('task', 'cycle') and op in ('like', 'glob'):
            # the wildcard branch is taken only for patterns containing '*'
            c.ob('C40.wildcard-branch', key + " only for patterns with '*'",
                 isinstance(branch, ast.If) and bool(
                     c.find(branch.test, f"'*' in {var}"))
                 and any(s is c.idx.stmt_of(a) for s in branch.body),
                 c.where(a, q), '')
            star = [n for n in ast.walk(branch) if isinstance(n, ast.Assign)
                    and norm(n.targets[0]) == var]
            want = '%' if op == 'like' else '*'
            ok = op == 'glob' or any(
                f".replace('*', '{want}')" in norm(s.value) for s in star
            ) or _escapes(c, q, var, branch, '*%')
            c.ob('C40.wildcard-branch', key + ' star translation', ok,
                 c.where(a, q), '')
    # the bound values are the user's strings
    binds = [n for n in c.calls(q, 'append')
             if norm(n.func.value) == 'stmt_args']
    bound = sorted(norm(b.args[0]) for b in binds)
    c.ob('C40.params', f'{q.fq} binds task, cycle, selector',
         bound == ['cycle', 'selector', 'task'], c.where(q.node, q),
         f'bound: {bound}')
    ex = c.find(q, 'self.conn.execute(stmt, stmt_args)')
    c.floor('C40.params', 'conn.execute(stmt, stmt_args)', len(ex), 1)
    # no user value is interpolated into the statement text
    for n in ast.walk(q.node):
        if isinstance(n, (ast.Assign, ast.AugAssign)) and norm(
                n.targets[0] if isinstance(n, ast.Assign) else n.target) == \
                'stmt':
            names = {x.id for x in ast.walk(n.value)
                     if isinstance(x, ast.Name)}
            bad = names & {'task', 'cycle', 'selector', 'flow_num'}
            c.ob('C40.no-interpolation', c.key(n, q), not bad, c.where(n, q),
                 f'user value(s) {sorted(bad)} formatted into SQL' if bad
                 else 'statement text built from constants')

    # flow filter
    conts = [n for n in ast.walk(q.node) if isinstance(n, ast.Continue)]
    flowc = [n for n in conts if c.holds(n, '!(flow_num in flow_nums)')]
    c.exactly('C40.flow-filter', 'flow filter `continue`', len(flowc), 1)
    for n in flowc:
        c.guard('C40.flow-filter', n,
                ['!(flow_num is None)', '!(flow_num in flow_nums)'], q)
        c.guard_only('C40.flow-filter', n,
                     ['!(flow_num is None)', '!(flow_num in flow_nums)',
                      '!self.c7_back_compat_mode', '!(row[2] is None)'], q)
    fn = [n for n in ast.walk(q.node) if isinstance(n, ast.Assign)
          and norm(n.targets[0]) == 'flow_nums']
    c.ob('C40.flow-filter', f'{q.fq} :: flow_nums = deserialise_set(row[3])',
         len(fn) == 1 and norm(fn[0].value) == 'deserialise_set(row[3])',
         c.where(q.node, q), '')
    others = [n for n in conts if n not in flowc]
    for n in others:
        c.guard_only('C40.row-dropped', n, ['row[2] is None'], q)
    # kept rows
    keep = [n for n in c.calls(q, 'append') if norm(n.func.value) ==
            'results']
    c.floor('C40.selector', 'results.append', len(keep), 1)
    for k in keep:
        c.guard('C40.selector', k, [AnyOf(
            'selector is None', 'selector in messages',
            'self._selector_in_outputs(selector, outputs)')], q)
    msgs = [n for n in ast.walk(q.node)
            if isinstance(n, (ast.Assign, ast.AnnAssign))
            and n.value is not None
            and norm(n.targets[0] if isinstance(n, ast.Assign)
                     else n.target) == 'messages']
    ok = any(norm(n.value) == 'outputs.values()' and c.holds(
        n, 'isinstance(outputs, dict)') for n in msgs)
    c.ob('C40.selector', f'{q.fq} :: messages = outputs.values() for dict '
         'outputs', ok, c.where(q.node, q), '')
    so = c.func(M, 'CylcWorkflowDBChecker._selector_in_outputs')
    rets = [n for n in ast.walk(so.node) if isinstance(n, ast.Return)]
    pat = ("_s in _o or (_s in ('finished', 'finish') and "
           "('succeeded' in _o or 'failed' in _o))")
    ok = len(rets) == 1 and bool(c.find(rets[0], pat))
    c.ob('C40.selector', f'{so.fq} :: selector in outputs or finish => '
         'succeeded|failed', ok, c.where(so.node, so),
         norm(rets[0].value) if rets else '')


VARIANTS = [
    ('F3-regression-like', 'cylc/flow/dbstatecheck.py',
     'stmt_wheres.append("name GLOB ?")', 'stmt_wheres.append("name like ?")',
     'C40.exact-match'),
    ('flow-filter-inverted', 'cylc/flow/dbstatecheck.py',
     'if flow_num is not None and flow_num not in flow_nums:',
     'if flow_num is not None and flow_num in flow_nums:',
     'C40.flow-filter'),
    ('finish-means-succeeded', 'cylc/flow/dbstatecheck.py',
     '''                TASK_OUTPUT_SUCCEEDED in outputs
                or TASK_OUTPUT_FAILED in outputs''',
     '''                TASK_OUTPUT_SUCCEEDED in outputs''',
     'C40.selector'),
    ('message-any', 'cylc/flow/dbstatecheck.py',
     '(is_message and selector in messages) or',
     '(is_message and messages) or', 'C40.selector'),
    ('interpolate', 'cylc/flow/dbstatecheck.py',
     '            stmt += "WHERE\\n    " + (" AND ").join(stmt_wheres)',
     '            stmt += "WHERE\\n    " + (" AND ").join(stmt_wheres)\n'
     '            stmt += f" AND name != \'{task}\'"',
     'C40.no-interpolation'),
]

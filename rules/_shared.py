"""Rule fragments shared by several properties."""
import ast

from sa.core import norm

WDM = 'workflow_db_mgr'


def straight_line(c, a, b):
    from rules.C33 import straight_line as sl
    return sl(c, a, b)


def params_rewrite(c):
    """Facts about the workflow_params table writers.

    Returns (single, rewrite): single = {KEY_NAME: writer Func} for the
    single-key writers put_workflow_*; rewrite = {KEY_NAME: value node} for
    the keys (re)inserted by the function that wipes the table.
    """
    cls = c.idx.cls('WorkflowDatabaseManager', WDM)
    wipe = None
    for f in cls.methods.values():
        for n in c.idx.walk(f.node):
            if isinstance(n, ast.Call) and isinstance(n.func, ast.Attribute) \
                    and n.func.attr == 'append' and norm(n.func.value) == \
                    'self.db_deletes_map[self.TABLE_WORKFLOW_PARAMS]' \
                    and n.args and isinstance(n.args[0], ast.Dict) \
                    and not n.args[0].keys:
                wipe = f
    single = {}
    rewrite = {}

    def key_name(node):
        if isinstance(node, ast.Attribute) and node.attr.startswith('KEY_'):
            return node.attr
        return None
    for f in cls.methods.values():
        c.funcs_seen.add(f.fq)
        for n in c.idx.walk(f.node):
            if isinstance(n, ast.Call) and isinstance(n.func, ast.Attribute) \
                    and n.func.attr == 'put_workflow_params_1' and n.args:
                k = key_name(n.args[0])
                if f is wipe:
                    if k:
                        rewrite[k] = n.args[1] if len(n.args) > 1 else None
                    elif isinstance(n.args[0], ast.Name):
                        # for key in (KEY_A, KEY_B): put_workflow_params_1(key
                        cur = n
                        while id(cur) in c.idx.parent:
                            cur = c.idx.parent[id(cur)]
                            if isinstance(cur, ast.For) and norm(
                                    cur.target) == n.args[0].id and isinstance(
                                    cur.iter, (ast.Tuple, ast.List)):
                                for e in cur.iter.elts:
                                    kk = key_name(e)
                                    if kk:
                                        rewrite[kk] = n.args[1] if len(
                                            n.args) > 1 else None
                                break
                elif k:
                    single[k] = f
        if f is wipe:
            for n in c.idx.walk(f.node):
                if isinstance(n, ast.Dict) and len(n.keys) == 2:
                    ks = {(k.value if isinstance(k, ast.Constant) else None): v
                          for k, v in zip(n.keys, n.values)}
                    if 'key' in ks and 'value' in ks:
                        kk = key_name(ks['key'])
                        if kk:
                            rewrite[kk] = ks['value']
    return wipe, single, rewrite


def check_rewrite_key(c, rule, key, wipe, single, rewrite):
    """The table wipe re-inserts `key` from a live source."""
    where = c.where(wipe.node, wipe) if wipe else ''
    if wipe is None:
        c.ob(rule, f'{WDM}: no function wipes workflow_params', True, '',
             'no delete-all of the table: single-key rows persist')
        return
    present = key in rewrite
    c.ob(rule, f'{wipe.fq} :: re-inserts {key} after wiping workflow_params',
         present, where,
         f'{key} is re-inserted' if present else
         f'{wipe.name} deletes every row of workflow_params and does not '
         f're-insert {key}, which {single[key].name if key in single else "?"}'
         ' maintains: the value is forgotten when this runs (start-up / '
         'reload) and is not restored on the next restart')
    if not present:
        return
    v = rewrite[key]
    dead = None
    if isinstance(v, ast.Attribute) and isinstance(v.value, ast.Name) and \
            v.value.id == 'schd':
        stores = [s for s in c.stores(None, v.attr)
                  if c.idx.owner(s.node) is not None]
        if not stores:
            dead = f'{norm(v)}: attribute .{v.attr} is never assigned'
    c.ob(rule, f'{wipe.fq} :: {key} re-inserted from a live source',
         dead is None, where,
         f'value {norm(v) if v is not None else "?"}' if dead is None else
         f'{key} is re-inserted from a dead source ({dead}): the stored '
         'value is overwritten with None')

"""Rule fragments shared by several properties."""
import ast

from sa.core import norm

WDM = 'workflow_db_mgr'


def straight_line(c, a, b):
    from rules.C33 import straight_line as sl
    return sl(c, a, b)


def params_rewrite(c):
    """Facts about the workflow_params table writers.

    Returns (single, rewrite): single = {KEY_NAME: writer Func} for the
    single-key writers put_workflow_*; rewrite = {KEY_NAME: value node} for
    the keys (re)inserted by the function that wipes the table.
    """
    cls = c.idx.cls('WorkflowDatabaseManager', WDM)
    wipe = None
    for f in cls.methods.values():
        for n in c.idx.walk(f.node):
            if isinstance(n, ast.Call) and isinstance(n.func, ast.Attribute) \
                    and n.func.attr == 'append' and norm(n.func.value) == \
                    'self.db_deletes_map[self.TABLE_WORKFLOW_PARAMS]' \
                    and n.args and isinstance(n.args[0], ast.Dict) \
                    and not n.args[0].keys:
                wipe = f
    single = {}
    rewrite = {}

    def key_name(node):
        if isinstance(node, ast.Attribute) and node.attr.startswith('KEY_'):
            return node.attr
        return None
    for f in cls.methods.values():
        c.funcs_seen.add(f.fq)
        for n in c.idx.walk(f.node):
            if isinstance(n, ast.Call) and isinstance(n.func, ast.Attribute) \
                    and n.func.attr == 'put_workflow_params_1' and n.args:
                k = key_name(n.args[0])
                if f is wipe:
                    if k:
                        rewrite[k] = n.args[1] if len(n.args) > 1 else None
                    elif isinstance(n.args[0], ast.Name):
                        # for key in (KEY_A, KEY_B): put_workflow_params_1(key
                        cur = n
                        while id(cur) in c.idx.parent:
                            cur = c.idx.parent[id(cur)]
                            if isinstance(cur, ast.For) and norm(
                                    cur.target) == n.args[0].id and isinstance(
                                    cur.iter, (ast.Tuple, ast.List)):
                                for e in cur.iter.elts:
                                    kk = key_name(e)
                                    if kk:
                                        rewrite[kk] = n.args[1] if len(
                                            n.args) > 1 else None
                                break
                elif k:
                    single[k] = f
        if f is wipe:
            for n in c.idx.walk(f.node):
                if isinstance(n, ast.Dict) and len(n.keys) == 2:
                    ks = {(k.value if isinstance(k, ast.Constant) else None): v
                          for k, v in zip(n.keys, n.values)}
                    if 'key' in ks and 'value' in ks:
                        kk = key_name(ks['key'])
                        if kk:
                            rewrite[kk] = ks['value']
    return wipe, single, rewrite


def check_rewrite_key(c, rule, key, wipe, single, rewrite):
    """The table wipe re-inserts `key` from a live source."""
    where = c.where(wipe.node, wipe) if wipe else ''
    if wipe is None:
        c.ob(rule, f'{WDM}: no function wipes workflow_params', True, '',
             'no delete-all of the table: single-key rows persist')
        return
    present = key in rewrite
    c.ob(rule, f'{wipe.fq} :: re-inserts {key} after wiping workflow_params',
         present, where,
         f'{key} is re-inserted' if present else
         f'{wipe.name} deletes every row of workflow_params and does not '
         f're-insert {key}, which {single[key].name if key in single else "?"}'
         ' maintains: the value is forgotten when this runs (start-up / '
         'reload) and is not restored on the next restart')
    if not present:
        return
    v = rewrite[key]
    dead = None
    if isinstance(v, ast.Attribute) and isinstance(v.value, ast.Name) and \
            v.value.id == 'schd':
        stores = [s for s in c.stores(None, v.attr)
                  if c.idx.owner(s.node) is not None]
        if not stores:
            dead = f'{norm(v)}: attribute .{v.attr} is never assigned'
    c.ob(rule, f'{wipe.fq} :: {key} re-inserted from a live source',
         dead is None, where,
         f'value {norm(v) if v is not None else "?"}' if dead is None else
         f'{key} is re-inserted from a dead source ({dead}): the stored '
         'value is overwritten with None')


def stop_point_limit_rules(c, P):
    """Runahead limit never passes the stop point (shared by C04 / C07):
    the stored limit is clamped to the stop point *after* the future-offset
    adjustment, and tasks are released only at or below the limit."""
    from sa.pat import AnyOf
    TP = 'task_pool'
    cr = c.func(TP, 'TaskPool.compute_runahead')
    st = [s for s in c.stores(cr, 'runahead_limit_point')]
    c.exactly(f'{P}.stop-limit', 'runahead_limit_point store in '
              'compute_runahead', len(st), 1)
    cfg = c.cfg(cr)
    for s in st:
        lim = norm(s.value)
        clamp = [n for n in c.idx.walk(cr.node) if isinstance(n, ast.Assign)
                 and norm(n.targets[0]) == lim
                 and norm(n.value) == 'self.stop_point']
        c.floor(f'{P}.stop-limit', f'{lim} = self.stop_point', len(clamp), 1)
        for cl in clamp:
            c.guard(f'{P}.stop-limit', cl,
                    ['self.stop_point', f'self.stop_point < {lim}'], cr)
        c.pre(f'{P}.stop-limit', cr, s.node,
              c.matches(f'self.stop_point < {lim}'), 'stop-point clamp test')
        adds = [n for n in c.idx.walk(cr.node) if isinstance(
            n, (ast.AugAssign, ast.Assign)) and norm(
            n.target if isinstance(n, ast.AugAssign) else n.targets[0]) == lim
            and 'max_future_offset' in norm(n.value)]
        for a in adds:
            for cl in clamp:
                ok = cfg.path_exists(a, cl) and not cfg.path_exists(cl, a)
                c.ob(f'{P}.stop-limit', c.key(cl, cr) + ' after the '
                     'future-offset adjustment', ok, c.where(cl, cr),
                     'clamp applied last' if ok else 'the future offset is '
                     'added after clamping: the limit can pass the stop point')
        # nothing else modifies the value between the clamp and the store
        for n in c.idx.walk(cr.node):
            if isinstance(n, (ast.Assign, ast.AugAssign)) and norm(
                    n.target if isinstance(n, ast.AugAssign)
                    else n.targets[0]) == lim and n not in clamp:
                for cl in clamp:
                    bad = cfg.path_exists(cl, n) and cfg.path_exists(
                        n, s.node)
                    c.ob(f'{P}.stop-limit', c.key(n, cr) + ' not between '
                         'clamp and store', not bad, c.where(n, cr), '')
    rr = c.func(TP, 'TaskPool.release_runahead_tasks')
    for n in c.find(rr, '_.state_reset(*_, is_runahead=False)'):
        c.guard(f'{P}.stop-limit', n,
                ['point <= self.runahead_limit_point'], rr,
                what='release only at or below the limit;')
    ssp = c.func(TP, 'TaskPool.set_stop_point')
    for s in c.stores(ssp, 'runahead_limit_point'):
        c.guard(f'{P}.stop-limit', s.node,
                ['stop_point < self.runahead_limit_point'], ssp)
        c.ob(f'{P}.stop-limit', c.key(s.node, ssp) + ' lowered to the stop '
             'point', norm(s.value) == 'stop_point', c.where(s.node, ssp), '')
    del AnyOf

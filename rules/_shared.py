"""Rule fragments shared by several properties."""
import ast

from sa.core import norm

WDM = 'workflow_db_mgr'


def straight_line(c, a, b):
    from rules.C33 import straight_line as sl
    return sl(c, a, b)


def reach_table(c, node, atoms: dict, f=None):
    """R-FINITE: under which truth assignments of the named atoms is `node`
    reached?  atoms: {name: pattern}.  Returns {assignment tuple (in the
    order of atoms): bool}, or None when some path condition of the site
    mentions anything else (then the site is not a finite decision over the
    atoms)."""
    import itertools
    from sa.pat import R
    names = list(atoms)
    facts = c.facts(node, expand=False)
    env = c.env(node)

    def ev(t, val):
        if t[0] == 'atom':
            if isinstance(t[1], ast.Constant):
                return bool(t[1].value) == t[2]
            for nm in names:
                env.binds.clear()
                if R(atoms[nm]).implied_by(('atom', t[1], True), env):
                    return val[nm] == t[2]
                env.binds.clear()
                if R(atoms[nm]).implied_by(('atom', t[1], False), env):
                    return val[nm] != t[2]
            raise KeyError(norm(t[1]))
        vals = [ev(m, val) for m in t[1]]
        return all(vals) if t[0] == 'and' else any(vals)
    out = {}
    try:
        for combo in itertools.product([False, True], repeat=len(names)):
            val = dict(zip(names, combo))
            out[combo] = all(ev(t, val) for t in facts)
    except KeyError:
        return None
    return out


def followed_by(c, stmt, kind) -> bool:
    """In stmt's own block, a statement of `kind` (ast.Break / ast.Continue /
    ast.Return ...) follows it with only straight-line statements (no
    branching, no other exit) in between -- robust to an inserted log call or
    assignment, unlike `block[i + 1]`."""
    par = c.idx.parent.get(id(stmt))
    for field in ('body', 'orelse', 'finalbody'):
        blk = getattr(par, field, None)
        if isinstance(blk, list) and any(s is stmt for s in blk):
            i = next(k for k, s in enumerate(blk) if s is stmt)
            for s in blk[i + 1:]:
                if isinstance(s, kind):
                    return True
                if not isinstance(s, (ast.Expr, ast.Assign, ast.AnnAssign,
                                      ast.AugAssign, ast.Pass)):
                    return False
            return False
    return False


def params_rewrite(c):
    """Facts about the workflow_params table writers.

    Returns (single, rewrite): single = {KEY_NAME: writer Func} for the
    single-key writers put_workflow_*; rewrite = {KEY_NAME: value node} for
    the keys (re)inserted by the function that wipes the table.
    """
    cls = c.idx.cls('WorkflowDatabaseManager', WDM)
    wipe = None
    for f in cls.methods.values():
        for n in c.idx.walk(f.node):
            if isinstance(n, ast.Call) and isinstance(n.func, ast.Attribute) \
                    and n.func.attr == 'append' and norm(n.func.value) == \
                    'self.db_deletes_map[self.TABLE_WORKFLOW_PARAMS]' \
                    and n.args and isinstance(n.args[0], ast.Dict) \
                    and not n.args[0].keys:
                wipe = f
    single = {}
    rewrite = {}

    def key_name(node):
        if isinstance(node, ast.Attribute) and node.attr.startswith('KEY_'):
            return node.attr
        return None
    for f in cls.methods.values():
        c.funcs_seen.add(f.fq)
        for n in c.idx.walk(f.node):
            if isinstance(n, ast.Call) and isinstance(n.func, ast.Attribute) \
                    and n.func.attr == 'put_workflow_params_1' and n.args:
                k = key_name(n.args[0])
                if f is wipe:
                    if k:
                        rewrite[k] = n.args[1] if len(n.args) > 1 else None
                    elif isinstance(n.args[0], ast.Name):
                        # for key in (KEY_A, KEY_B): put_workflow_params_1(key
                        cur = n
                        while id(cur) in c.idx.parent:
                            cur = c.idx.parent[id(cur)]
                            if isinstance(cur, ast.For) and norm(
                                    cur.target) == n.args[0].id and isinstance(
                                    cur.iter, (ast.Tuple, ast.List)):
                                for e in cur.iter.elts:
                                    kk = key_name(e)
                                    if kk:
                                        rewrite[kk] = n.args[1] if len(
                                            n.args) > 1 else None
                                break
                elif k:
                    single[k] = f
        if f is wipe:
            for n in c.idx.walk(f.node):
                if isinstance(n, ast.Dict) and len(n.keys) == 2:
                    ks = {(k.value if isinstance(k, ast.Constant) else None): v
                          for k, v in zip(n.keys, n.values)}
                    if 'key' in ks and 'value' in ks:
                        kk = key_name(ks['key'])
                        if kk:
                            rewrite[kk] = ks['value']
    return wipe, single, rewrite


def check_rewrite_key(c, rule, key, wipe, single, rewrite):
    """The table wipe re-inserts `key` from a live source."""
    where = c.where(wipe.node, wipe) if wipe else ''
    if wipe is None:
        c.ob(rule, f'{WDM}: no function wipes workflow_params', True, '',
             'no delete-all of the table: single-key rows persist')
        return
    present = key in rewrite
    c.ob(rule, f'{wipe.fq} :: re-inserts {key} after wiping workflow_params',
         present, where,
         f'{key} is re-inserted' if present else
         f'{wipe.name} deletes every row of workflow_params and does not '
         f're-insert {key}, which {single[key].name if key in single else "?"}'
         ' maintains: the value is forgotten when this runs (start-up / '
         'reload) and is not restored on the next restart')
    if not present:
        return
    v = rewrite[key]
    dead = None
    if isinstance(v, ast.Attribute) and isinstance(v.value, ast.Name) and \
            v.value.id == 'schd':
        stores = [s for s in c.stores(None, v.attr)
                  if c.idx.owner(s.node) is not None]
        if not stores:
            dead = f'{norm(v)}: attribute .{v.attr} is never assigned'
    c.ob(rule, f'{wipe.fq} :: {key} re-inserted from a live source',
         dead is None, where,
         f'value {norm(v) if v is not None else "?"}' if dead is None else
         f'{key} is re-inserted from a dead source ({dead}): the stored '
         'value is overwritten with None')


def prereq_dedup_rules(c, P):
    """Prerequisites of one task are de-duplicated by a key that must
    distinguish different logic over the same outputs (shared C01 / C13)."""
    ih = c.func('prerequisite', 'Prerequisite.instantaneous_hash')
    rets = [r.value for r in c.idx.walk(ih.node) if isinstance(r, ast.Return)]
    parts = []
    if len(rets) == 1 and isinstance(rets[0], ast.Call) and norm(
            rets[0].func) == 'hash' and isinstance(rets[0].args[0], ast.Tuple):
        parts = [norm(e) for e in rets[0].args[0].elts]
    need = ['self.point', 'self.conditional_expression',
            'tuple(self._satisfied.keys())']
    missing = [n for n in need if n not in parts]
    c.ob(f'{P}.prereq-dedup', f'{ih.fq} :: key covers point, expression and '
         'output keys', not missing, c.where(ih.node, ih),
         f'hash of {parts}' if not missing else
         f'de-duplication key omits {missing}: two dependencies of one task '
         'over the same outputs but with different logic (e.g. '
         '`FAM:succeed-all => t` and `FAM:succeed-any => t`) collide and one '
         'silently replaces the other')
    ap = c.func('task_state', 'TaskState._add_prerequisites')
    # (whatever the prerequisite variable is called; new private helpers
    # of the function are searched with it)
    keyed = [s for root in c.scope_nodes(ap) for s in c.idx.walk(root)
             if isinstance(s, ast.Assign)
             and isinstance(s.targets[0], ast.Subscript)
             and norm(s.targets[0].slice).endswith('.instantaneous_hash()')]
    c.floor(f'{P}.prereq-dedup', 'prerequisites keyed by '
            'instantaneous_hash()', len(keyed), 2)
    for s in keyed:
        var = norm(s.targets[0].slice)[:-len('.instantaneous_hash()')]
        c.ob(f'{P}.prereq-dedup', c.key(s, ap) + ' stores the prerequisite',
             norm(s.value) == var, c.where(s, ap), '')
    # the expression is set before the key is taken
    gp = c.func('task_trigger', 'Dependency.get_prerequisite')
    rr = [r for r in c.idx.walk(gp.node) if isinstance(r, ast.Return)]
    for r in rr:
        c.pre(f'{P}.prereq-dedup', gp, r, c.matches(
            'cpre.set_conditional_expr(self.get_expression(point))'),
            'expression set before the prerequisite is returned')


def retry_lined_up_rules(c, P):
    """A waiting task with a retry lined up ignores every late message of
    the failed job, received or polled (shared C09 / C10)."""
    from sa.pat import AnyOf, StatusIn
    chk = c.func('task_events_mgr', 'TaskEventsManager._process_message_check')
    falses = [r for r in c.idx.walk(chk.node) if isinstance(r, ast.Return)
              and norm(r.value) == 'False']
    retry = [r for r in falses if not c.holds(
        r, '!(submit_num == itask.submit_num)')]
    c.floor(f'{P}.retry-lined-up', 'return False for retry-lined-up',
            len(retry), 1)
    vocab = [
        StatusIn('waiting'), "message == 'expired'",
        'itask.run_mode == RunMode.LIVE',
        '0 < itask.try_timers[TimerFlags.SUBMISSION_RETRY].num',
        '0 < itask.try_timers[TimerFlags.EXECUTION_RETRY].num',
        'TimerFlags.SUBMISSION_RETRY in itask.try_timers',
        'TimerFlags.EXECUTION_RETRY in itask.try_timers',
        '!itask.transient', '!forced',
    ]
    for r in retry:
        c.guard(f'{P}.retry-lined-up', r, [
            StatusIn('waiting'), "!(message == 'expired')",
            'itask.run_mode == RunMode.LIVE',
            AnyOf('0 < itask.try_timers[TimerFlags.SUBMISSION_RETRY].num',
                  '0 < itask.try_timers[TimerFlags.EXECUTION_RETRY].num',
                  'TimerFlags.SUBMISSION_RETRY in itask.try_timers',
                  'TimerFlags.EXECUTION_RETRY in itask.try_timers')], chk)
        # not narrowed further (e.g. to polled messages only); the
        # stale-job early return contributes (flag, submit_num) as a
        # disjunction, whose leaves may have either polarity
        c.guard_only(f'{P}.retry-lined-up', r, vocab + [
            "!(message == 'expired')"], chk,
            'the rejection applies to received and polled messages alike;',
            composite_extra=['flag == self.FLAG_RECEIVED',
                             'submit_num == itask.submit_num'])


def submit_retry_reset_rules(c, P):
    """The submission-retry counter is reset only once a job has actually
    started (or was vacated back to submitted), never on mere acceptance of
    the submission (shared C02)."""
    tem = 'task_events_mgr'
    allowed = {
        f'{tem}:TaskEventsManager._process_message_started',
        f'{tem}:TaskEventsManager.process_message',
    }
    n = started = 0
    for s in c.stores(None, 'num'):
        tgt = norm(s.target.value)
        if 'try_timers' not in tgt or 'SUBMISSION_RETRY' not in tgt:
            continue
        n += 1
        f = c.owner(s.node)
        fq = f.fq if f else '<module>'
        ok = fq in allowed and norm(s.value) == '0'
        in_started = ok and fq.endswith('._process_message_started')
        if not ok and f is not None and norm(s.value) == '0':
            # a private helper whose every caller is the started handler
            callers = [c.owner(k) for k in c.calls(None, f.node.name)]
            ok = bool(callers) and all(
                k is not None and k.fq == f'{tem}:TaskEventsManager.'
                '_process_message_started' for k in callers)
            in_started = ok
        started += bool(in_started)
        if fq.endswith('.process_message'):
            ok = ok and c.holds(
                s.node, 'task_output == VACATION_MESSAGE_PREFIX')
        c.ob(f'{P}.submit-retry-reset', c.key(s.node, f) + ' [reset of the '
             'submission try counter]', ok, c.where(s.node, f),
             'reset when the job started / was vacated' if ok else
             f'submission try counter reset in {fq}: submissions that are '
             'accepted but never start no longer consume submission retries, '
             'so the task can be submitted more than retries+1 times')
    c.floor(f'{P}.submit-retry-reset', 'resets of the submission try counter',
            n, 2)
    c.floor(f'{P}.submit-retry-reset', 'reset on job start', started, 1)


def _same_key_compare(node, op) -> bool:
    """`<a>[<k>] <op> <b>[<k>]` with two different plain names a, b and the
    same plain name k (whatever the variables are called)."""
    from sa.pat import nf, canon_cmp
    t = nf(node, True)
    if t[0] != 'atom':
        return False
    cc = canon_cmp(t[1], t[2])      # `not a == b` is `a != b`
    if cc is None or cc[0] != '==' or cc[3] != (op is ast.Eq):
        return False
    a, b = cc[1], cc[2]
    return (isinstance(a, ast.Subscript) and isinstance(b, ast.Subscript)
            and isinstance(a.value, ast.Name)
            and isinstance(b.value, ast.Name)
            and a.value.id != b.value.id
            and isinstance(a.slice, ast.Name)
            and norm(a.slice) == norm(b.slice))


def broadcast_prune_rules(c, P):
    """On cancel, a queued broadcast_states insert is dropped only when
    point, namespace and key ALL match the cancelled setting (shared
    C19 / C22)."""
    w = c.func('workflow_db_mgr', 'WorkflowDatabaseManager.put_broadcast')
    keys = {'point', 'namespace', 'key'}
    ok = False
    detail = 'no recognised keep-filter'
    for n in c.idx.walk(w.node):
        ac = c.any_condition(n) if isinstance(n, ast.Call) else None
        if ac is None:
            continue
        cond, it = ac
        v = c.fold(it) if isinstance(it, (ast.List, ast.Tuple, ast.Set)) \
            else None
        if v is None or set(v) != keys:
            continue
        txt = norm(cond)
        kept_if_any_differs = _same_key_compare(cond, ast.NotEq)
        # how is the any(...) used?
        par = c.idx.parent.get(id(n))
        neg = isinstance(par, ast.UnaryOp) and isinstance(par.op, ast.Not)
        if kept_if_any_differs and not neg:
            ok = True
            detail = 'insert kept if any of point/namespace/key differs'
        else:
            detail = (f'keep-filter is `{"not " if neg else ""}any({txt} for '
                      f'key in {sorted(v)})`: a queued insert that shares '
                      'only one of point/namespace/key with the cancelled '
                      'setting is dropped and never reaches the DB')
    for n in c.idx.walk(w.node):
        if isinstance(n, ast.Call) and isinstance(n.func, ast.Name) and \
                n.func.id == 'all' and n.args and isinstance(
                    n.args[0], ast.GeneratorExp):
            g = n.args[0]
            v = c.fold(g.generators[0].iter)
            par = c.idx.parent.get(id(n))
            neg = isinstance(par, ast.UnaryOp) and isinstance(par.op, ast.Not)
            if v is not None and set(v) == keys and _same_key_compare(
                    g.elt, ast.Eq) and neg:
                ok = True
                detail = 'insert dropped only if all three match'
    c.ob(f'{P}.broadcast-prune', f'{w.fq} :: queued inserts dropped only on '
         'an exact (point, namespace, key) match', ok, c.where(w.node, w),
         detail)


def stop_point_limit_rules(c, P):
    """Runahead limit never passes the stop point (shared by C04 / C07):
    the stored limit is clamped to the stop point *after* the future-offset
    adjustment, and tasks are released only at or below the limit."""
    from sa.pat import AnyOf
    TP = 'task_pool'
    cr = c.func(TP, 'TaskPool.compute_runahead')
    st = [s for s in c.stores(cr, 'runahead_limit_point')]
    c.exactly(f'{P}.stop-limit', 'runahead_limit_point store in '
              'compute_runahead', len(st), 1)
    cfg = c.cfg(cr)
    for s in st:
        lim = norm(s.value)
        clamp = [n for n in c.idx.walk(cr.node) if isinstance(n, ast.Assign)
                 and norm(n.targets[0]) == lim
                 and norm(n.value) == 'self.stop_point']
        c.floor(f'{P}.stop-limit', f'{lim} = self.stop_point', len(clamp), 1)
        for cl in clamp:
            c.guard(f'{P}.stop-limit', cl,
                    ['self.stop_point', f'self.stop_point < {lim}'], cr)
        c.pre(f'{P}.stop-limit', cr, s.node,
              c.matches(f'self.stop_point < {lim}'), 'stop-point clamp test')
        adds = [n for n in c.idx.walk(cr.node) if isinstance(
            n, (ast.AugAssign, ast.Assign)) and norm(
            n.target if isinstance(n, ast.AugAssign) else n.targets[0]) == lim
            and 'max_future_offset' in norm(n.value)]
        for a in adds:
            for cl in clamp:
                ok = cfg.path_exists(a, cl) and not cfg.path_exists(cl, a)
                c.ob(f'{P}.stop-limit', c.key(cl, cr) + ' after the '
                     'future-offset adjustment', ok, c.where(cl, cr),
                     'clamp applied last' if ok else 'the future offset is '
                     'added after clamping: the limit can pass the stop point')
        # nothing else modifies the value between the clamp and the store
        for n in c.idx.walk(cr.node):
            if isinstance(n, (ast.Assign, ast.AugAssign)) and norm(
                    n.target if isinstance(n, ast.AugAssign)
                    else n.targets[0]) == lim and n not in clamp:
                for cl in clamp:
                    bad = cfg.path_exists(cl, n) and cfg.path_exists(
                        n, s.node)
                    c.ob(f'{P}.stop-limit', c.key(n, cr) + ' not between '
                         'clamp and store', not bad, c.where(n, cr), '')
    rr = c.func(TP, 'TaskPool.release_runahead_tasks')
    for n in c.find(rr, '_.state_reset(*_, is_runahead=False)'):
        c.guard(f'{P}.stop-limit', n,
                ['point <= self.runahead_limit_point'], rr,
                what='release only at or below the limit;')
    ssp = c.func(TP, 'TaskPool.set_stop_point')
    for s in c.stores(ssp, 'runahead_limit_point'):
        c.guard(f'{P}.stop-limit', s.node,
                ['stop_point < self.runahead_limit_point'], ssp)
        c.ob(f'{P}.stop-limit', c.key(s.node, ssp) + ' lowered to the stop '
             'point', norm(s.value) == 'stop_point', c.where(s.node, ssp), '')
    del AnyOf


def pool_cache_rules(c, rule):
    """TaskPool.get_tasks() serves a cached list that is rebuilt only when
    `active_tasks_changed` is set.  Everything that scans the pool (stall
    detection, runahead base point, the pool-wide future offset, release
    loops) sees the true membership only if every change of membership of
    `active_tasks` sets the flag *before* any method that reads the cached
    list is called."""
    import ast
    from sa import pat as _pat
    from sa.cfg import stmt_has
    from sa.core import norm
    TP = 'task_pool'
    cls = c.idx.cls('TaskPool', TP)

    def self_call(n):
        return isinstance(n, ast.Call) and isinstance(
            n.func, ast.Attribute) and isinstance(
            n.func.value, ast.Name) and n.func.value.id == 'self'
    readers = {'get_tasks'}
    grew = True
    while grew:
        grew = False
        for name, f in cls.methods.items():
            if name in readers:
                continue
            if any(self_call(n) and n.func.attr in readers
                   for n in c.idx.walk(f.node)):
                readers.add(name)
                grew = True
    c.floor(rule, 'TaskPool methods that read the cached task list '
            '(closure over self.<m>() of get_tasks)', len(readers), 8)
    gt = c.func(TP, 'TaskPool.get_tasks')
    rebuild = [n for n in c.idx.walk(gt.node) if isinstance(n, ast.Assign)
               and norm(n.targets[0]) == 'self._active_tasks_list']
    c.floor(rule, f'{gt.fq} :: rebuild of the cached list', len(rebuild), 1)
    for n in rebuild:
        c.guard_only(rule, n, ['self.active_tasks_changed'], gt)
        c.ob(rule, c.key(n, gt) + ' from self.active_tasks', any(
            isinstance(x, ast.comprehension) and norm(x.iter) ==
            'self.active_tasks.values()' for x in ast.walk(n.value)),
            c.where(n, gt), '')
    c.who_writes(rule, 'active_tasks_changed', {
        (f'{TP}:TaskPool.__init__', 'assign'),
        (f'{TP}:TaskPool.get_tasks', 'assign'),
        (f'{TP}:TaskPool._swap_out', 'assign'),
        (f'{TP}:TaskPool.add_to_pool', 'assign'),
        (f'{TP}:TaskPool.remove', 'assign'),
    }, floor=5)
    for s in c.stores(None, 'active_tasks_changed'):
        f = c.owner(s.node)
        if norm(s.value) == 'False' and f is not None and f.fq not in (
                f'{TP}:TaskPool.__init__', f'{TP}:TaskPool.get_tasks'):
            c.ob(rule, c.key(s.node, f) + ' [flag cleared]', False,
                 c.where(s.node, f), 'the flag is cleared outside get_tasks')
    changes = pool_membership_change(c)
    flag = c.assigns('self.active_tasks_changed', 'True')

    def reads(n):
        return self_call(n) and n.func.attr in readers
    n_mut = 0
    for f in cls.methods.values():
        muts = [s for s in c.idx.walk(f.node) if changes(s)]
        if not muts:
            continue
        cfg = c.cfg(f)
        for s in muts:
            n_mut += 1
            c.post(rule, f, s, flag, 'active_tasks_changed = True')
            starts = []
            for k in cfg.keys.get(id(s), []):
                starts.extend(cfg.succ[k])
            seen = cfg._reach(starts, lambda k: stmt_has(cfg.stmt[k], flag))
            stale = []
            for k in seen:
                if not isinstance(k, tuple):
                    continue
                st = cfg.stmt[k]
                if stmt_has(st, flag):
                    continue
                if stmt_has(st, reads):
                    stale.append(st)
            c.ob(rule, c.key(s, f) + ' no read of the cached pool list '
                 'before the invalidation', not stale, c.where(s, f),
                 '; '.join(f'{norm(x)[:60]} (line {int(x.lineno)}) runs on '
                           'the stale list' for x in stale[:3]))
    c.floor(rule, 'membership changes of active_tasks', n_mut, 3)


def job_prep_writer_rules(c, rule):
    """A task marked `waiting_on_job_prep` is handed to job submission by
    release_tasks_to_run without going through the queue or the readiness
    test again -- so also without the `is_held` tests made there.  The mark
    may only be set where the task has just passed those tests (queue
    release), was triggered by the user (exempt), or had already been
    submitted (retry after a 255 failure; restart of a manually triggered
    task)."""
    from sa.core import norm
    TP, TJM, S = 'task_pool', 'task_job_mgr', 'scheduler'
    wj = [s for s in c.stores(None, 'waiting_on_job_prep')
          if norm(s.value) != 'False']
    allow = {
        f'{TP}:TaskPool.release_queued_tasks',
        f'{TP}:TaskPool.queue_or_trigger',
        f'{TJM}:TaskJobManager._submit_task_job_callback_255',
        f'{S}:Scheduler.run_scheduler',
    }
    c.floor(rule, 'waiting_on_job_prep = True sites', len(wj), 4)
    for s in wj:
        f = c.owner(s.node)
        fq = f.fq if f else '<module>'
        c.ob(rule, c.key(s.node, f) + ' [waiting_on_job_prep]', fq in allow,
             c.where(s.node, f), '' if fq in allow else
             f'the task is sent straight to job preparation from {fq}: a '
             'held (or otherwise not ready) task would be submitted')


def pool_membership_change(c):
    """Statement test: a task is put into / deleted from
    `self.active_tasks[<point>]` -- directly, or through a local bound to the
    per-point map (`m = self.active_tasks.setdefault(p, {})`, `m =
    self.active_tasks[p]`, `.get(p)`)."""
    import ast
    from sa import pat as _pat
    inner = [_pat.parse_pat(x)[0] for x in (
        'self.active_tasks[_]', 'self.active_tasks.setdefault(_, _)',
        'self.active_tasks.get(_)', 'self.active_tasks.get(_, _)')]

    def is_inner(e, fnode):
        if any(_pat.match(p, e, c.env(e)) for p in inner):
            return True
        if isinstance(e, ast.Name) and fnode is not None:
            for a in ast.walk(fnode):
                if isinstance(a, ast.Assign) and any(
                        isinstance(t, ast.Name) and t.id == e.id
                        for t in a.targets) and any(_pat.match(
                            p, a.value, c.env(a.value)) for p in inner):
                    return True
        return False

    def is_member(n):
        if not isinstance(n, ast.Subscript):
            return False
        f = c.owner(n)
        return is_inner(n.value, f.node if f is not None else None)

    def changes(s):
        if isinstance(s, ast.Assign):
            return any(is_member(t) for t in s.targets)
        return isinstance(s, ast.Delete) and any(
            is_member(t) for t in s.targets)
    return changes


# ---- values of locals (followed to their nearest definitions)
def _expand_val(v, i):
    """[(tests, expr)] for a value (its element i when unpacked)."""
    if isinstance(v, ast.IfExp):
        a, b = _expand_val(v.body, i), _expand_val(v.orelse, i)
        if a is None or b is None:
            return None
        return [([(v.test, True)] + cs, e) for cs, e in a] + [
            ([(v.test, False)] + cs, e) for cs, e in b]
    if i is None:
        return [([], v)]
    if isinstance(v, ast.Tuple) and i < len(v.elts):
        return [([], v.elts[i])]
    return None


def _defs_in(s, name):
    """Alternatives when statement s (re)defines the local; False when it
    does not touch it; None when it does in a way that is not followed."""
    if isinstance(s, ast.Assign):
        for t in s.targets:
            if isinstance(t, ast.Name) and t.id == name:
                r = _expand_val(s.value, None)
                # `v = f(v)`: the old value is the name itself
                return r
            if isinstance(t, ast.Tuple):
                for i, e in enumerate(t.elts):
                    if isinstance(e, ast.Name) and e.id == name:
                        return _expand_val(s.value, i)
        return False
    if not any(isinstance(n, ast.Name) and n.id == name and isinstance(
            n.ctx, ast.Store) for n in ast.walk(s)):
        return False
    if isinstance(s, ast.If):
        a, b = _last_def(s.body, name), _last_def(s.orelse, name)
        if a is None or b is None:
            return None
        keep = [([], ast.Name(id=name, ctx=ast.Load()))]
        a = keep if a is False else a
        b = keep if b is False else b
        return [([(s.test, True)] + cs, e) for cs, e in a] + [
            ([(s.test, False)] + cs, e) for cs, e in b]
    return None


def _last_def(block, name):
    for s in reversed(block):
        r = _defs_in(s, name)
        if r is False:
            continue
        return r
    return False


def value_alts(c, f, expr, at):
    """[(tests, expr)]: what the expression (a local: its nearest
    definitions before statement `at`) may be, each with the (test node,
    polarity) pairs it is taken under; None when not followed."""
    if not isinstance(expr, ast.Name):
        return [([], expr)]
    cur = c.idx.stmt_of(at)
    while cur is not f.node and id(cur) in c.idx.parent:
        par = c.idx.parent[id(cur)]
        for field in ('body', 'orelse', 'finalbody'):
            blk = getattr(par, field, None)
            if isinstance(blk, list) and any(x is cur for x in blk):
                i = [k for k, x in enumerate(blk) if x is cur][0]
                r = _last_def(blk[:i], expr.id)
                if r is not False:
                    return r
        cur = par
    return [([], expr)]         # a parameter


def enclosing_tests(c, f, node):
    """(test, polarity) of the `if`s the node sits in."""
    out = []
    cur = c.idx.stmt_of(node)
    while cur is not f.node and id(cur) in c.idx.parent:
        par = c.idx.parent[id(cur)]
        if isinstance(par, ast.If):
            if any(x is cur for x in par.body):
                out.append((par.test, True))
            elif any(x is cur for x in par.orelse):
                out.append((par.test, False))
        cur = par
    return out


def compatible_tests(cs1, cs2):
    return not any(t1 is t2 and p1 != p2 for t1, p1 in cs1 for t2, p2 in cs2)


def resolved(c, f, expr, at):
    """The expression a (possibly hoisted) argument stands for: a local with
    exactly one nearest definition is replaced by it (one step), anything
    else is returned as is."""
    import ast
    if isinstance(expr, ast.Name):
        al = value_alts(c, f, expr, at)
        if al and len(al) == 1 and al[0][1] is not expr:
            return al[0][1]
    return expr


def rewrite_live_source_rules(c, rule, single, rewrite, wipe=None):
    """The value the table wipe re-inserts for a key that is maintained at
    run time must be read from the state the run-time writer keeps current:
    every function that calls the single-key writer with a value (not the
    literal None) also stores the attribute the rewrite reads.  (A rewrite
    fed from a start-up option that the commands do not update would put a
    stale value back on reload.)"""
    for key in sorted(single):
        if key not in rewrite or key == 'KEY_RESTART_COUNT':
            continue
        v = rewrite[key]
        attrs = set()
        if v is not None:
            # the value and, through locals of the rewriting function, what
            # it is computed from (`pool = schd.pool; hp = pool.hold_point`)
            exprs, seen_names = [v], set()
            k = 0
            while k < len(exprs):
                for n in ast.walk(exprs[k]):
                    if isinstance(n, ast.Name) and n.id not in seen_names \
                            and wipe is not None:
                        seen_names.add(n.id)
                        for a in ast.walk(wipe.node):
                            if isinstance(a, ast.Assign) and any(
                                    isinstance(t, ast.Name) and t.id == n.id
                                    for t in a.targets):
                                exprs.append(a.value)
                k += 1
            for e in exprs:
                for n in ast.walk(e):
                    if isinstance(n, ast.Attribute):
                        attrs.add(n.attr)
            if any(isinstance(n, ast.Call) and norm(n.func) == 'getattr'
                   for e in exprs for n in ast.walk(e)) or not attrs:
                # for key in (...): value = getattr(schd.options, key, None)
                kv = c.K.class_attr('WorkflowDatabaseManager', key)
                if isinstance(kv, str):
                    attrs = {kv}
        w = single[key]
        sites = [n for n in c.calls(None, w.name)
                 if c.owner(n) is not None and c.owner(n).fq != w.fq]
        for n in sites:
            if n.args and isinstance(n.args[0], ast.Constant) and \
                    n.args[0].value is None:
                continue
            f = c.owner(n)
            stored = {x.attr for x in ast.walk(f.node) if isinstance(
                x, ast.Attribute) and isinstance(x.ctx, ast.Store)}
            # one level of self.<m>() callees (set_stop_clock -> ...)
            ok = bool(attrs & stored)
            c.ob(rule, c.key(n, f)[:90] + f' keeps {sorted(attrs)} (what the '
                 f'table rewrite reads for {key}) current', ok, c.where(n, f),
                 '' if ok else f'the rewrite of workflow_params re-inserts '
                 f'{key} from {norm(v) if v is not None else "?"}, which '
                 f'{f.fq} does not update: a reload puts a stale value back')


def outputs_column_by_trigger_rules(c, rule):
    """The task_outputs.outputs column holds {trigger: message}; for an output
    completed by `cylc set` the recorded message is a marker, not the task's
    message.  The loaders that rebuild a proxy's completed outputs from it
    (restart, history of a task spawned later) therefore go by *trigger*:
    they iterate the keys and never feed the recorded values to the
    completion API."""
    TP = 'task_pool'
    for qual in ('TaskPool.load_db_task_pool_for_restart',
                 'TaskPool._load_historical_outputs'):
        f = c.func(TP, qual)
        tests = [n for n in c.idx.walk(f.node) if isinstance(n, ast.Call)
                 and norm(n.func) == 'isinstance' and len(n.args) == 2
                 and norm(n.args[1]) == 'dict']
        c.floor(rule, f'{f.fq} :: isinstance(<outputs>, dict)', len(tests),
                1)
        for t in tests:
            var = norm(t.args[0])
            vals = c.find(f, f'{var}.values()') + c.find(f, f'{var}.items()')
            c.ob(rule, f'{f.fq} :: the recorded messages of {var} are not '
                 'read', not vals, c.where(t, f), '' if not vals else
                 f'{norm(vals[0])}: an output completed by `cylc set` is '
                 'recorded with a marker message that matches no output and '
                 'is silently dropped')
            # iteration over the keys, under the dict test
            its = [n for n in c.idx.walk(f.node) if isinstance(
                n, (ast.For, ast.comprehension)) and norm(n.iter) in (
                var, f'{var}.keys()')]
            keyed = [n for n in its if c.holds(
                n.iter if isinstance(n, ast.comprehension) else n,
                f'isinstance({var}, dict)')]
            c.floor(rule, f'{f.fq} :: iteration over the triggers of {var}',
                    len(keyed), 1)
            for n in keyed:
                tv = norm(n.target)
                par = n if isinstance(n, ast.For) else c.idx.parent[id(n)]
                use = c.find(par, f'_.set_trigger_complete({tv})') + c.find(
                    par, f'itask.tdef.outputs[{tv}][0]')
                c.ob(rule, c.key(n if isinstance(n, ast.For) else par, f)[:90]
                     + ' completes by trigger', bool(use), c.where(par, f),
                     '')
            for n in its:
                if n in keyed:
                    continue
                # the other shape: a list of messages
                tgt = n.iter if isinstance(n, ast.comprehension) else n
                c.guard(rule, tgt, [f'!isinstance({var}, dict)'], f,
                        what='plain iteration only for the list shape;')


def special_tasks_family_rules(c, rule):
    """A family named under [scheduling][special tasks] (sequential,
    clock-expire, ...) stands for *all* its task members in the full
    (multiple-inheritance) ancestry: the expansion iterates
    self.runtime['descendants'][name] and leaves out only sub-families."""
    sites = c.find('config', 'result.append(_m + extn)')
    c.floor(rule, 'special-task family expansion (result.append(member + '
            'extn))', len(sites), 1)
    for n in sites:
        f = c.owner(n)
        lp = n
        while id(lp) in c.idx.parent and not isinstance(lp, ast.For):
            lp = c.idx.parent[id(lp)]
        if not isinstance(lp, ast.For):
            c.ob(rule, c.key(n, f)[:90] + ' inside a loop over the members',
                 False, c.where(n, f), '')
            continue
        it = resolved(c, f, lp.iter, lp)
        ok = norm(it) == "self.runtime['descendants'][name]"
        c.ob(rule, c.key(n, f)[:90] + " for every member in self.runtime["
             "'descendants'][name]", ok, c.where(lp, f), '' if ok else
             f'{norm(it)[:100]} — members reached only through a secondary '
             'parent keep none of the special behaviour')
        mv = norm(lp.target)
        c.ob(rule, c.key(n, f)[:90] + ' appends the member', norm(
            n.args[0]).startswith(f'{mv} + '), c.where(n, f), norm(n.args[0]))
        c.guard_only(rule, n, [f"!({mv} in self.runtime['descendants'])"],
                     f, stop=lp, what='only sub-families are skipped;')
        c.guard(rule, lp, ["name in self.runtime['descendants']"], f)

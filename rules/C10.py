"""C10 Stale, duplicate and out-of-order job messages cannot corrupt state."""
import ast

from sa.core import AnalysisError, norm
from sa.pat import AnyOf, StatusIn, StatusNotIn
from rules._shared import retry_lined_up_rules

TECHNIQUE = ('static analysis: CFG dominance of every state mutation in the '
             'message handler by the acceptance check, guard atoms of the '
             'stale-submit-number / retry-lined-up rejections, sibling '
             'agreement of the backward-move table (is_gt / is_gte per status) '
             'and use of the poll-request return value, flag propagation at '
             'poll call sites')

CLAUSES = (
    'Decided: in TaskEventsManager.process_message every mutation (output '
    'completion, _process_message_*, spawn_children, state_reset) is dominated '
    'by a successful _process_message_check; that check rejects a received '
    'message whose submit number differs from the task\'s (only transient or '
    'forced calls bypass it) and any non-expire message for a waiting task '
    'with a retry lined up; a received started/failed/submit-failed/submitted '
    'message that would move the status backwards returns True before its '
    'handler runs (table: started>running, failed>failed, '
    'submit-failed>submit-failed, submitted>=submitted); the scheduler polls '
    'every task for which process_message returned True; waiting tasks are '
    'never polled; poll results are delivered with the polled flag and queue '
    'messages with the received flag and the job\'s own submit number. Not '
    'decided: final status equals the latest job outcome over all '
    'interleavings.')

TEM = 'task_events_mgr'


def _calls_in(c, f):
    return [n for n in c.idx.walk(f.node) if isinstance(n, ast.Call)]


def check(c):
    pm = c.func(TEM, 'TaskEventsManager.process_message')
    chk = c.func(TEM, 'TaskEventsManager._process_message_check')

    # ---- (1) the check dominates every mutation
    mutators = ('set_message_complete', 'set_trigger_complete',
                '_process_message_started', '_process_message_succeeded',
                '_process_message_expired', '_process_message_failed',
                '_process_message_submit_failed',
                '_process_message_submitted', 'spawn_children',
                'state_reset', 'setup_event_handlers', '_db_events_insert',
                'delta_task_output', 'delta_job_msg')
    muts = [n for n in _calls_in(c, pm)
            if isinstance(n.func, ast.Attribute) and n.func.attr in mutators]
    c.floor('C10.check-first', 'mutating calls in process_message',
            len(muts), 15)
    gate = c.find(pm, 'self._process_message_check(itask, severity, message, '
                  'event_time, flag, submit_num, forced)')
    c.exactly('C10.check-first', '_process_message_check(...) call',
              len(gate), 1)
    for g in gate:
        # `if not check: return False`
        st = c.idx.stmt_of(g)
        ok = (isinstance(st, ast.If) and c.find(
            st.test, 'not self._process_message_check(*_)') != []
            and len(st.body) == 1 and isinstance(st.body[0], ast.Return)
            and not st.orelse)
        c.ob('C10.check-first', c.key(g, pm) + ' rejects by returning', ok,
             c.where(g, pm), '')
    for m in muts:
        c.guard('C10.check-first', m,
                ['self._process_message_check(itask, severity, message, '
                 'event_time, flag, submit_num, forced)'], pm)
    # recursion for implied outputs keeps the same submit number
    rec = c.find(pm, 'self.process_message(*_)')
    for r in rec:
        ok = len(r.args) >= 7 and norm(r.args[5]) == 'submit_num' and norm(
            r.args[4]) == 'self.FLAG_INTERNAL' and norm(r.args[6]) == 'forced'
        c.ob('C10.implied', c.key(r, pm) + ' same submit_num / forced', ok,
             c.where(r, pm), '')
        # implied outputs are handled before the status handlers
        for h in c.find(pm, 'self._process_message_succeeded(*_)') + c.find(
                pm, 'self._process_message_failed(*_)') + c.find(
                pm, 'self._process_message_started(*_)'):
            c.pre('C10.implied', pm, h, c.matches(
                'itask.state.outputs.get_incomplete_implied(task_output)'),
                'implied-output loop')
    dfl = [n for n in c.idx.walk(pm.node) if isinstance(n, ast.Assign)
           and norm(n.targets[0]) == 'submit_num']
    c.ob('C10.stale', f'{pm.fq} :: submit_num defaults to the current one '
         'only when absent', len(dfl) == 1 and norm(dfl[0].value) ==
         'itask.submit_num' and c.holds(dfl[0], 'submit_num is None'),
         c.where(pm.node, pm), '')

    # ---- (2) the check itself
    rets = [r for r in c.idx.walk(chk.node) if isinstance(r, ast.Return)]
    falses = [r for r in rets if norm(r.value) == 'False']
    trues = [r for r in rets if norm(r.value) == 'True']
    stale = [r for r in falses if c.holds(
        r, '!(submit_num == itask.submit_num)')]
    c.exactly('C10.stale', 'return False ⟸ submit_num != itask.submit_num',
              len(stale), 1)
    for r in stale:
        c.guard('C10.stale', r, ['flag == self.FLAG_RECEIVED',
                                 '!(submit_num == itask.submit_num)'], chk)
        c.guard_only('C10.stale', r, [
            'flag == self.FLAG_RECEIVED', '!(submit_num == itask.submit_num)',
            '!itask.transient', '!forced'], chk)
    # every `return True` other than the bypass is after the stale test
    cfg = c.cfg(chk)
    for t in trues:
        if c.holds(t, AnyOf('itask.transient', 'forced')):
            c.guard_only('C10.stale', t, [AnyOf('itask.transient', 'forced'),
                                          'itask.transient', 'forced'], chk)
            continue
        for r in stale:
            ok = cfg.dominated_by(t, lambda s, r=r: s is c.idx.parent[id(r)])
            c.ob('C10.stale', c.key(t, chk) + ' after the stale-job test',
                 ok, c.where(t, chk), '')
    retry_lined_up_rules(c, 'C10')

    # ---- (3) backward-move table
    table = {
        'EVENT_STARTED': ('_process_message_started', 'is_gt', 'running'),
        'EVENT_FAILED': ('_process_message_failed', 'is_gt', 'failed'),
        'EVENT_SUBMIT_FAILED': ('_process_message_submit_failed', 'is_gt',
                                'submit-failed'),
        'EVENT_SUBMITTED': ('_process_message_submitted', 'is_gte',
                            'submitted'),
    }
    for ev, (handler, cmpf, status) in table.items():
        hs = c.calls(pm, handler)
        c.floor('C10.backward', f'{handler} call', len(hs), 1)
        for h in hs:
            # find the sibling `return True` in the same elif arm
            arm = h
            while id(arm) in c.idx.parent:
                par = c.idx.parent[id(arm)]
                if isinstance(par, ast.If) and c.find(
                        par.test, f'_ == self.{ev}'):
                    arm = par
                    break
                arm = par
            rts = [r for s in (arm.body if isinstance(arm, ast.If) else [])
                   for r in ast.walk(s) if isinstance(r, ast.Return)
                   and norm(r.value) == 'True']
            c.exactly('C10.backward', f'poll-request return in the {ev} arm',
                      len(rts), 1)
            for r in rts:
                c.guard('C10.backward', r, [
                    'flag == self.FLAG_RECEIVED',
                    f"itask.state.{cmpf}('{status}')"], pm,
                    what=f'{ev}:')
                ok = c.cfg(pm).dominated_by(
                    c.idx.stmt_of(h), lambda s, r=r: s is c.idx.parent[id(r)])
                c.ob('C10.backward', c.key(r, pm) + f' precedes {handler}',
                     ok, c.where(r, pm), '')
    # is_gt / is_gte definitions
    ts = 'task_state'
    for name, op in (('is_gt', ast.Gt), ('is_gte', ast.GtE)):
        f = c.func(ts, f'TaskState.{name}')
        rv = [r.value for r in c.idx.walk(f.node) if isinstance(r, ast.Return)]
        ok = (len(rv) == 1 and isinstance(rv[0], ast.Compare) and isinstance(
            rv[0].ops[0], op) and norm(rv[0].left) ==
            'TASK_STATUSES_ORDERED.index(self.status)' and norm(
            rv[0].comparators[0]) == 'TASK_STATUSES_ORDERED.index(status)')
        c.ob('C10.backward', f'{f.fq} :: index(self.status) '
             f'{">" if op is ast.Gt else ">="} index(status)', ok,
             c.where(f.node, f), '')
    order = c.K.name(c.idx.module(ts), 'TASK_STATUSES_ORDERED')
    want = ['waiting', 'expired', 'preparing', 'submit-failed', 'submitted',
            'running', 'failed', 'succeeded']
    c.ob('C10.backward', 'task_state:TASK_STATUSES_ORDERED', list(order) ==
         want, '', f'{order}')

    # ---- (4) the scheduler acts on the poll request
    pq = c.func('scheduler', 'Scheduler.process_queued_task_messages')
    calls = c.calls(pq, 'process_message')
    c.exactly('C10.poll-request', 'process_message in the queue processor',
              len(calls), 1)
    for n in calls:
        par = c.idx.parent[id(n)]
        ok = isinstance(par, ast.If) and par.test is n and any(
            isinstance(s, ast.Assign) and norm(s.targets[0]) == 'should_poll'
            and norm(s.value) == 'True' for s in par.body)
        c.ob('C10.poll-request', c.key(n, pq) + ' return value sets '
             'should_poll', ok, c.where(n, pq), '')
        ok = len(n.args) >= 6 and norm(n.args[4]) == \
            'self.task_events_mgr.FLAG_RECEIVED' and norm(
            n.args[5]) == 'tm.job_id.submit_num'
        c.ob('C10.poll-request', c.key(n, pq) + ' received flag and the '
             "message's own submit number", ok, c.where(n, pq), '')
    apps = c.find(pq, 'to_poll_tasks.append(itask)')
    c.floor('C10.poll-request', 'to_poll_tasks.append', len(apps), 1)
    for a in apps:
        c.guard_only('C10.poll-request', a, [
            'should_poll', '!(itask is None)'], pq)
    polls = c.find(pq, 'self.task_job_mgr.poll_task_jobs(to_poll_tasks)')
    c.floor('C10.poll-request', 'poll_task_jobs(to_poll_tasks)', len(polls), 1)
    for p in polls:
        c.guard_only('C10.poll-request', p, ['to_poll_tasks'], pq)
    # waiting tasks are not polled
    ptj = c.func('task_job_mgr', 'TaskJobManager.poll_task_jobs')
    comps = [n for n in c.idx.walk(ptj.node) if isinstance(n, ast.ListComp)]
    ok = any(len(cp.generators) == 1 and cp.generators[0].ifs and c.find(
        cp.generators[0].ifs[0], "_.state.status != 'waiting'")
        for cp in comps)
    c.ob('C10.no-poll-waiting', f'{ptj.fq} :: filters status != waiting', ok,
         c.where(ptj.node, ptj), '')
    # poll results carry the polled flag
    cb = c.func('task_job_mgr', 'TaskJobManager._poll_task_job_callback')
    fl = [n for n in c.idx.walk(cb.node) if isinstance(n, ast.Assign)
          and norm(n.targets[0]) == 'flag']
    okf = len(fl) == 1 and norm(fl[0].value) == \
        'self.task_events_mgr.FLAG_POLLED'
    c.ob('C10.poll-flag', f'{cb.fq} :: flag = FLAG_POLLED', okf,
         c.where(cb.node, cb), '')
    pms = c.calls(cb, 'process_message')
    # (8 today; a clean-up may merge the arms into one call, so the floor
    # only guards against vacuity -- the rule is universal over the sites)
    c.floor('C10.poll-flag', 'process_message in the poll callback',
            len(pms), 1)
    for n in pms:
        args = [norm(a) for a in n.args]
        ok = len(args) >= 5 and args[4] in (
            'flag', 'self.task_events_mgr.FLAG_POLLED')
        c.ob('C10.poll-flag', c.key(n, cb) + ' polled flag', ok,
             c.where(n, cb), f'flag argument: {args[4:5]}')


VARIANTS = [
    ('accept-stale', 'cylc/flow/task_events_mgr.py',
     'if flag == self.FLAG_RECEIVED and submit_num != itask.submit_num:',
     'if flag == self.FLAG_RECEIVED and submit_num > itask.submit_num:',
     'C10.stale'),
    ('mutate-before-check', 'cylc/flow/task_events_mgr.py',
     '''        # Any message represents activity.
        self.reset_inactivity_timer_func()
''', '''        # Any message represents activity.
        self.reset_inactivity_timer_func()
        if message == self.EVENT_SUCCEEDED and flag == self.FLAG_POLLED:
            itask.state.outputs.set_message_complete(message)
''', 'C10.check-first'),
    ('backward-started-gte', 'cylc/flow/task_events_mgr.py',
     '''            if flag == self.FLAG_RECEIVED and itask.state.is_gt(
                TASK_STATUS_RUNNING
            ):''', '''            if flag == self.FLAG_RECEIVED and itask.state.is_gt(
                TASK_STATUS_SUCCEEDED
            ):''', 'C10.backward'),
    ('backward-submitted-gt', 'cylc/flow/task_events_mgr.py',
     '''            if flag == self.FLAG_RECEIVED and itask.state.is_gte(
                TASK_STATUS_SUBMITTED
            ):''', '''            if flag == self.FLAG_RECEIVED and itask.state.is_gt(
                TASK_STATUS_SUBMITTED
            ):''', 'C10.backward'),
    ('ignore-poll-request', 'cylc/flow/scheduler.py',
     '''                ):
                    should_poll = True
            if should_poll:''', '''                ):
                    should_poll = False
            if should_poll:''', 'C10.poll-request'),
    ('poll-waiting', 'cylc/flow/task_job_mgr.py',
     '                    if itask.state.status != TASK_STATUS_WAITING\n',
     '', 'C10.no-poll-waiting'),
    ('retry-check-dropped', 'cylc/flow/task_events_mgr.py',
     '''            itask.state(TASK_STATUS_WAITING)
            and message != TASK_OUTPUT_EXPIRED''',
     '''            itask.state(TASK_STATUS_WAITING, TASK_STATUS_PREPARING)
            and message != TASK_OUTPUT_EXPIRED''', 'C10.retry-lined-up'),
    ('poll-as-received', 'cylc/flow/task_job_mgr.py',
     '''                itask, log_lvl, TASK_OUTPUT_SUCCEEDED, jp_ctx.time_run_exit,
                flag)''', '''                itask, log_lvl, TASK_OUTPUT_SUCCEEDED, jp_ctx.time_run_exit,
                self.task_events_mgr.FLAG_RECEIVED)''', 'C10.poll-flag'),
    ('order-swap', 'cylc/flow/task_state.py',
     '''    TASK_STATUS_SUBMITTED,
    TASK_STATUS_RUNNING,
    TASK_STATUS_FAILED,
    TASK_STATUS_SUCCEEDED
]''', '''    TASK_STATUS_RUNNING,
    TASK_STATUS_SUBMITTED,
    TASK_STATUS_FAILED,
    TASK_STATUS_SUCCEEDED
]''', 'C10.backward'),
    ('retry-ignore-polled-only', 'cylc/flow/task_events_mgr.py',
     '''            # Polling in live mode only:
''',
     '''            and flag != self.FLAG_RECEIVED
            # Polling in live mode only:
''', 'C10.retry-lined-up'),
]

"""C27 Reload preserves task state — field-coverage and reload discipline."""
import ast

from sa.core import AnalysisError, norm
from sa.consts import known
from sa.pat import AnyOf, StatusIn

TECHNIQUE = ('static analysis: field-coverage table (every __slots__ entry of '
             'TaskProxy / TaskState is copied to the reload successor, rebuilt '
             'from a constructor argument the reloader passes, or listed '
             'exempt with a reason), guard atoms of orphan handling, shape of '
             'the prerequisite carry-over, pre-reload flush loop condition')

CLAUSES = (
    'Decided: every attribute slot of TaskProxy and TaskState is carried '
    'over by copy_to_reload_successor, or re-created from the arguments '
    '_reload_taskdefs passes to the new proxy (same point, flow numbers, '
    'status), or is on the exemption list with its reason; new prerequisites '
    'take the pre-reload value when the key still exists and otherwise the DB '
    'record of the output; satisfied xtriggers and runtime retry xtriggers '
    'are carried; the successor replaces the old proxy in the pool; orphaned '
    'tasks are removed only when waiting, held or queued and otherwise only '
    'stop spawning; preparing tasks are flushed through submission before '
    'the reload. Not decided: equality of behaviour after reload over '
    'histories.')

TPX = 'task_proxy'

# slot -> reason it need not be copied
EXEMPT_PROXY = {
    'tdef': 'new task definition by design (constructor argument)',
    'point': 'constructor argument itask.point',
    'flow_nums': 'constructor argument itask.flow_nums',
    'state': 'new TaskState built from itask.state.status; its fields are '
             'covered by the TaskState table below',
    'tokens': 'derived from point and name in the constructor',
    'identity': 'derived from tokens in the constructor',
    'graph_children': 'recomputed from the new definition by design',
    'is_xtrigger_sequential': 'recomputed from the new definition',
    'clock_trigger_times': 'cache, recomputed on demand',
    'expire_time': 'recomputed from the new definition in the constructor',
    'late_time': 'cache, recomputed on demand',
    'point_as_seconds': 'cache, recomputed on demand',
    'reload_successor': 'set on the old proxy to point at the new one',
    'non_unique_events': 'event counters restart with the new definition',
    'run_mode': 'set again at next job preparation',
    'transient': 'pool tasks are never transient',
    'removed': 'pool tasks are not removed',
    'is_late': 'late flag is re-evaluated against the new definition',
    'waiting_on_job_prep': 'preparing tasks are flushed before reload '
                           '(C27.flush)',
}
EXEMPT_STATE = {
    'status': 'constructor argument itask.state.status',
    'prerequisites': 'rebuilt from the new graph; values carried by key '
                     '(C27.prereqs)',
    'suicide_prerequisites': 'rebuilt from the new graph',
    'external_triggers': 'rebuilt from the new definition',
    'xtriggers': 'rebuilt, satisfied ones carried (C27.xtriggers)',
    'is_queued': 'queues are rebuilt on reload and tasks re-queued when '
                 'ready',
    'time_updated': 'timestamp of the last change, reset by construction',
    'kill_failed': 'transient kill bookkeeping',
}


def check(c):
    cp = c.func(TPX, 'TaskProxy.copy_to_reload_successor')
    succ = cp.node.args.args[1].arg
    copied_proxy = set()
    copied_state = set()
    for n in c.idx.walk(cp.node):
        if isinstance(n, ast.Assign):
            t = n.targets[0]
            if isinstance(t, ast.Attribute):
                base = norm(t.value)
                if base == succ:
                    if norm(n.value) == f'self.{t.attr}':
                        copied_proxy.add(t.attr)
                elif base == f'{succ}.state':
                    if norm(n.value) == f'self.state.{t.attr}':
                        copied_state.add(t.attr)
    for clsname, mod, copied, exempt, label in (
            ('TaskProxy', TPX, copied_proxy, EXEMPT_PROXY, 'proxy'),
            ('TaskState', 'task_state', copied_state, EXEMPT_STATE, 'state')):
        ci = c.idx.cls(clsname, mod)
        slots = None
        for st in ci.node.body:
            if isinstance(st, ast.Assign) and norm(st.targets[0]) == \
                    '__slots__':
                slots = c.K.fold(st.value, c.idx.module(mod), clsname)
        if not known(slots) or not slots:
            raise AnalysisError(f'{clsname}.__slots__ does not fold')
        c.floor('C27.field-coverage', f'{clsname}.__slots__', len(slots), 10)
        for s in sorted(slots):
            ok = s in copied or s in exempt
            c.ob('C27.field-coverage', f'{mod}:{clsname}.{s} survives reload',
                 ok, c.where(cp.node, cp),
                 'copied to the successor' if s in copied else
                 (f'exempt: {exempt[s]}' if s in exempt else
                  f'slot {s!r} is neither copied by copy_to_reload_successor '
                  'nor listed as rebuilt/exempt: its value is lost on '
                  'reload'))
        for s in sorted(copied - set(slots)):
            c.ob('C27.field-coverage', f'{mod}:{clsname}.{s} is a slot',
                 False, c.where(cp.node, cp), 'copies a non-slot attribute')
    must_copy_proxy = {'submit_num', 'flow_wait', 'is_manual_submit',
                       'summary', 'try_timers', 'platform', 'jobs',
                       'poll_timer', 'timeout', 'job_vacated',
                       'local_job_file_path', 'mode_settings'}
    must_copy_state = {'outputs', 'is_held', 'is_runahead', 'is_updated'}
    for s in sorted(must_copy_proxy):
        c.ob('C27.field-coverage', f'{cp.fq} :: copies {s}',
             s in copied_proxy, c.where(cp.node, cp), '')
    for s in sorted(must_copy_state):
        c.ob('C27.field-coverage', f'{cp.fq} :: copies state.{s}',
             s in copied_state, c.where(cp.node, cp), '')

    # ---- constructor arguments in the reloader
    rl = c.func('task_pool', 'TaskPool._reload_taskdefs')
    ctor = [n for n in c.calls(rl, 'TaskProxy')]
    c.exactly('C27.reloader', 'TaskProxy(...) in _reload_taskdefs',
              len(ctor), 1)
    for n in ctor:
        args = [norm(a) for a in n.args]
        ok = args[1:5] == ['self.config.get_taskdef(itask.tdef.name)',
                           'itask.point', 'itask.flow_nums',
                           'itask.state.status']
        c.ob('C27.reloader', c.key(n, rl)[:100] + ' same name, point, flows, '
             'status', ok, c.where(n, rl), f'{args[1:5]}')
        c.post('C27.reloader', rl, n, c.matches(
            'itask.copy_to_reload_successor(new_task, '
            'self.check_task_output)'), 'copy_to_reload_successor')
        c.post('C27.reloader', rl, n, c.matches('self._swap_out(new_task)'),
               '_swap_out(new_task)')
        c.guard_only('C27.reloader', n, ['!(itask.tdef.name in orphans)'], rl)
    rems = c.find(rl, 'self.remove(itask, _)')
    c.floor('C27.orphans', 'orphan removal', len(rems), 1)
    for n in rems:
        c.guard('C27.orphans', n, ['itask.tdef.name in orphans', AnyOf(
            StatusIn('waiting'), 'itask.state.is_held',
            'itask.state.is_queued')], rl)
    keep = [s for s in c.stores(rl, 'graph_children')]
    c.floor('C27.orphans', 'active orphans stop spawning', len(keep), 1)
    for s in keep:
        c.ob('C27.orphans', c.key(s.node, rl) + ' = {}',
             norm(s.value) == '{}', c.where(s.node, rl), '')
    loops = [n for n in c.idx.walk(rl.node) if isinstance(n, ast.For)
             and norm(n.iter) == 'tasks']
    src = [n for n in c.idx.walk(rl.node) if isinstance(n, ast.Assign)
           and norm(n.targets[0]) == 'tasks'
           and norm(n.value) == 'self.get_tasks()']
    c.ob('C27.reloader', f'{rl.fq} :: iterates every pool task',
         bool(loops) and bool(src), c.where(rl.node, rl), '')

    # ---- prerequisites & xtriggers
    pre = [n for n in c.idx.walk(cp.node) if isinstance(n, ast.Assign)
           and norm(n.targets[0]) == 'pre[k]']
    c.exactly('C27.prereqs', 'pre[k] = ...', len(pre), 1)
    for n in pre:
        ok = bool(c.find(n.value, 'pre_reload.get(k, check_output(*k, '
                         'self.flow_nums))'))
        c.ob('C27.prereqs', c.key(n, cp)[:100] + ' = pre-reload value, else '
             'DB lookup', ok, c.where(n, cp), norm(n.value)[:100])
        lp = c.idx.parent[id(n)]
        lp2 = c.idx.parent[id(lp)] if lp is not None else None
        ok = isinstance(lp, ast.For) and isinstance(lp2, ast.For) and norm(
            lp2.iter) == f'{succ}.state.prerequisites'
        c.ob('C27.prereqs', c.key(n, cp)[:100] + ' over every new '
             'prerequisite key', ok, c.where(n, cp), '')
    prd = [n for n in c.idx.walk(cp.node) if isinstance(
        n, (ast.Assign, ast.AnnAssign)) and norm(
        n.targets[0] if isinstance(n, ast.Assign) else n.target) ==
        'pre_reload']
    ok = bool(prd) and isinstance(prd[0].value, ast.DictComp) and norm(
        prd[0].value.generators[0].iter) == 'self.state.prerequisites'
    c.ob('C27.prereqs', f'{cp.fq} :: pre_reload collects every old '
         'prerequisite', ok, c.where(cp.node, cp), '')
    xt = [s for s in c.stores(cp, 'xtriggers') if s.kind == 'assign'
          and s.depth == 1]
    c.floor('C27.xtriggers', 'carry satisfied xtriggers', len(xt), 1)
    for s in xt:
        c.ob('C27.xtriggers', c.key(s.node, cp)[:100],
             'self.state.xtriggers.get(xtrig, False)' in norm(s.value),
             c.where(s.node, cp), '')
    up = [s for s in c.stores(cp, 'xtriggers') if s.kind == 'call:update']
    c.floor('C27.xtriggers', 'carry runtime (_cylc) xtriggers', len(up), 1)

    # ---- flush before reload
    rw = c.func('commands', 'reload_workflow')
    wl = [n for n in c.idx.walk(rw.node) if isinstance(n, ast.While)]
    ok = False
    for w in wl:
        if c.find(w.test, 'schd.release_tasks_to_run()'):
            for n in ast.walk(w.test):
                ac = c.any_condition(n)
                if ac and norm(ac[1]) == 'schd.pool.get_tasks()' and \
                        c.case_covered(ac[0], ['_.waiting_on_job_prep']) and \
                        c.case_covered(ac[0], [StatusIn('preparing')]
                                       if False else
                                       ["_.state('preparing')"]):
                    ok = True
    c.ob('C27.flush', f'{rw.fq} :: loops while tasks are released, waiting '
         'on job prep or preparing', ok, c.where(rw.node, rw), '')
    for w in wl:
        for n in c.find(rw, 'schd.pool.reload(config)'):
            c.ob('C27.flush', c.key(n, rw) + ' after the flush loop',
                 c.cfg(rw).path_exists(w, c.idx.stmt_of(n)) and not
                 c.cfg(rw).path_exists(c.idx.stmt_of(n), w), c.where(n, rw),
                 '')
    c.floor('C27.flush', 'pool.reload(config)', len(
        c.find(rw, 'schd.pool.reload(config)')), 1)


VARIANTS = [
    ('forget-submit-num', 'cylc/flow/task_proxy.py',
     '        reload_successor.submit_num = self.submit_num\n', '',
     'C27.field-coverage'),
    ('forget-held', 'cylc/flow/task_proxy.py',
     '        reload_successor.state.is_held = self.state.is_held\n', '',
     'C27.field-coverage'),
    ('new-slot', 'cylc/flow/task_proxy.py',
     "        'removed',\n    )", "        'removed',\n        'nudges',\n    )",
     'C27.field-coverage'),
    ('reload-status-waiting', 'cylc/flow/task_pool.py',
     '''                    itask.flow_nums,
                    itask.state.status,
                    sequential_xtrigger_labels=(''',
     '''                    itask.flow_nums,
                    TASK_STATUS_WAITING,
                    sequential_xtrigger_labels=(''', 'C27.reloader'),
    ('no-swap', 'cylc/flow/task_pool.py',
     '                self._swap_out(new_task)\n', '', 'C27.reloader'),
    ('remove-active-orphan', 'cylc/flow/task_pool.py',
     '''                if (
                    itask.state(TASK_STATUS_WAITING)
                    or itask.state.is_held
                    or itask.state.is_queued
                ):
                    # Remove orphaned''', '''                if (
                    not itask.state(TASK_STATUS_RUNNING)
                ):
                    # Remove orphaned''', 'C27.orphans'),
    ('prereq-reset', 'cylc/flow/task_proxy.py',
     '''                pre[k] = pre_reload.get(
                    k,
                    # Else look thru task outputs to see if it's been satisfied
                    check_output(*k, self.flow_nums)
                )''', '''                pre[k] = check_output(*k, self.flow_nums)''',
     'C27.prereqs'),
    ('flush-ignores-preparing', 'cylc/flow/commands.py',
     '        itask.waiting_on_job_prep or itask.state(TASK_STATUS_PREPARING)\n',
     '        itask.waiting_on_job_prep\n', 'C27.flush'),
]

"""C02 No task instance runs twice in a flow without intervention."""
import ast

from sa.core import AnalysisError, norm
from sa.pat import AnyOf, StatusIn, StatusNotIn
from rules._shared import submit_retry_reset_rules

TECHNIQUE = ('static analysis: uniqueness guards on the pool map, guard atoms '
             'of the respawn decision (history lookup by flow intersection, '
             'finished-and-complete => transient => not returned), no-retry '
             'guards of failed / submit-failed completion and child spawning, '
             'who-may-write allow-list for the submit number')

CLAUSES = (
    'Decided: a proxy is spawned only if no proxy of that point/name is in '
    'the pool (else flows merge) and is never added over an existing one; '
    'history is looked up by flow intersection, stopping at a final status; '
    'a task that already finished and completed in the flow is marked '
    'transient and not returned; new DB rows are created only for tasks with '
    'no history; failed / submit-failed outputs are completed and their '
    'children spawned only when no retry remains (or forced); generic output '
    'completion skips failed / submit-failed; the submit number is written '
    'only at the listed sites and incremented once per job preparation (when '
    'not already preparing); the waiting_on_job_prep mark is cleared before every '
    'recorded job-preparation failure. '
    'Retry timers are restored on restart with their recorded count, whatever the task state. '
    'Not decided: the (N+1)(M+1) run-count bound over '
    'schedules with retry timers.')

TP = 'task_pool'
TEM = 'task_events_mgr'


def finished_in_flow_rules(c, R1, R2):
    """A task already finished and complete in a flow is not run again
    when that flow reaches it (shared with C08)."""
    # ---- finished-in-flow is not respawned
    st = c.func(TP, 'TaskPool.spawn_task')
    tr = [n for n in c.idx.walk(st.node) if isinstance(n, ast.Assign)
          and norm(n.targets[0]) == 'itask.transient'
          and norm(n.value) == 'True']
    c.exactly(R1, 'itask.transient = True', len(tr), 1)
    for n in tr:
        c.guard(R1, n, [
            StatusIn('failed', 'succeeded', 'expired', 'submit-failed') if
            False else 'prev_status in TASK_STATUSES_FINAL',
            'itask.is_complete()'], st)
        c.guard_only(R1, n, [
            'prev_status in TASK_STATUSES_FINAL', 'itask.is_complete()'], st,
            stop=_enclosing_if(c, n, 'prev_status in TASK_STATUSES_FINAL'))
        blk = _enclosing_if(c, n, 'prev_status in TASK_STATUSES_FINAL')
        ok = False
        if blk is not None:
            top = n
            while c.idx.parent[id(top)] is not blk:
                top = c.idx.parent[id(top)]
            i = next(k for k, s in enumerate(blk.body) if s is top)
            for s in blk.body[i + 1:]:
                if isinstance(s, ast.If) and norm(s.test) == \
                        'itask.transient' and len(s.body) == 1 and isinstance(
                        s.body[0], ast.Return) and norm(
                        s.body[0].value) == 'None':
                    ok = True
        c.ob(R1, c.key(n, st) + ' ⟹ `if itask.transient: '
             'return None` later in the same block', ok, c.where(n, st), '')
    fs = c.K.name(c.idx.module('task_state'), 'TASK_STATUSES_FINAL')
    c.ob(R1, 'task_state:TASK_STATUSES_FINAL',
         set(fs) == {'failed', 'succeeded', 'expired', 'submit-failed'}, '',
         str(fs))
    # prev_status from history by flow intersection
    gh = c.func(TP, 'TaskPool._get_task_history')
    sts = [n for n in c.idx.walk(gh.node) if isinstance(n, ast.Assign)
           and norm(n.targets[0]) == 'status'
           and norm(n.value) == 'old_status']
    c.exactly(R2, 'status = old_status', len(sts), 1)
    for n in sts:
        c.guard(R2, n,
                ['set.intersection(flow_nums, old_fnums)'], gh)
    brk = [n for n in c.idx.walk(gh.node) if isinstance(n, ast.Break)]
    c.exactly(R2, 'break', len(brk), 1)
    for b in brk:
        c.guard(R2, b, ['status in TASK_STATUSES_FINAL',
                                   'set.intersection(flow_nums, old_fnums)'],
                gh)
    c.floor(R2, 'select_prev_instances(name, str(point))', len(
        c.find(gh, 'self.workflow_db_mgr.pri_dao.select_prev_instances(name, '
               'str(point))')), 1)
    sn = [n for n in c.idx.walk(gh.node) if isinstance(n, ast.Assign)
          and norm(n.targets[0]) == 'submit_num' and 'max(' in norm(n.value)]
    c.ob(R2, f'{gh.fq} :: submit_num = max over all prior '
         'instances', len(sn) == 1 and bool(c.find(
             sn[0].value, 'max((_s[0] for _s in info))')),
         c.where(gh.node, gh), '')
    # history submit number reaches the new proxy
    lp = c.find(st, 'self._load_db_task_proxy(*_, submit_num=submit_num, *_)'
                ) or [n for n in c.calls(st, '_load_db_task_proxy') if any(
                    k.arg == 'submit_num' and norm(k.value) == 'submit_num'
                    for k in n.keywords)]
    c.floor(R2, 'submit_num passed to the new proxy', len(lp), 1)
    rows = c.find(st, 'self.db_add_new_flow_rows(itask)')
    c.floor(R2, 'db_add_new_flow_rows in spawn_task', len(rows), 1)
    for n in rows:
        c.guard(R2, n, ['prev_status is None'], st)


def check(c):
    # ---- one proxy per (point, name)
    gos = c.func(TP, 'TaskPool.get_or_spawn_task')
    sp = c.calls(gos, 'spawn_task')
    c.exactly('C02.unique', 'spawn_task in get_or_spawn_task', len(sp), 1)
    for n in sp:
        c.guard('C02.unique', n, ['ntask is None'], gos)
    src = [n for n in c.idx.walk(gos.node) if isinstance(n, ast.Assign)
           and norm(n.targets[0]) == 'ntask']
    ok = any(norm(n.value) == 'self.get_task(point, tdef.name)' for n in src)
    c.ob('C02.unique', f'{gos.fq} :: ntask = self.get_task(point, tdef.name)',
         ok, c.where(gos.node, gos), '')
    mf = c.calls(gos, 'merge_flows')
    for n in mf:
        c.guard('C02.unique', n, ['!(ntask is None)'], gos)
    atp = c.func(TP, 'TaskPool.add_to_pool')
    for s in c.stores(atp, 'active_tasks'):
        if s.kind == 'assign' and s.depth == 2:
            c.guard('C02.unique', s.node, [
                '!(itask.identity in self.active_tasks[itask.point])'], atp)
    so = c.func(TP, 'TaskPool.spawn_on_output')
    for n in c.calls(so, 'spawn_task'):
        c.guard('C02.unique', n, ['c_task is None', 'itask.flow_nums'], so)
    soa = c.func(TP, 'TaskPool.spawn_on_all_outputs')
    for n in c.calls(soa, 'spawn_task'):
        c.guard('C02.unique', n, ['!(c_task is not None)'], soa)

    finished_in_flow_rules(c, 'C02.no-respawn', 'C02.history')

    # ---- a task whose job preparation failed leaves the prep pipeline: the
    # waiting_on_job_prep mark (under which the main loop hands the task to
    # submission again on every iteration, by-passing the retry timers) is
    # cleared before the submit-failure is recorded
    tjm = 'task_job_mgr'
    errs = c.calls(None, '_prep_submit_task_job_error')
    c.floor('C02.prep-exit', '_prep_submit_task_job_error sites', len(errs),
            5)
    for n in errs:
        f = c.owner(n)
        c.pre('C02.prep-exit', f, n, c.assigns(
            'itask.waiting_on_job_prep', 'False'),
            'itask.waiting_on_job_prep = False')

    # ---- retries already used up stay used up across a restart: the retry
    # timers are restored (with their consumed count) for every pooled task,
    # whatever its status -- a task waiting for its retry most of all
    lt = c.func(TP, 'TaskPool.load_db_task_action_timers')
    rs_ = [n for n in c.idx.walk(lt.node) if isinstance(n, ast.Assign)
           and isinstance(n.targets[0], ast.Subscript)
           and norm(n.targets[0].value) == 'itask.try_timers']
    c.floor('C02.retry-restore', f'{lt.fq} :: itask.try_timers[..] restored',
            len(rs_), 1)
    for n in rs_:
        c.ob('C02.retry-restore', c.key(n, lt)[:90] + ' with the recorded '
             'count', bool(c.find(n.value, 'TaskActionTimer(ctx, delays, num, '
                                  'delay, timeout)')), c.where(n, lt), '')
        c.guard_only('C02.retry-restore', n, [
            "ctx_key[0] == 'try_timers'", "!(ctx_key == 'poll_timer')",
            '!(itask is None)'], lt,
            what='restored whatever the task status;')
    # (an early exit in front of the branch would not show as a condition of
    # the store: the loader does not consult the task's state at all)
    looks = [n for n in c.idx.walk(lt.node) if isinstance(n, ast.Attribute)
             and n.attr in ('state', 'status') and isinstance(
                 n.value, ast.Name) and n.value.id == 'itask']
    c.ob('C02.retry-restore', f'{lt.fq} :: does not filter on the task '
         'state', not looks, c.where(looks[0], lt) if looks else
         c.where(lt.node, lt), '' if not looks else 'timers are restored only '
         'for some task states: a task waiting for its retry comes back with '
         'a fresh set of retries')

    # ---- failed / submit-failed only when no retry remains
    pm = c.func(TEM, 'TaskEventsManager.process_message')
    gen = c.find(pm, 'itask.state.outputs.set_message_complete(task_output, '
                 'forced)')
    c.exactly('C02.no-retry', 'generic output completion', len(gen), 1)
    for n in gen:
        c.guard('C02.no-retry', n,
                ["!(task_output in {'submit-failed', 'failed'})"], pm)
    pf = c.func(TEM, 'TaskEventsManager._process_message_failed')
    psf = c.func(TEM, 'TaskEventsManager._process_message_submit_failed')
    nr_exec = AnyOf(
        'forced', '!(TimerFlags.EXECUTION_RETRY in itask.try_timers)',
        'itask.try_timers[TimerFlags.EXECUTION_RETRY].next() is None')
    nr_sub = AnyOf(
        '!(TimerFlags.SUBMISSION_RETRY in itask.try_timers)',
        'itask.try_timers[TimerFlags.SUBMISSION_RETRY].next() is None')
    for f, req, out in ((pf, nr_exec, 'failed'), (psf, nr_sub,
                                                  'submit-failed')):
        comp = [n for n in c.calls(f, 'set_message_complete')]
        c.floor('C02.no-retry', f'{out} completion in {f.name}', len(comp), 1)
        for n in comp:
            c.guard('C02.no-retry', n, [req], f)
            c.ob('C02.no-retry', c.key(n, f) + f' completes "{out}"',
                 c.fold(n.args[0]) == out, c.where(n, f), '')
        flag = [n for n in c.idx.walk(f.node) if isinstance(n, ast.Assign)
                and norm(n.targets[0]) == 'no_retries']
        t = [n for n in flag if norm(n.value) == 'True']
        fl = [n for n in flag if norm(n.value) == 'False']
        ok = len(t) == 1 and len(fl) == 1 and len(flag) == 2
        c.ob('C02.no-retry', f'{f.fq} :: no_retries False initially, True '
             'once', ok, c.where(f.node, f), '')
        for n in t:
            c.guard('C02.no-retry', n, [req], f)
        rets = [r for r in c.idx.walk(f.node) if isinstance(r, ast.Return)]
        c.ob('C02.no-retry', f'{f.fq} :: returns no_retries',
             len(rets) == 1 and norm(rets[0].value) == 'no_retries',
             c.where(f.node, f), '')
    for n in c.calls(pm, 'spawn_children'):
        out = c.fold(n.args[1]) if len(n.args) > 1 else None
        if out == 'failed':
            c.guard('C02.no-retry', n, [
                'self._process_message_failed(itask, event_time, msg, '
                'forced, full_message=message, run_signal=run_signal)'], pm,
                what='children of :failed only on definitive failure;')
        elif out == 'submit-failed':
            c.guard('C02.no-retry', n, [AnyOf(
                'forced',
                'self._process_message_submit_failed(itask, event_time)')],
                pm, what='children of :submit-failed only on definitive '
                'failure;')

    # ---- submit number
    allowed = {
        ('task_proxy:TaskProxy.__init__', 'assign'),
        ('task_proxy:TaskProxy.copy_to_reload_successor', 'assign'),
        ('task_job_mgr:TaskJobManager.prep_submit_task_jobs', 'aug'),
        ('task_job_mgr:TaskJobManager._manip_task_jobs_callback', 'assign'),
        ('run_modes.skip:submit_task_job', 'aug'),
        ('run_modes.simulation:submit_task_job', 'aug'),
        (f'{TP}:TaskPool.load_db_task_pool_for_restart', 'aug'),
        ('data_store_mgr:DataStoreMgr.apply_task_proxy_db_history', 'assign'),
    }
    sts = c.who_writes(
        'C02.submit-num', 'submit_num', allowed, floor=8,
        keep=lambda s, f: not (isinstance(s.target.value, ast.Name)
                               and s.target.value.id in ('options', 'self')
                               and f is not None and f.cls is not None
                               and f.cls.name != 'TaskProxy'))
    prep = c.func('task_job_mgr', 'TaskJobManager.prep_submit_task_jobs')
    incs = [s for s in c.stores(prep, 'submit_num')]
    c.exactly('C02.submit-num', 'increment in prep_submit_task_jobs',
              len(incs), 1)
    for s in incs:
        c.ob('C02.submit-num', c.key(s.node, prep) + ' += 1',
             isinstance(s.node, ast.AugAssign) and isinstance(
                 s.node.op, ast.Add) and norm(s.value) == '1',
             c.where(s.node, prep), '')
        c.guard('C02.submit-num', s.node, [StatusNotIn('preparing')], prep)
    rl = c.func(TP, 'TaskPool.load_db_task_pool_for_restart')
    for s in c.stores(rl, 'submit_num'):
        c.ob('C02.submit-num', c.key(s.node, rl) + ' -= 1',
             isinstance(s.node, ast.AugAssign) and isinstance(
                 s.node.op, ast.Sub) and norm(s.value) == '1',
             c.where(s.node, rl), '')
        c.guard('C02.submit-num', s.node, ["status == 'preparing'"], rl,
                at_entry=True)
    # ---- submission retries are consumed by failed submissions only
    submit_retry_reset_rules(c, 'C02')


def _enclosing_if(c, n, test_pat):
    cur = n
    while id(cur) in c.idx.parent:
        cur = c.idx.parent[id(cur)]
        if isinstance(cur, ast.If) and c.find(cur.test, test_pat):
            return cur
    return None


VARIANTS = [
    ('retry-timers-only-for-active-tasks', 'cylc/flow/task_pool.py',
     '''        elif ctx_key[0] == "try_timers":
            itask = self._get_task_by_id(id_)
            if itask is None:
                return''', '''        elif ctx_key[0] == "try_timers":
            itask = self._get_task_by_id(id_)
            if itask is None or not itask.state(*TASK_STATUSES_ACTIVE):
                return''', 'C02.retry-restore'),
    ('prep-flag-kept-on-platform-failure', 'cylc/flow/task_job_mgr.py',
     '''        itask.waiting_on_job_prep = False
        itask.local_job_file_path = None
        self._prep_submit_task_job_error(
            itask,
            '(remote init)',''', '''        itask.local_job_file_path = None
        self._prep_submit_task_job_error(
            itask,
            '(remote init)',''', 'C02.prep-exit'),
    ('spawn-despite-pool', 'cylc/flow/task_pool.py',
     '''        if ntask is None:
            # ntask does not exist: spawn it in the flow.''',
     '''        if ntask is None or flow_wait:
            # ntask does not exist: spawn it in the flow.''', 'C02.unique'),
    ('respawn-complete', 'cylc/flow/task_pool.py',
     '''            if itask.transient:
                return None

        if not itask.transient:''', '''        if not itask.transient:''',
     'C02.no-respawn'),
    ('history-any-flow', 'cylc/flow/task_pool.py',
     '            if set.intersection(flow_nums, old_fnums):',
     '            if flow_nums or old_fnums:', 'C02.history'),
    ('history-first-match', 'cylc/flow/task_pool.py',
     '''                if status in TASK_STATUSES_FINAL:
                    # task finished
                    break''', '''                if status:
                    # task finished
                    break''', 'C02.history'),
    ('failed-output-with-retry', 'cylc/flow/task_events_mgr.py',
     '        if task_output not in {TASK_OUTPUT_SUBMIT_FAILED, TASK_OUTPUT_FAILED}:',
     '        if task_output not in {TASK_OUTPUT_SUBMIT_FAILED}:',
     'C02.no-retry'),
    ('spawn-failed-always', 'cylc/flow/task_events_mgr.py',
     '''                run_signal=run_signal,
            ):
                self.spawn_children(itask, TASK_OUTPUT_FAILED, forced)''',
     '''                run_signal=run_signal,
            ) or True:
                self.spawn_children(itask, TASK_OUTPUT_FAILED, forced)''',
     'C02.no-retry'),
    ('submit-num-always', 'cylc/flow/task_job_mgr.py',
     '''            if not itask.state(TASK_STATUS_PREPARING):
                # bump the submit_num *before* resetting the state so that the
                # state transition message reflects the correct submit_num
                itask.submit_num += 1''',
     '''            itask.submit_num += 1
            if not itask.state(TASK_STATUS_PREPARING):''', 'C02.submit-num'),
    ('restart-no-decrement', 'cylc/flow/task_pool.py',
     '''                # Re-prepare same submit.
                itask.submit_num -= 1
''', '', 'C02.submit-num'),
    ('no-retries-early', 'cylc/flow/task_events_mgr.py',
     '''        no_retries = False
        LOG.error(f"[{itask}] {self.EVENT_SUBMIT_FAILED}")''',
     '''        no_retries = True
        LOG.error(f"[{itask}] {self.EVENT_SUBMIT_FAILED}")''',
     'C02.no-retry'),
    ('reset-on-submitted', 'cylc/flow/task_events_mgr.py',
     '''        itask.set_summary_time('submitted', event_time)
''', '''        itask.set_summary_time('submitted', event_time)
        if TimerFlags.SUBMISSION_RETRY in itask.try_timers:
            itask.try_timers[TimerFlags.SUBMISSION_RETRY].num = 0
''', 'C02.submit-retry-reset'),
    ('benign-reset-helper', 'cylc/flow/task_events_mgr.py',
     '''        # submission was successful so reset submission try number
        if TimerFlags.SUBMISSION_RETRY in itask.try_timers:
            itask.try_timers[TimerFlags.SUBMISSION_RETRY].num = 0

    def _process_job_started(''',
     '''        self._reset_submit_tries(itask)

    def _reset_submit_tries(self, itask):
        if TimerFlags.SUBMISSION_RETRY in itask.try_timers:
            itask.try_timers[TimerFlags.SUBMISSION_RETRY].num = 0

    def _process_job_started(''', None),
]

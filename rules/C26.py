"""C26 Task pool bookkeeping is internally consistent."""
import ast

from sa.core import AnalysisError, norm
from rules._shared import straight_line

TECHNIQUE = ('static analysis: who-may-write allow-lists for the pool map, '
             'its cached list and dirty flag; CFG post-dominance of the dirty '
             'flag after every structural write; shape of the DB snapshot '
             'writer and its callers')

CLAUSES = (
    'Decided: the active_tasks map is structurally written only by '
    'add_to_pool, remove and _swap_out (and initialised in __init__), and '
    'each such write is followed on all normal paths by '
    'active_tasks_changed = True; remove deletes an emptied point bucket; '
    'get_tasks rebuilds the cached list from the map whenever the flag is '
    'set, clearing the flag first, and nothing else reads or writes the '
    'cache; put_task_pool wipes and rewrites the task_pool table from '
    'pool.get_tasks() with name, cycle, flow numbers (serialise_set), status '
    'and held flag, and is called by update_data_structure and at shutdown. '
    'every command that ran marks the scheduler as updated. '
    'Not decided: equality of DB and memory at each iteration (dynamic).')

TP = 'task_pool'


def check(c):
    allowed = {
        (f'{TP}:TaskPool.__init__', 'assign'),
        (f'{TP}:TaskPool.add_to_pool', 'call:setdefault'),
        (f'{TP}:TaskPool.add_to_pool', 'assign'),
        (f'{TP}:TaskPool.remove', 'del'),
        (f'{TP}:TaskPool._swap_out', 'assign'),
    }
    sts = c.who_writes('C26.map-writers', 'active_tasks', allowed, floor=5)
    flag = c.matches  # noqa

    def sets_flag(n):
        return False

    for s in sts:
        f = c.owner(s.node)
        if f is None or f.name == '__init__' or s.kind == 'call:setdefault':
            continue
        if f.cls is None or f.cls.name != 'TaskPool':
            continue
        st = c.idx.stmt_of(s.node)
        ok = c.cfg(f).postdominated_by(
            st, lambda x: isinstance(x, ast.Assign) and norm(
                x.targets[0]) == 'self.active_tasks_changed' and norm(
                x.value) == 'True')
        # a bucket delete right after the item delete is covered by the
        # flag set before it in the same straight-line block
        if not ok:
            blk_flag = [n for n in c.idx.walk(f.node)
                        if isinstance(n, ast.Assign) and norm(
                            n.targets[0]) == 'self.active_tasks_changed'
                        and norm(n.value) == 'True']
            ok = any(c.cfg(f).dominated_by(st, lambda x, b=b: x is b)
                     for b in blk_flag)
        c.ob('C26.dirty-flag', c.key(s.node, f) + ' ⟹ active_tasks_changed '
             '= True', ok, c.where(s.node, f),
             'flag set on every normal path' if ok else
             'a structural change of the pool map can leave the cached task '
             'list stale')
    # add_to_pool: no overwrite of an existing proxy
    atp = c.func(TP, 'TaskPool.add_to_pool')
    for s in c.stores(atp, 'active_tasks'):
        if s.kind == 'assign' and s.depth == 2:
            c.guard('C26.unique', s.node, [
                '!(itask.identity in self.active_tasks[itask.point])'], atp)
    so = c.func(TP, 'TaskPool._swap_out')
    for s in c.stores(so, 'active_tasks'):
        c.guard('C26.unique', s.node, [
            'itask.identity in self.active_tasks.get(itask.point, set())'],
            so)
    # remove: empty bucket deleted
    rm = c.func(TP, 'TaskPool.remove')
    dels = [s for s in c.stores(rm, 'active_tasks') if s.kind == 'del']
    item = [s for s in dels if s.depth == 2]
    bucket = [s for s in dels if s.depth == 1]
    c.exactly('C26.remove', 'del active_tasks[point][id]', len(item), 1)
    c.exactly('C26.remove', 'del active_tasks[point]', len(bucket), 1)
    for b in bucket:
        c.guard('C26.remove', b.node,
                ['!self.active_tasks[itask.point]'], rm)
        c.guard_only('C26.remove', b.node,
                     ['!self.active_tasks[itask.point]'], rm)
    for i in item:
        for b in bucket:
            c.ob('C26.remove', c.key(b.node, rm) + ' after the item delete',
                 c.cfg(rm).path_exists(i.node, b.node), c.where(b.node, rm),
                 '')
    # cache
    gt = c.func(TP, 'TaskPool.get_tasks')
    c.who_writes('C26.cache', '_active_tasks_list', {
        (f'{TP}:TaskPool.__init__', 'assign'),
        (f'{TP}:TaskPool.get_tasks', 'assign')}, floor=2)
    reads = [n for n in c.find(None, '_._active_tasks_list')
             if isinstance(n.ctx, ast.Load)]
    for r in reads:
        f = c.owner(r)
        c.ob('C26.cache', c.key(r, f) + ' [read]', f is gt, c.where(r, f),
             'cached list read only inside get_tasks')
    c.who_writes('C26.cache', 'active_tasks_changed', {
        (f'{TP}:TaskPool.__init__', 'assign'),
        (f'{TP}:TaskPool.add_to_pool', 'assign'),
        (f'{TP}:TaskPool.remove', 'assign'),
        (f'{TP}:TaskPool._swap_out', 'assign'),
        (f'{TP}:TaskPool.get_tasks', 'assign')}, floor=5)
    reb = [s for s in c.stores(gt, '_active_tasks_list')]
    c.exactly('C26.cache', 'rebuild in get_tasks', len(reb), 1)
    for s in reb:
        c.guard('C26.cache', s.node, ['self.active_tasks_changed'], gt)
        c.guard_only('C26.cache', s.node, ['self.active_tasks_changed'], gt)
        v = s.value
        ok = (isinstance(v, ast.ListComp) and len(v.generators) == 2
              and norm(v.generators[0].iter) == 'self.active_tasks.values()'
              and norm(v.generators[1].iter) == norm(
                  v.generators[0].target) + '.values()'
              and not v.generators[0].ifs and not v.generators[1].ifs
              and norm(v.elt) == norm(v.generators[1].target))
        c.ob('C26.cache', c.key(s.node, gt) + ' lists every proxy of the map',
             ok, c.where(s.node, gt), '')
    clr = [s for s in c.stores(gt, 'active_tasks_changed')]
    for s in clr:
        c.ob('C26.cache', c.key(s.node, gt) + ' value', norm(s.value) ==
             'False', c.where(s.node, gt), '')
        for r in reb:
            c.ob('C26.cache', c.key(s.node, gt) + ' cleared with the rebuild',
                 straight_line(c, s.node, r.node) or straight_line(
                     c, r.node, s.node), c.where(s.node, gt), '')
    rets = [n for n in c.idx.walk(gt.node) if isinstance(n, ast.Return)]
    c.ob('C26.cache', f'{gt.fq} :: returns the cache',
         all(norm(r.value) == 'self._active_tasks_list' for r in rets),
         c.where(gt.node, gt), '')

    # DB snapshot
    ptp = c.func('workflow_db_mgr', 'WorkflowDatabaseManager.put_task_pool')
    wipe = c.find(ptp, 'self.db_deletes_map[self.TABLE_TASK_POOL].append({})')
    c.floor('C26.db-snapshot', 'task_pool table wiped', len(wipe), 1)
    loops = [n for n in c.idx.walk(ptp.node) if isinstance(n, ast.For)
             and norm(n.iter) == 'pool.get_tasks()']
    c.floor('C26.db-snapshot', 'for itask in pool.get_tasks()', len(loops), 1)
    ins = [n for n in c.calls(ptp, 'append') if norm(n.func.value) ==
           'self.db_inserts_map[self.TABLE_TASK_POOL]']
    c.exactly('C26.db-snapshot', 'task_pool row insert', len(ins), 1)
    want = {
        'name': 'itask.tdef.name', 'cycle': 'str(itask.point)',
        'flow_nums': 'serialise_set(itask.flow_nums)',
        'status': 'itask.state.status', 'is_held': 'itask.state.is_held'}
    for n in ins:
        d = n.args[0]
        got = {k.value: norm(v) for k, v in zip(d.keys, d.values)
               if isinstance(k, ast.Constant)} if isinstance(
            d, ast.Dict) else {}
        for k, v in want.items():
            c.ob('C26.db-snapshot', f'{ptp.fq} :: task_pool.{k} = {v}',
                 got.get(k) == v, c.where(n, ptp), f'got {got.get(k)}')
        c.guard_only('C26.db-snapshot', n, [], ptp,
                     what='one row per pool task;')
        par = c.idx.parent[id(c.idx.stmt_of(n))]
        c.ob('C26.db-snapshot', c.key(n, ptp) + ' inside the pool loop',
             any(par is lp for lp in loops), c.where(n, ptp), '')
    uds = c.func('scheduler', 'Scheduler.update_data_structure')
    c.always('C26.db-snapshot-called', uds,
             c.matches('self.workflow_db_mgr.put_task_pool(self.pool)'),
             'put_task_pool(self.pool)')
    sd = c.func('scheduler', 'Scheduler._shutdown')
    c.floor('C26.db-snapshot-called', 'put_task_pool at shutdown',
            len(c.find(sd, 'self.workflow_db_mgr.put_task_pool(self.pool)')),
            1)
    ml = c.func('scheduler', 'Scheduler._main_loop')
    ud = c.find(ml, 'self.update_data_structure()')
    c.floor('C26.db-snapshot-called', 'update_data_structure in _main_loop',
            len(ud), 1)
    for u in ud:
        c.guard_only('C26.db-snapshot-called', u, [
            'has_updated', 'self.data_store_mgr.updates_pending',
            'self.is_updated'], ml)
    # every command that ran (to a result, or to the end of its generator)
    # marks the scheduler as updated: commands like `stop --flow=N` change
    # pooled tasks in place and have no other trigger for the snapshot
    pq = c.func('scheduler', 'Scheduler.process_command_queue')
    runs = c.find(pq, 'cmd.__anext__()')
    c.floor('C26.command-updates', f'{pq.fq} :: cmd.__anext__()', len(runs),
            1)
    flag = c.assigns('self.is_updated', 'True')
    for n in runs:
        c.post('C26.command-updates', pq, n, flag, 'self.is_updated = True')
        # the generator's normal end (StopAsyncIteration) is not an error
        # path: it is suppressed around the call, or its handler sets the
        # flag too
        sup = False
        cur = n
        while id(cur) in c.idx.parent and cur is not pq.node:
            cur = c.idx.parent[id(cur)]
            if isinstance(cur, (ast.With, ast.AsyncWith)) and any(
                    norm(it.context_expr) == 'suppress(StopAsyncIteration)'
                    for it in cur.items):
                sup = True
            if isinstance(cur, ast.Try):
                for h in cur.handlers:
                    if h.type is not None and 'StopAsyncIteration' in norm(
                            h.type):
                        sup = any(flag(x) for x in ast.walk(h)
                                  if isinstance(x, ast.Assign))
        c.ob('C26.command-updates', c.key(n, pq) + ' end of the command '
             'generator counts as actioned', sup, c.where(n, pq), '' if sup
             else 'StopAsyncIteration is neither suppressed around the call '
             'nor handled with is_updated = True: a command that yields no '
             'result leaves the DB snapshot untriggered')


VARIANTS = [
    ('resultless-command-not-updated', 'cylc/flow/scheduler.py',
     '''                n_warnings: Optional[int] = None
                with suppress(StopAsyncIteration):
                    n_warnings = await cmd.__anext__()
            except Exception as exc:''',
     '''                n_warnings: Optional[int] = await cmd.__anext__()
            except StopAsyncIteration:
                LOG.info(msg.format(result="actioned"))
            except Exception as exc:''', 'C26.command-updates'),
    ('swap-no-flag', 'cylc/flow/task_pool.py',
     '''            self.active_tasks[itask.point][itask.identity] = itask
            self.active_tasks_changed = True

    def spawn_to_runahead_limit''',
     '''            self.active_tasks[itask.point][itask.identity] = itask

    def spawn_to_runahead_limit''', 'C26.dirty-flag'),
    ('add-overwrites', 'cylc/flow/task_pool.py',
     '''        if itask.identity in self.active_tasks[itask.point]:
            # If logged, something has gone wrong.
            LOG.debug(f"{itask.identity} not added to n=0: already exists")
            return None
''', '', 'C26.unique'),
    ('keep-empty-bucket', 'cylc/flow/task_pool.py',
     '''            if not self.active_tasks[itask.point]:
                del self.active_tasks[itask.point]
''', '', 'C26.remove'),
    ('cache-foreign-write', 'cylc/flow/task_pool.py',
     '''        cycles = list(self.active_tasks)
        minc = None''',
     '''        cycles = list(self.active_tasks)
        self._active_tasks_list = []
        minc = None''', 'C26.cache'),
    ('snapshot-missing-held', 'cylc/flow/workflow_db_mgr.py',
     '''                "status": itask.state.status,
                "is_held": itask.state.is_held
            })''', '''                "status": itask.state.status,
            })''', 'C26.db-snapshot'),
    ('snapshot-skips-finished', 'cylc/flow/workflow_db_mgr.py',
     '''            self.db_inserts_map[self.TABLE_TASK_POOL].append({
                "name": itask.tdef.name,''',
     '''            if itask.state.status != 'expired':
              self.db_inserts_map[self.TABLE_TASK_POOL].append({
                "name": itask.tdef.name,''', 'C26.db-snapshot'),
    ('new-structural-writer', 'cylc/flow/task_pool.py',
     '''        for itask in self.get_tasks():
            try:
                itask.flow_nums.remove(flow_num)''',
     '''        self.active_tasks.pop(None, None)
        for itask in self.get_tasks():
            try:
                itask.flow_nums.remove(flow_num)''', 'C26.map-writers'),
]

"""C33 Xtriggers are called with the documented discipline — call gate."""
import ast

from sa.core import AnalysisError, norm
from sa.pat import AnyOf

TECHNIQUE = ('static analysis: path-condition guards of the xtrigger call '
             'site (not satisfied, not active, interval elapsed), '
             'acquire/release pairing via CFG, who-may-write allow-lists for '
             'the active / next-call / satisfied tables')

CLAUSES = (
    'Decided: XtriggerManager.call_xtriggers_async submits a function call '
    'only when the signature is not already satisfied, not already active and '
    'not before t_next_call; it records t_next_call = now + interval and marks '
    'the signature active immediately before submitting, with callback = '
    'self.callback; callback releases the active mark on every path and '
    'records results only on success; housekeep forgets a result only when no '
    'task still lists the signature unsatisfied; the three tables have no '
    'other writers; satisfied signatures satisfy the dependent task. Not '
    'decided: wall-clock interval arithmetic at run time.')

M = 'xtrigger_mgr'


def _block_of(c, st):
    par = c.idx.parent[id(st)]
    for name in ('body', 'orelse', 'finalbody'):
        b = getattr(par, name, None)
        if isinstance(b, list) and any(s is st for s in b):
            return b
    if isinstance(par, ast.ExceptHandler):
        return par.body
    return None


def straight_line(c, a, b):
    """a and b are statements of one block, a first, nothing between them
    can leave the block."""
    ba, bb = _block_of(c, a), _block_of(c, b)
    if ba is None or ba is not bb:
        return False
    ia = next(i for i, s in enumerate(ba) if s is a)
    ib = next(i for i, s in enumerate(ba) if s is b)
    if ia >= ib:
        return False
    for s in ba[ia + 1:ib]:
        for n in ast.walk(s):
            if isinstance(n, (ast.Return, ast.Raise, ast.Continue, ast.Break)):
                return False
    return True


def check(c):
    call = c.func(M, 'XtriggerManager.call_xtriggers_async')
    puts = c.calls(call, 'put_command')
    c.exactly('C33.call-gate', 'put_command in call_xtriggers_async',
              len(puts), 1)
    for p in puts:
        sig = None
        # the signature variable: the one tested against self.active
        for n in ast.walk(call.node):
            if isinstance(n, ast.Compare) and len(n.ops) == 1 and isinstance(
                    n.ops[0], ast.In) and norm(n.comparators[0]) == \
                    'self.active':
                sig = norm(n.left)
        if sig is None:
            c.ob('C33.call-gate', c.key(p, call) + ' active test', False,
                 c.where(p, call), 'no `sig in self.active` test in the '
                 'function')
            continue
        c.guard('C33.call-gate', p, [
            f'!({sig} in self.sat_xtrig)',
            f'!({sig} in self.active)',
            AnyOf(f'!({sig} in self.t_next_call)',
                  f'self.t_next_call[{sig}] <= _now'),
        ], call)
        # `now` comes from time()
        now_ok = False
        for fact in c.facts(p):
            if fact[0] == 'or':
                for m in fact[1]:
                    if m[0] == 'atom' and isinstance(m[1], ast.Compare):
                        for side in (m[1].left, m[1].comparators[0]):
                            if isinstance(side, ast.Name):
                                asg = [a for a in ast.walk(call.node)
                                       if isinstance(a, ast.Assign)
                                       and norm(a.targets[0]) == side.id]
                                if len(asg) == 1 and norm(
                                        asg[0].value) == 'time()':
                                    now_ok = True
                                    nowname = side.id
        c.ob('C33.call-gate', c.key(p, call) + ' now = time()', now_ok,
             c.where(p, call), 'interval test uses the current time')
        kw = {k.arg: norm(k.value) for k in p.keywords}
        c.ob('C33.callback', c.key(p, call) + ' callback',
             kw.get('callback') == 'self.callback', c.where(p, call),
             f'callback={kw.get("callback")}')
        pst = c.idx.stmt_of(p)
        # acquire: active.append(sig) and t_next_call store right before
        apps = c.find(call, f'self.active.append({sig})')
        c.exactly('C33.acquire', 'self.active.append(sig)', len(apps), 1)
        for a in apps:
            ok = straight_line(c, c.idx.stmt_of(a), pst)
            c.ob('C33.acquire', c.key(a, call) + ' immediately before the '
                 'call', ok, c.where(a, call),
                 'marked active in the same straight-line block as the '
                 'submission' if ok else 'the active mark and the submission '
                 'are not in one straight-line block (a signature could be '
                 'marked active without a call, or called unmarked)')
        tn = [s for s in c.stores(call, 't_next_call') if s.kind == 'assign'
              and s.depth == 1]
        c.exactly('C33.interval', 't_next_call[sig] = ... stores', len(tn), 1)
        for s in tn:
            ok = straight_line(c, s.node, pst)
            c.ob('C33.interval', c.key(s.node, call) + ' immediately before '
                 'the call', ok, c.where(s.node, call), '')
            v = norm(s.value)
            okv = now_ok and v in (f'{nowname} + ctx.intvl',
                                   f'ctx.intvl + {nowname}')
            c.ob('C33.interval', c.key(s.node, call) + ' value', okv,
                 c.where(s.node, call), f'next call time = {v}')
            c.ob('C33.interval', c.key(s.node, call) + ' key',
                 norm(s.node.targets[0]) == f'self.t_next_call[{sig}]',
                 c.where(s.node, call), '')
    # satisfied signatures satisfy the task
    sat = [s for s in c.stores(call, 'xtriggers') if s.kind == 'assign'
           and s.depth == 1 and norm(s.value) == 'True']
    have = 0
    for s in sat:
        if c.holds(s.node, '_s in self.sat_xtrig'):
            have += 1
    c.floor('C33.satisfy-dependents', 'task xtrigger set True under '
            '`sig in self.sat_xtrig`', have, 2)

    # callback
    cb = c.func(M, 'XtriggerManager.callback')
    rem = c.find(cb, 'self.active.remove(_s)')
    c.exactly('C33.release', 'self.active.remove(sig) in callback',
              len(rem), 1)
    c.always('C33.release', cb, c.matches('self.active.remove(_)'),
             'release of the active mark')
    for r in rem:
        sigv = norm(r.args[0])
        asg = [a for a in ast.walk(cb.node) if isinstance(a, ast.Assign)
               and norm(a.targets[0]) == sigv]
        ctxp = cb.node.args.args[1].arg
        c.ob('C33.release', c.key(r, cb) + ' signature of the finished call',
             len(asg) == 1 and norm(asg[0].value) ==
             f'{ctxp}.get_signature()', c.where(r, cb), '')
    res = [s for s in c.stores(cb, 'sat_xtrig')]
    c.floor('C33.record-success', 'sat_xtrig store in callback', len(res), 1)
    for s in res:
        c.guard('C33.record-success', s.node, ['succeeded'], cb)
    # succeeded comes from the function output
    dec = [a for a in ast.walk(cb.node) if isinstance(a, ast.Assign)
           and isinstance(a.targets[0], ast.Tuple)
           and [norm(e) for e in a.targets[0].elts][:1] == ['succeeded']
           and 'json.loads' in norm(a.value)]
    c.floor('C33.record-success', 'succeeded, results = json.loads(ctx.out)',
            len(dec), 1)

    # housekeep is given the whole pool: "no task still needs it" is judged
    # over every pooled task (runahead-limited ones included), not a subset
    for n in c.calls(None, 'housekeep'):
        f = c.owner(n)
        if f is None or f.fq == f'{M}:XtriggerManager.housekeep':
            continue
        from rules._shared import resolved
        a = resolved(c, f, n.args[0], n) if n.args else None
        ok = a is not None and norm(a) in ('self.pool.get_tasks()',
                                           'schd.pool.get_tasks()')
        c.ob('C33.housekeep', c.key(n, f) + ' over all pooled tasks', ok,
             c.where(n, f), '' if ok else f'housekeep({norm(a) if a is not None else ""}) '
             '— a result still needed by a task outside this list is '
             'forgotten and the function is called again')
    c.floor('C33.housekeep', 'housekeep call sites', len([
        n for n in c.calls(None, 'housekeep')
        if c.owner(n) is not None and c.owner(n).fq !=
        f'{M}:XtriggerManager.housekeep']), 1)
    hk = c.func(M, 'XtriggerManager.housekeep')
    dels = [s for s in c.stores(hk, 'sat_xtrig') if s.kind == 'del']
    c.floor('C33.housekeep', 'del self.sat_xtrig[sig]', len(dels), 1)
    # a satisfied-xtrigger record is dropped only when no task in the pool
    # still needs it: the deletion is guarded by `sig not in <needed>` where
    # <needed> collects _get_xtrigs(task, sigs_only=True, unsat_only=True)
    # over all the given tasks (accumulating loop or comprehension, any names)
    tasks_param = hk.node.args.args[1].arg

    def collects_needed(e):
        """e (or the local it names) gathers the unsatisfied signatures of
        every task of the parameter."""
        exprs = [e]
        if isinstance(e, ast.Name):
            exprs = [n.value for n in ast.walk(hk.node) if isinstance(
                n, (ast.Assign, ast.AugAssign)) and norm(
                n.targets[0] if isinstance(n, ast.Assign) else n.target)
                == e.id]
        hit = False
        for x in exprs:
            for call in c.find(x, 'self._get_xtrigs(_t, sigs_only=True, '
                               'unsat_only=True)'):
                its = set()
                cur = call
                while id(cur) in c.idx.parent and cur is not hk.node:
                    cur = c.idx.parent[id(cur)]
                    if isinstance(cur, ast.For):
                        its.add(norm(cur.iter))
                    elif isinstance(cur, (ast.ListComp, ast.GeneratorExp,
                                          ast.SetComp)):
                        its |= {norm(g.iter) for g in cur.generators}
                        if any(g.ifs for g in cur.generators):
                            return False
                if tasks_param in its:
                    hit = True
        return hit
    for d in dels:
        ok = False
        for fact in c.facts(d.node, expand=False):
            if fact[0] == 'atom' and isinstance(fact[1], ast.Compare) and \
                    len(fact[1].ops) == 1:
                op = fact[1].ops[0]
                neg_in = (isinstance(op, ast.NotIn) and fact[2]) or (
                    isinstance(op, ast.In) and not fact[2])
                if neg_in and collects_needed(fact[1].comparators[0]):
                    ok = True
        c.ob('C33.housekeep', c.key(d.node, hk) + ' only for signatures no '
             'task still needs', ok, c.where(d.node, hk), '')
    # writers
    allow = {
        'active': {
            (f'{M}:XtriggerManager.__init__', 'assign'),
            (f'{M}:XtriggerManager.call_xtriggers_async', 'call:append'),
            (f'{M}:XtriggerManager.callback', 'call:remove'),
        },
        't_next_call': {
            (f'{M}:XtriggerManager.__init__', 'assign'),
            (f'{M}:XtriggerManager.call_xtriggers_async', 'assign'),
            (f'{M}:XtriggerManager.housekeep', 'del'),
        },
        'sat_xtrig': {
            (f'{M}:XtriggerManager.__init__', 'assign'),
            (f'{M}:XtriggerManager.load_xtrigger_for_restart', 'assign'),
            (f'{M}:XtriggerManager.call_xtriggers_async', 'assign'),
            (f'{M}:XtriggerManager.callback', 'assign'),
            (f'{M}:XtriggerManager.housekeep', 'del'),
        },
    }
    for attr, ok_set in allow.items():
        sts = c.stores(M, attr)
        c.floor('C33.writers', f'stores to {attr} (positive control)',
                len(sts), 3)
        for s in sts:
            f = c.owner(s.node)
            if f is None or f.cls is None or f.cls.name != 'XtriggerManager':
                continue
            c.ob('C33.writers', c.key(s.node, f) + f' [{attr}]',
                 (f.fq, s.kind) in ok_set, c.where(s.node, f),
                 f'{s.kind} of {attr} in {f.fq}')
    for attr in ('t_next_call', 'sat_xtrig'):
        for m in c.idx.modules.values():
            if m.name == M:
                continue
            for s in c.stores(m.name, attr):
                f = c.owner(s.node)
                c.ob('C33.writers', c.key(s.node, f) + f' [{attr}]', False,
                     c.where(s.node, f), f'{attr} written outside '
                     'XtriggerManager')


VARIANTS = [
    ('housekeep-subset', 'cylc/flow/scheduler.py',
     '            self.xtrigger_mgr.housekeep(self.pool.get_tasks())',
     '            self.xtrigger_mgr.housekeep([t for t in self.pool.get_tasks() if not t.state.is_runahead])',
     'C33.housekeep'),
    ('no-active-check', M.join(['cylc/flow/', '.py']),
     '''            if sig in self.active:
                # Already waiting on this result.
                continue
''', '''            if sig in self.active and False:
                continue
''', 'C33.call-gate'),
    ('interval-off', 'cylc/flow/xtrigger_mgr.py',
     'if sig in self.t_next_call and now < self.t_next_call[sig]:',
     'if sig in self.t_next_call and now > self.t_next_call[sig]:',
     'C33.call-gate'),
    ('no-release-on-error', 'cylc/flow/xtrigger_mgr.py',
     '''        sig = ctx.get_signature()
        self.active.remove(sig)

        if ctx.ret_code != 0:
            msg = f"ERROR in xtrigger {sig}"
            if ctx.err:
                msg += f"\\n{ctx.err}"
            LOG.warning(msg)
''', '''        sig = ctx.get_signature()

        if ctx.ret_code != 0:
            msg = f"ERROR in xtrigger {sig}"
            if ctx.err:
                msg += f"\\n{ctx.err}"
            LOG.warning(msg)
            return
        self.active.remove(sig)
''', 'C33.release'),
    ('record-failure', 'cylc/flow/xtrigger_mgr.py',
     '''        if not succeeded:
            return

        self.data_store_mgr.delta_xtrigger(sig, succeeded)''',
     '''        self.data_store_mgr.delta_xtrigger(sig, succeeded)''',
     'C33.record-success'),
    ('next-call-late', 'cylc/flow/xtrigger_mgr.py',
     '''            self.t_next_call[sig] = now + ctx.intvl
            # Queue to the process pool, and record as active.
            self.active.append(sig)
            self.proc_pool.put_command(ctx, callback=self.callback)''',
     '''            # Queue to the process pool, and record as active.
            self.active.append(sig)
            self.proc_pool.put_command(ctx, callback=self.callback)
            self.t_next_call[sig] = ctx.intvl''',
     'C33.interval'),
    ('housekeep-all', 'cylc/flow/xtrigger_mgr.py',
     '''            if sig not in all_xtrig:
                LOG.debug''', '''            if sig in all_xtrig:
                LOG.debug''', 'C33.housekeep'),
    ('benign-nested', 'cylc/flow/xtrigger_mgr.py',
     '''            if sig in self.active:
                # Already waiting on this result.
                continue
''', '''            if self.active.count(sig) or sig in self.active:
                continue
''', None),
]

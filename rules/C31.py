"""C31 Sequential tasks never overlap and run in cycle order."""
import ast

from sa.core import AnalysisError, norm

TECHNIQUE = ('static analysis: required construction of the implicit '
             'previous-instance prerequisite and next-instance child for '
             'sequential task definitions (guard atoms, max/min selection, '
             'output name, pre-start value), readiness conjunct')

CLAUSES = (
    'Decided: for a task definition flagged sequential every instance gets a '
    'prerequisite on the succeeded output of its own previous instance at the '
    'latest preceding point over its sequences, pre-satisfied only when that '
    'point is before the start point; its succeeded output has a child at the '
    'earliest next point; submission readiness requires all prerequisites '
    'satisfied; sequential tasks with parents are not treated as parentless. '
    'Not decided: non-overlap over all schedules.')


def check(c):
    from rules._shared import special_tasks_family_rules
    special_tasks_family_rules(c, 'C31.family-members')
    ap = c.func('task_state', 'TaskState._add_prerequisites')
    # all statements of the function and of new private helpers it alone
    # calls; variable names are not assumed
    nodes = [n for root in c.scope_nodes(ap) for n in c.idx.walk(root)]

    def value_of(name, near):
        """The single assigned value of a local in near's function."""
        f = c.idx.owner(near)
        defs = [d for d in c.idx.walk(f.node) if isinstance(d, ast.Assign)
                and norm(d.targets[0]) == name]
        return defs[0].value if len(defs) == 1 else None
    sets = [n for n in nodes if isinstance(n, ast.Assign)
            and isinstance(n.targets[0], ast.Subscript)
            and isinstance(n.targets[0].slice, ast.Tuple)
            and len(n.targets[0].slice.elts) == 3
            and norm(n.targets[0].slice.elts[1]) == 'tdef.name'
            and c.fold(n.targets[0].slice.elts[2]) == 'succeeded'
            and c.holds(n, 'tdef.sequential')]
    c.exactly('C31.prev-prereq', 'implicit prerequisite item', len(sets), 1)
    for n in sets:
        f = c.idx.owner(n)
        pvar = norm(n.targets[0].slice.elts[0])
        cvar = norm(n.targets[0].value)
        v = n.value
        if isinstance(v, ast.Name) and value_of(v.id, n) is not None:
            v = value_of(v.id, n)
        c.ob('C31.prev-prereq', c.key(n, f)[:100] + ' pre-satisfied only '
             'before the start point', norm(v) ==
             f'{pvar} < tdef.start_point', c.where(n, f), norm(v))
        c.guard('C31.prev-prereq', n, ['tdef.sequential'], f)
        # registered among the task's prerequisites under its own hash
        regs = [s for s in nodes if isinstance(s, ast.Assign) and isinstance(
            s.targets[0], ast.Subscript) and isinstance(s.value, ast.Name)
            and norm(s.targets[0].slice) ==
            f'{s.value.id}.instantaneous_hash()'
            and c.holds(s, 'tdef.sequential')]
        c.floor('C31.prev-prereq', 'implicit prerequisite registered under '
                'its hash', len(regs), 1)
        if c.idx.owner(n) is ap:
            def is_reg(s, cv=cvar):
                return isinstance(s, ast.Assign) and norm(s.targets[0]) == \
                    f'prerequisites[{cv}.instantaneous_hash()]' and norm(
                    s.value) == cv
            # `if <cv> is not None: <register>` reached from the item store
            # always registers (the store would have raised on None)
            sure = [i.test for i in ast.walk(ap.node) if isinstance(i, ast.If)
                    and norm(i.test) in (f'{cvar} is not None', cvar)
                    and any(is_reg(b) for b in i.body)]
            c.post('C31.prev-prereq', ap, n, lambda s: is_reg(s) or any(
                s is t for t in sure), 'registered in prerequisites')
        # the point is the latest previous point over all sequences
        pdef = value_of(pvar, n)
        ok = isinstance(pdef, ast.Call) and norm(pdef.func) == 'max' and \
            len(pdef.args) == 1
        c.ob('C31.prev-prereq', c.key(n, f)[:100] + f' {pvar} = max(previous '
             'points)', ok, c.where(n, f), norm(pdef) if pdef is not None
             else 'no single definition')
        if ok:
            lst = pdef.args[0]
            lname = lst.id if isinstance(lst, ast.Name) else None
            c.guard('C31.prev-prereq', n, [norm(lst)], f,
                    what='only when there is a previous point;')
            srcs = [x for x in c.idx.walk(f.node) if isinstance(x, ast.Call)
                    and isinstance(x.func, ast.Attribute)
                    and x.func.attr == 'get_nearest_prev_point'
                    and [norm(a) for a in x.args] == ['point']]
            c.exactly('C31.prev-prereq', 'get_nearest_prev_point(point)',
                      len(srcs), 1)
            for x in srcs:
                its = set()
                cur = x
                while id(cur) in c.idx.parent and cur is not f.node:
                    cur = c.idx.parent[id(cur)]
                    if isinstance(cur, ast.For):
                        its.add((norm(cur.target), norm(cur.iter)))
                    elif isinstance(cur, (ast.ListComp, ast.GeneratorExp)):
                        its |= {(norm(g.target), norm(g.iter))
                                for g in cur.generators}
                c.ob('C31.prev-prereq', c.key(x, f)[:100] + ' over all '
                     'sequences', (norm(x.func.value), 'tdef.sequences')
                     in its, c.where(x, f), str(sorted(its)))
            if lname:
                fills = [x for x in c.idx.walk(f.node) if isinstance(
                    x, ast.Call) and isinstance(x.func, ast.Attribute)
                    and x.func.attr == 'append' and norm(
                        x.func.value) == lname]
                for x in fills:
                    c.guard('C31.prev-prereq', x, [norm(x.args[0])], f,
                            what='missing previous points are skipped;')
    fin = [n for n in c.idx.walk(ap.node) if isinstance(n, ast.Assign)
           and norm(n.targets[0]) == 'self.prerequisites']
    c.ob('C31.prev-prereq', f'{ap.fq} :: self.prerequisites = all collected',
         len(fin) == 1 and norm(fin[0].value) ==
         'list(prerequisites.values())', c.where(ap.node, ap), '')

    gc = c.func('taskdef', 'generate_graph_children')
    # the next-instance child: TaskTuple(own name, <earliest next point>,
    # False) under :succeeded, only when there is a next point
    ch = [n for n in c.calls(gc, 'append') if c.find(
        n, 'TaskTuple(tdef.name, _, False)')]
    c.exactly('C31.next-child', 'next-instance child', len(ch), 1)
    lists = set()
    for n in ch:
        c.guard('C31.next-child', n, ['tdef.sequential'], gc)
        ok = bool(c.find(n.func, 'graph_children.setdefault('
                         'TASK_OUTPUT_SUCCEEDED, [])'))
        c.ob('C31.next-child', c.key(n, gc)[:100] + ' under :succeeded', ok,
             c.where(n, gc), '')
        tt = c.find(n, 'TaskTuple(tdef.name, _, False)')[0]
        e = tt.args[1]
        vals = [e]
        if isinstance(e, ast.Name):
            vals = [d.value for d in c.idx.walk(gc.node)
                    if isinstance(d, ast.Assign)
                    and norm(d.targets[0]) == e.id] or [e]
        flat = []
        while vals:
            v = vals.pop()
            if isinstance(v, ast.IfExp):
                vals += [v.body, v.orelse]
            else:
                flat.append(v)
        vals = flat
        mins = [v for v in vals if isinstance(v, ast.Call)
                and norm(v.func) == 'min' and len(v.args) == 1]
        others = [v for v in vals if v not in mins and norm(v) != 'None']
        c.ob('C31.next-child', c.key(n, gc)[:100] + ' at the earliest next '
             'point', bool(mins) and not others, c.where(n, gc),
             str([norm(v) for v in vals]))
        for m in mins:
            lists.add(norm(m.args[0]))
        guards = [norm(m.args[0]) for m in mins]
        if isinstance(e, ast.Name) and len(vals) > 1:
            guards = [f'{e.id} is not None']
        if not guards:
            guards = ['_never_']
        c.guard('C31.next-child', n, guards[:1], gc,
                what='only when a next point exists;')
    # `nexts` = the next point of every sequence of the task, None dropped;
    # as a loop with append or as a comprehension, whatever the names
    nps = c.find(gc, '_.get_next_point(point)')
    c.exactly('C31.next-child', 'get_next_point(point) in '
              'generate_graph_children', len(nps), 1)
    for n in nps:
        srcs = set()
        cur = n
        while id(cur) in c.idx.parent and cur is not gc.node:
            cur = c.idx.parent[id(cur)]
            if isinstance(cur, ast.For):
                srcs.add((norm(cur.target), norm(cur.iter)))
            elif isinstance(cur, (ast.ListComp, ast.GeneratorExp,
                                  ast.SetComp)):
                srcs |= {(norm(g.target), norm(g.iter))
                         for g in cur.generators}
        recv = norm(n.func.value)
        c.ob('C31.next-child', c.key(n, gc)[:110] + ' for every sequence of '
             'the task', (recv, 'tdef.sequences') in srcs, c.where(n, gc),
             f'{sorted(srcs)}')
        c.guard('C31.next-child', n, ['tdef.sequential'], gc)
    # every way a value gets into `nexts` drops None
    adds = [a for a in c.calls(gc, 'append') if norm(a.func.value) in lists]
    for a in adds:
        c.guard('C31.next-child', a, [f'{norm(a.args[0])} is not None'], gc)
        defs = [d for d in c.idx.walk(gc.node) if isinstance(d, ast.Assign)
                and norm(d.targets[0]) == norm(a.args[0])]
        c.ob('C31.next-child', c.key(a, gc) + ' appends the next point',
             any(d.value is n for d in defs for n in nps) or any(
                 a.args[0] is n for n in nps), c.where(a, gc), '')
    comps = [n for n in c.idx.walk(gc.node) if isinstance(n, ast.Assign)
             and norm(n.targets[0]) in lists and isinstance(
                 n.value, (ast.ListComp, ast.SetComp))]
    for n in comps:
        g = n.value
        def unwalrus(e):
            """`(nxt := f(x)) is not None` reads as `nxt is not None`."""
            class W(ast.NodeTransformer):
                def visit_NamedExpr(self, n):
                    return ast.Name(id=n.target.id, ctx=ast.Load())
            import copy
            return norm(W().visit(copy.deepcopy(e)))
        filt = [unwalrus(i) for gen in g.generators for i in gen.ifs]
        c.ob('C31.next-child', c.key(n, gc)[:110] + ' drops None',
             f'{norm(g.elt)} is not None' in filt, c.where(n, gc),
             f'filters {filt}')
        c.ob('C31.next-child', c.key(n, gc)[:110] + ' collects the next '
             'points', any(x is p for x in ast.walk(g) for p in nps),
             c.where(n, gc), '')
    c.floor('C31.next-child', 'ways of filling nexts', len(adds) + len(comps),
            1)
    ip = c.func('taskdef', 'TaskDef.is_parentless')
    rf = [r for r in c.idx.walk(ip.node) if isinstance(r, ast.Return)
          and norm(r.value) == 'False']
    ok = any(c.holds(r, 'self.sequential') for r in rf)
    c.ob('C31.not-parentless', f'{ip.fq} :: sequential ⟹ not parentless '
         '(implicit parent)', ok, c.where(ip.node, ip), '')
    rr = c.func('task_proxy', 'TaskProxy.is_ready_to_run')
    ok = any(isinstance(r.value, ast.BoolOp) and
             'self.prereqs_are_satisfied()' in [norm(v) for v in
                                                r.value.values]
             for r in c.idx.walk(rr.node) if isinstance(r, ast.Return))
    c.ob('C31.prev-prereq', f'{rr.fq} :: readiness needs all prerequisites',
         ok, c.where(rr.node, rr), '')
    # the sequential flag comes from the config
    st = c.stores(None, 'sequential')
    c.floor('C31.flag', 'stores to .sequential', len(st), 1)


VARIANTS = [
    ('special-family-first-parent-members', 'cylc/flow/config.py',
     "                    for member in self.runtime['descendants'][name]:",
     "                    for member in self.get_first_parent_descendants().get(name, ()):",
     'C31.family-members'),
    ('always-presatisfied', 'cylc/flow/task_state.py',
     '''                cpre[(p_prev, tdef.name, TASK_STATUS_SUCCEEDED)] = (
                    p_prev < tdef.start_point
                )''', '''                cpre[(p_prev, tdef.name, TASK_STATUS_SUCCEEDED)] = (
                    p_prev <= tdef.start_point
                )''', 'C31.prev-prereq'),
    ('earliest-prev', 'cylc/flow/task_state.py',
     '                p_prev = max(adjusted)', '                p_prev = min(adjusted)',
     'C31.prev-prereq'),
    ('not-registered', 'cylc/flow/task_state.py',
     '''                cpre.set_conditional_expr(tdef.name)
                prerequisites[cpre.instantaneous_hash()] = cpre''',
     '''                cpre.set_conditional_expr(tdef.name)''',
     'C31.prev-prereq'),
    ('wrong-output', 'cylc/flow/task_state.py',
     '                cpre[(p_prev, tdef.name, TASK_STATUS_SUCCEEDED)] = (',
     '                cpre[(p_prev, tdef.name, TASK_STATUS_RUNNING)] = (',
     'C31.prev-prereq'),
    ('latest-next', 'cylc/flow/taskdef.py',
     '                TaskTuple(tdef.name, min(nexts), False)',
     '                TaskTuple(tdef.name, max(nexts), False)',
     'C31.next-child'),
    ('sequential-parentless', 'cylc/flow/taskdef.py',
     '''        if self.sequential:
            # Implicit parents
            return False
''', '', 'C31.not-parentless'),
]

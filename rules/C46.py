"""C46 Warm starts and start tasks run only what follows the start."""
import ast

from sa.core import AnalysisError, norm
from sa.pat import AnyOf

TECHNIQUE = ('static analysis: operator-exact guard atoms of the pre-start '
             'refusal in the spawner, of parentless auto-spawning and of '
             'pre-start prerequisite satisfaction; provenance of the start '
             'point in load_from_point; argument shape of the start-task '
             'loader')

CLAUSES = (
    'Decided: spawn_task refuses (returns None) a never-run task whose point '
    'is before the start point in the original flow unless it was listed as '
    'a start task; spawn_next_parentless does nothing for no-flow tasks or '
    'points before the start point; load_from_point seeds each task at its '
    'first parentless point at/after the start point; a prerequisite on a '
    'pre-initial point is satisfied, and one on a pre-start point is '
    'satisfied exactly for tasks at or after the start point; start tasks '
    'are loaded with all prerequisites satisfied in a new flow. Not decided: '
    'the set of instances run over generated graphs.')

TP = 'task_pool'


def check(c):
    st = c.func(TP, 'TaskPool.spawn_task')
    nones = [r for r in c.idx.walk(st.node) if isinstance(r, ast.Return)
             and norm(r.value) == 'None'
             and c.holds(r, 'point < self.config.start_point')]
    c.exactly('C46.pre-start-refusal', 'return None ⟸ point < start_point',
              len(nones), 1)
    reqs = ['!prev_status', 'point < self.config.start_point',
            'flow_nums.issuperset({1})',
            '!((name, point) in self.pre_start_tasks_to_trigger)']
    for r in nones:
        c.guard('C46.pre-start-refusal', r, reqs, st)
        c.guard_only('C46.pre-start-refusal', r, reqs, st)
        # decided before the proxy is created
        created = c.find(st, 'self._load_db_task_proxy(*_)')
        for cr in created:
            ok = c.cfg(st).path_exists(c.idx.parent[id(r)], c.idx.stmt_of(cr))
            c.ob('C46.pre-start-refusal', c.key(r, st) + ' precedes proxy '
                 'creation', ok, c.where(r, st), '')
    # prev_status comes from the DB history for these flows
    hist = [n for n in c.idx.walk(st.node) if isinstance(n, ast.Assign)
            and 'self._get_task_history(name, point, flow_nums)' in norm(
                n.value)]
    c.floor('C46.pre-start-refusal', 'history lookup', len(hist), 1)
    c.who_writes('C46.start-tasks', 'pre_start_tasks_to_trigger', {
        (f'{TP}:TaskPool.__init__', 'assign'),
        (f'{TP}:TaskPool.remove', 'call:discard'),
        ('commands:_force_trigger_tasks', 'call:add'),
        ('commands:_force_trigger_tasks', 'call:update'),
        ('commands:_force_trigger_tasks', 'assign'),
        ('commands:_force_trigger_tasks', 'call:discard'),
    }, floor=2)

    snp = c.func(TP, 'TaskPool.spawn_next_parentless')
    rets = [r for r in c.idx.walk(snp.node) if isinstance(r, ast.Return)]
    early = [r for r in rets if c.holds(r, AnyOf(
        '!itask.flow_nums', 'itask.point < self.config.start_point'))]
    c.floor('C46.parentless', 'early return in spawn_next_parentless',
            len(early), 1)
    for s in c.calls(snp, 'get_or_spawn_task'):
        c.guard('C46.parentless', s, [
            'itask.flow_nums', 'self.config.start_point <= itask.point'], snp)
    npp = c.find(snp, 'itask.tdef.next_point_parentless('
                 'self.config.start_point, itask.point)')
    c.floor('C46.parentless', 'next_point_parentless(start_point, point)',
            len(npp), 1)
    lfp = c.func(TP, 'TaskPool.load_from_point')
    c.floor('C46.seed', 'next_point_parentless(self.config.start_point)',
            len(c.find(lfp, 'tdef.next_point_parentless('
                       'self.config.start_point)')), 1)
    for s in c.calls(lfp, 'add_to_pool'):
        c.guard('C46.seed', s, ['point', 'ntask is not None'], lfp)

    # prerequisites
    gp = c.func('task_trigger', 'Dependency.get_prerequisite')
    pre_init = [s for s in c.idx.walk(gp.node) if isinstance(s, ast.Assign)
                and norm(s.targets[0]) == 'cpre[key]'
                and norm(s.value) == 'True']
    c.exactly('C46.prereq', 'cpre[key] = True', len(pre_init), 1)
    for s in pre_init:
        c.guard('C46.prereq', s,
                ['prereq_offset_point < tdef.initial_point'], gp)
        c.guard_only('C46.prereq', s, [
            'prereq_offset_point < tdef.initial_point',
            'task_trigger.cycle_point_offset is not None'], gp)
    pre_start = [s for s in c.idx.walk(gp.node) if isinstance(s, ast.Assign)
                 and norm(s.targets[0]) == 'cpre[key]'
                 and isinstance(s.value, ast.BoolOp)]
    c.exactly('C46.prereq', 'pre-start satisfaction value', len(pre_start), 1)
    for s in pre_start:
        ok = bool(c.find(s.value, 'prereq_offset_point < tdef.start_point '
                         'and tdef.start_point <= point'))
        c.ob('C46.prereq', c.key(s, gp) + ' = offset point < start <= point',
             ok, c.where(s, gp), norm(s.value))
    same = [s for s in c.idx.walk(gp.node) if isinstance(s, ast.Assign)
            and norm(s.targets[0]) == 'cpre[key]'
            and norm(s.value) == 'False']
    for s in same:
        c.guard('C46.prereq', s,
                ['!(task_trigger.cycle_point_offset is not None)'], gp)

    # start tasks
    lt = c.func('scheduler', 'Scheduler._load_pool_from_tasks')
    calls = c.calls(lt, 'set_prereqs_and_outputs')
    c.exactly('C46.start-tasks', 'set_prereqs_and_outputs call', len(calls), 1)
    for s in calls:
        kw = {k.arg: norm(k.value) for k in s.keywords}
        c.ob('C46.start-tasks', c.key(s, lt) + " prereqs=['all']",
             kw.get('prereqs') == "['all']", c.where(s, lt), str(kw))
        c.ob('C46.start-tasks', c.key(s, lt) + ' flow=[FLOW_NEW]',
             kw.get('flow') == '[FLOW_NEW]', c.where(s, lt), '')
        c.ob('C46.start-tasks', c.key(s, lt) + ' outputs=[]',
             kw.get('outputs') == '[]', c.where(s, lt), '')
    cfg = c.func('scheduler', 'Scheduler.configure')
    lpt = c.find(cfg, 'self._load_pool_from_tasks()')
    c.floor('C46.start-tasks', '_load_pool_from_tasks in configure',
            len(lpt), 1)
    for n in lpt:
        c.guard('C46.start-tasks', n,
                ['self.options.starttask', '!self.is_restart'], cfg)


VARIANTS = [
    ('refusal-le', 'cylc/flow/task_pool.py',
     '            and point < self.config.start_point\n            and flow_nums',
     '            and point <= self.config.start_point\n            and flow_nums',
     'C46.pre-start-refusal'),
    ('refusal-any-flow', 'cylc/flow/task_pool.py',
     '            and flow_nums.issuperset({1})\n', '', 'C46.pre-start-refusal'),
    ('refusal-ignores-start-tasks', 'cylc/flow/task_pool.py',
     '            and (name, point) not in self.pre_start_tasks_to_trigger\n',
     '', 'C46.pre-start-refusal'),
    ('parentless-before-start', 'cylc/flow/task_pool.py',
     '            or itask.point < self.config.start_point  # Warm start',
     '            or itask.point > self.config.start_point  # Warm start',
     'C46.parentless'),
    ('seed-from-initial', 'cylc/flow/task_pool.py',
     'point = tdef.next_point_parentless(self.config.start_point)',
     'point = tdef.next_point_parentless(self.config.initial_point)',
     'C46.seed'),
    ('prestart-always', 'cylc/flow/task_trigger.py',
     '''                    prereq_offset_point < tdef.start_point
                    and point >= tdef.start_point''',
     '''                    prereq_offset_point < tdef.start_point''',
     'C46.prereq'),
    ('starttask-same-flow', 'cylc/flow/scheduler.py',
     '            flow=[FLOW_NEW],\n            flow_descr=f"original',
     '            flow=[FLOW_ALL],\n            flow_descr=f"original',
     'C46.start-tasks'),
]

"""C30 Removing a task undoes exactly its effects."""
import ast

from sa.core import AnalysisError, norm
from sa.pat import AnyOf

TECHNIQUE = ('static analysis: guard atoms of the removal command (pool '
             'removal only when no flows remain, flow subtraction, child '
             'stand-down conditions), guard of the natural-only prerequisite '
             'reset, SQL shape of the history erasure, recompute-on-removal '
             'pairing')

CLAUSES = (
    'Decided: the remove command removes a proxy from the pool only when the '
    'flows to remove equal its flows and otherwise only subtracts them; it '
    'erases the task\'s flow history in both task_states and task_outputs '
    '(exact flow intersection, keyed by cycle and name); it unsets only '
    'child prerequisites that were satisfied naturally by the removed task; a '
    'child is removed only if it is not yet preparing, belongs only to the '
    'removed flows, is no longer satisfied, is not itself being removed and '
    'has no other satisfied prerequisite output; runahead is recomputed when '
    'something was removed. Not decided: that other tasks are unchanged over '
    'all histories.')

CM = 'commands'


def check(c):
    rm = c.func(CM, '_remove_matched_tasks')
    pr = c.find(rm, "schd.pool.remove(itask, 'request')")
    c.exactly('C30.pool-removal', 'pool.remove(itask) site', len(pr), 1)
    for n in pr:
        c.guard('C30.pool-removal', n, [
            'itask', 'fnums_to_remove', 'fnums_to_remove == itask.flow_nums'],
            rm)
    sub = c.find(rm, 'itask.flow_nums.difference_update(fnums_to_remove)')
    c.exactly('C30.pool-removal', 'flow subtraction', len(sub), 1)
    for n in sub:
        c.guard_only('C30.pool-removal', n, ['itask', 'fnums_to_remove'], rm,
                     stop=_loop(c, n, 'ids'))
    fm = [n for n in c.idx.walk(rm.node) if isinstance(n, ast.Assign)
          and norm(n.targets[0]) == 'fnums_to_remove']
    ok = all(norm(n.value).endswith('.match_flows(flow_nums)') for n in fm) \
        and len(fm) == 2
    c.ob('C30.pool-removal', f'{rm.fq} :: flows to remove = '
         'match_flows(flow_nums)', ok, c.where(rm.node, rm), '')
    # history erased for every matched id (active or not)
    er = c.find(rm, "schd.workflow_db_mgr.remove_task_from_flows(id_['cycle'],"
                " id_['task'], flow_nums)")
    c.exactly('C30.history', 'remove_task_from_flows for the matched id',
              len(er), 1)
    for n in er:
        c.guard_only('C30.history', n, [], rm, stop=_loop(c, n, 'ids'))
    rf = c.func('workflow_db_mgr',
                'WorkflowDatabaseManager.remove_task_from_flows')
    loops = [n for n in c.idx.walk(rf.node) if isinstance(n, ast.For)
             and norm(n.target) == 'table']
    ok = bool(loops) and sorted(norm(e) for e in loops[0].iter.elts) == [
        'self.TABLE_TASK_OUTPUTS', 'self.TABLE_TASK_STATES']
    c.ob('C30.history', f'{rf.fq} :: both task_states and task_outputs', ok,
         c.where(rf.node, rf), '')
    sqls = []
    for n in c.idx.walk(rf.node):
        if isinstance(n, ast.JoinedStr):
            s = ''.join(str(v.value) if isinstance(v, ast.Constant) else '?'
                        for v in n.values)
            if 'UPDATE' in s:
                sqls.append(s)
    c.ob('C30.history', f'{rf.fq} :: updates keyed by cycle, name (and old '
         'flow_nums)', len(sqls) >= 2 and all(
             'cycle = ?' in s and 'name = ?' in s for s in sqls) and any(
             'AND flow_nums = ?' in s for s in sqls), c.where(rf.node, rf),
         '')
    inter = c.find(rf, 'db_fnums.intersection(flow_nums)')
    diff = c.find(rf, 'db_fnums.difference(flow_nums)')
    c.ob('C30.history', f'{rf.fq} :: removes exactly the intersection',
         len(inter) == 1 and len(diff) == 1 and c.holds(
             diff[0], 'fnums_to_remove'), c.where(rf.node, rf), '')
    # children
    un = c.func('prerequisite', 'Prerequisite.unset_naturally_satisfied')
    for n in c.idx.walk(un.node):
        if isinstance(n, ast.Assign) and norm(n.targets[0]) == \
                'self[t_output]':
            c.guard('C30.natural-only', n, [
                't_output.get_id() == id_', 'sat',
                "!(sat == 'force satisfied')"], un)
            c.ob('C30.natural-only', c.key(n, un) + ' = False',
                 norm(n.value) == 'False', c.where(n, un), '')
    calls = c.find(rm, 'prereq.unset_naturally_satisfied(id_.relative_id)')
    c.exactly('C30.natural-only', 'unset call for the removed id', len(calls),
              1)
    for n in calls:
        lp = c.idx.parent[id(c.idx.stmt_of(n))]
        ok = isinstance(lp, ast.For) and 'child_itask.state.prerequisites' in \
            norm(lp.iter) and 'child_itask.state.suicide_prerequisites' in \
            norm(lp.iter)
        c.ob('C30.natural-only', c.key(n, rm)[:100] + ' over every '
             'prerequisite of the child', ok, c.where(n, rm), '')
        c.guard('C30.natural-only', n, ['child_itask', 'fnums_to_remove'], rm)
    cr = c.find(rm, 'schd.pool.remove(child_itask, '
                'schd.pool.REMOVED_BY_PREREQ)')
    c.exactly('C30.children', 'child removal', len(cr), 1)
    for n in cr:
        c.guard('C30.children', n, [
            'prereqs_changed',
            "!child_itask.state.is_gte('preparing')",
            'child_itask.flow_nums == fnums_to_remove',
            '!child_itask.state.prerequisites_all_satisfied()',
            '!(child_itask.tokens.task in ids)',
            '!child_itask.state.any_satisfied_prerequisite_outputs()'], rm)
        c.pre('C30.children', rm, n, c.matches(
            'schd.pool.unqueue_task(child_itask)'), 'unqueue')
        c.post('C30.children', rm, n, c.matches(
            'schd.workflow_db_mgr.remove_task_from_flows(str(child.point), '
            'child.name, fnums_to_remove)'), 'history erased for the child')
    ch = [n for n in c.idx.walk(rm.node) if isinstance(n, ast.For)
          and norm(n.target) == 'child']
    ok = bool(ch) and 'generate_graph_children(tdef, icycle).values()' in \
        norm(ch[0].iter)
    c.ob('C30.children', f'{rm.fq} :: children from the graph of the removed '
         'task', ok, c.where(rm.node, rm), '')
    # recompute runahead
    rt = c.func(CM, 'remove_tasks')
    call = c.find(rt, '_remove_matched_tasks(*_)')
    c.floor('C30.command', 'remove_tasks -> _remove_matched_tasks', len(call),
            1)
    cr2 = c.find(rm, 'schd.pool.compute_runahead()')
    c.floor('C30.recompute', 'compute_runahead after removal', len(cr2), 1)
    for n in cr2:
        c.guard('C30.recompute', n, ['removed'], rm)
    rel = c.find(rm, 'schd.pool.release_runahead_tasks()')
    for n in rel:
        c.guard('C30.recompute', n, ['removed',
                                     'schd.pool.compute_runahead()'], rm)
    kl = c.find(rm, 'schd.kill_tasks(to_kill, warn=False)')
    c.floor('C30.pool-removal', 'removed active tasks are killed', len(kl), 1)


def _loop(c, n, it):
    cur = n
    while id(cur) in c.idx.parent:
        cur = c.idx.parent[id(cur)]
        if isinstance(cur, ast.For) and norm(cur.iter) == it:
            return cur
    return None


VARIANTS = [
    ('remove-any-flow', 'cylc/flow/commands.py',
     '            if fnums_to_remove == itask.flow_nums:',
     '            if fnums_to_remove:', 'C30.pool-removal'),
    ('no-subtract', 'cylc/flow/commands.py',
     '            itask.flow_nums.difference_update(fnums_to_remove)\n',
     '', 'C30.pool-removal'),
    ('unset-forced', 'cylc/flow/prerequisite.py',
     "            if t_output.get_id() == id_ and sat and sat != 'force satisfied':",
     "            if t_output.get_id() == id_ and sat:", 'C30.natural-only'),
    ('remove-satisfied-child', 'cylc/flow/commands.py',
     '''                or child_itask.flow_nums != fnums_to_remove
                or child_itask.state.prerequisites_all_satisfied()''',
     '''                or child_itask.flow_nums != fnums_to_remove''',
     'C30.children'),
    ('remove-child-other-outputs', 'cylc/flow/commands.py',
     '''                child_itask.tokens.task in ids
                or child_itask.state.any_satisfied_prerequisite_outputs()''',
     '''                child_itask.tokens.task in ids''', 'C30.children'),
    ('history-states-only', 'cylc/flow/workflow_db_mgr.py',
     '''        for table in (
            self.TABLE_TASK_STATES,
            self.TABLE_TASK_OUTPUTS,
        ):''', '''        for table in (
            self.TABLE_TASK_STATES,
        ):''', 'C30.history'),
    ('history-only-active', 'cylc/flow/commands.py',
     '''        db_removed_fnums = schd.workflow_db_mgr.remove_task_from_flows(
            id_['cycle'], id_['task'], flow_nums,
        )''', '''        db_removed_fnums = set()
        if itask:
            db_removed_fnums = schd.workflow_db_mgr.remove_task_from_flows(
                id_['cycle'], id_['task'], flow_nums,
            )''', 'C30.history'),
    ('no-recompute', 'cylc/flow/commands.py',
     '    if removed and schd.pool.compute_runahead():',
     '    if not removed and schd.pool.compute_runahead():',
     'C30.recompute'),
]

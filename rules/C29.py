"""C29 Manually set outputs behave like naturally completed outputs."""
import ast

from sa.core import AnalysisError, norm
from sa.pat import AnyOf, StatusNotIn

TECHNIQUE = ('static analysis: guard of the forced-state refusal, argument '
             'propagation of `forced` through every message handler, shape of '
             'the default output set and ordering key, pairing of the forced '
             'outputs with DB update and flush, set-intersection shape of the '
             'valid-prerequisite filter')

CLAUSES = (
    'Decided: a forced state change to submitted or running is refused by '
    'TaskState.reset, and the submitted handler is skipped for forced '
    'messages; every state_reset inside the message handlers reached by '
    'forced messages passes forced=forced; `cylc set` with no outputs uses '
    'the required messages (or the skip-mode success outputs), orders them '
    'with the output sort key and sends each through process_message(..., '
    'forced=True) unless already complete; implied earlier outputs are '
    'handled by the same recursion as natural messages; the result is '
    'written to the DB and flushed; setting prerequisites keeps only '
    'prerequisites the task actually has (valid & requested) and goes '
    'through force_satisfy. '
    'Completed outputs are rebuilt from the db by trigger, never from the recorded messages (which hold a marker for outputs set by hand). '
    'Not decided: that the spawned child set equals '
    'natural completion for every graph.')

TEM = 'task_events_mgr'
TP = 'task_pool'


def check(c):
    from rules._shared import outputs_column_by_trigger_rules
    outputs_column_by_trigger_rules(c, 'C29.persisted-by-trigger')
    rs = c.func('task_state', 'TaskState.reset')
    for s in c.stores(rs, 'status'):
        c.guard('C29.no-forced-active', s.node, [AnyOf(
            '!forced', "!(status in ['submitted', 'running'])")], rs)
    # a manually set failed / submit-failed output is definitive: it never
    # turns into an automatic retry (which would leave the output incomplete,
    # the children unspawned and the task heading for submission)
    rts = c.calls(TEM, '_retry_task')
    c.floor('C29.no-forced-retry', '_retry_task call sites', len(rts), 2)
    for n in rts:
        f = c.owner(n)
        if 'forced' not in [a.arg for a in f.node.args.args]:
            # a handler without the flag must not be entered at all for a
            # forced output (`if forced or self._handler(...)`)
            sites = c.calls(TEM, f.name)
            c.floor('C29.no-forced-retry', f'callers of {f.name}',
                    len(sites), 1)
            for s in sites:
                c.guard('C29.no-forced-retry', s, ['!forced'], c.owner(s),
                        what=f'{f.name} is skipped for a forced output;')
            continue
        c.guard('C29.no-forced-retry', n, ['!forced'], f,
                what='retries only for real job failures;')
    pm = c.func(TEM, 'TaskEventsManager.process_message')
    sub = c.find(pm, 'self._process_message_submitted(itask, event_time)')
    c.exactly('C29.no-forced-active', '_process_message_submitted call',
              len(sub), 1)
    for n in sub:
        c.guard('C29.no-forced-active', n, ['!forced'], pm)
    # children of :submitted are still spawned when forced
    for n in c.find(pm, 'self.spawn_children(itask, TASK_OUTPUT_SUBMITTED, '
                    'forced)'):
        c.guard_only('C29.spawn', n, [
            'message == self.EVENT_SUBMITTED', 'flag == self.FLAG_RECEIVED',
            "itask.state.is_gte('submitted')",
            'self._process_message_check(itask, severity, message, '
            'event_time, flag, submit_num, forced)'], pm,
            stop=_arm(c, n, 'EVENT_SUBMITTED'))
    # forced propagation
    n_prop = 0
    for h in ('_process_message_started', '_process_message_succeeded',
              '_process_message_expired', '_process_message_failed'):
        calls = c.calls(pm, h)
        c.floor('C29.forced-propagation', f'{h} call', len(calls), 1)
        for n in calls:
            args = [norm(a) for a in n.args] + [
                norm(k.value) for k in n.keywords if k.arg == 'forced']
            n_prop += 1
            c.ob('C29.forced-propagation', c.key(n, pm)[:110] + ' passes '
                 'forced', 'forced' in args, c.where(n, pm), '')
        f = c.func(TEM, f'TaskEventsManager.{h}')
        for n in c.calls(f, 'state_reset'):
            v = c.fold(n.args[0]) if n.args else None
            if isinstance(v, str) and v != 'waiting':
                kw = {k.arg: norm(k.value) for k in n.keywords}
                c.ob('C29.forced-propagation', c.key(n, f) + ' forced=forced',
                     kw.get('forced') == 'forced', c.where(n, f), '')
    for n in c.calls(pm, 'spawn_children'):
        c.ob('C29.spawn', c.key(n, pm)[:110] + ' passes forced',
             len(n.args) >= 3 and norm(n.args[2]) == 'forced',
             c.where(n, pm), '')
    sc = c.func(TEM, 'TaskEventsManager.spawn_children')
    for n in c.find(sc, 'self.spawn_func(itask, output)'):
        c.guard('C29.spawn', n, [AnyOf('!itask.transient', 'forced')], sc,
                what='transient proxies spawn children only when forced;')
        # exactly: reached iff (not transient or forced) -- as an enclosing
        # `if`, or as an early return on the opposite test
        from rules._shared import reach_table
        tab = reach_table(c, n, {'t': 'itask.transient', 'f': 'forced'}, sc)
        want = {(t, f): (not t) or f for t in (False, True)
                for f in (False, True)}
        c.ob('C29.spawn', c.key(n, sc) + ' whenever forced or not transient '
             '(and only then)', tab == want, c.where(n, sc),
             'reached iff not transient or forced' if tab == want else
             f'reachability over (transient, forced): {tab}')
    gen = c.find(pm, 'itask.state.outputs.set_message_complete(task_output, '
                 'forced)')
    c.exactly('C29.spawn', 'set_message_complete(task_output, forced)',
              len(gen), 1)

    # ---- _set_outputs_itask
    so = c.func(TP, 'TaskPool._set_outputs_itask')
    dflt = [n for n in c.idx.walk(so.node) if isinstance(n, ast.Assign)
            and norm(n.targets[0]) == 'outputs'
            and c.find(n.value, 'itask.state.outputs.iter_required_messages()')
            ]
    c.exactly('C29.defaults', 'default output set', len(dflt), 1)
    for n in dflt:
        c.guard('C29.defaults', n, ['!outputs'], so)
        ok = isinstance(n.value, ast.BoolOp) and isinstance(
            n.value.op, ast.Or) and norm(n.value.values[0]) == \
            'set(itask.state.outputs.iter_required_messages())' and norm(
            n.value.values[1]) == 'get_skip_mode_outputs(itask)'
        c.ob('C29.defaults', c.key(n, so)[:100] + ' required messages, else '
             'skip-mode outputs', ok, c.where(n, so), '')
    pms = c.calls(so, 'process_message')
    c.exactly('C29.defaults', 'process_message in _set_outputs_itask',
              len(pms), 1)
    for n in pms:
        kw = {k.arg: norm(k.value) for k in n.keywords}
        c.ob('C29.defaults', c.key(n, so)[:100] + ' forced=True',
             kw.get('forced') == 'True', c.where(n, so), '')
        c.guard('C29.defaults', n, [
            '!itask.state.outputs.is_message_complete(output)'], so)
        lp = c.idx.parent[id(c.idx.stmt_of(n))]
        ok = isinstance(lp, ast.For) and norm(lp.iter) == \
            'sorted(outputs, key=itask.state.outputs.output_sort_key)'
        c.ob('C29.defaults', c.key(n, so)[:100] + ' in output order', ok,
             c.where(n, so), '')
    rets_true = [r for r in c.idx.walk(so.node) if isinstance(r, ast.Return)
                 and norm(r.value) == 'True']
    for r in rets_true:
        for p in ('self.workflow_db_mgr.put_update_task_state(itask)',
                  'self.workflow_db_mgr.put_update_task_outputs(itask)',
                  'self.workflow_db_mgr.process_queued_ops()',
                  'self.data_store_mgr.delta_task_outputs(itask)'):
            c.pre('C29.persist', so, r, c.matches(p), p.split('.')[-1])
    c.floor('C29.persist', 'return True', len(rets_true), 1)
    rel = c.find(so, 'itask.state_reset(is_runahead=False, is_queued=False)')
    for n in rel:
        c.guard('C29.defaults', n, [StatusNotIn('waiting')], so)
    std = c.func(TP, 'TaskPool._standardise_outputs')
    c.floor('C29.defaults', 'triggers converted to messages', len(
        c.find(std, 'tdef.outputs[output][0]')), 1)

    # ---- prerequisites
    gv = c.func(TP, 'TaskPool._get_valid_prereqs')
    rets = [r for r in c.idx.walk(gv.node) if isinstance(r, ast.Return)]
    ok = len(rets) == 1 and norm(rets[0].value) in (
        'valid_pre & prereqs', 'prereqs & valid_pre')
    c.ob('C29.valid-prereqs', f'{gv.fq} :: returns valid ∩ requested', ok,
         c.where(gv.node, gv), norm(rets[0].value) if rets else '')
    vp = [n for n in c.idx.walk(gv.node) if isinstance(n, ast.Assign)
          and norm(n.targets[0]) == 'valid_pre']
    ok = len(vp) == 1 and isinstance(vp[0].value, ast.SetComp) and norm(
        vp[0].value.generators[0].iter) == 'tdef.get_prereqs(point)'
    c.ob('C29.valid-prereqs', f'{gv.fq} :: valid set from the task '
         'definition at that point', ok, c.where(gv.node, gv), '')
    spo = c.func(TP, 'TaskPool.set_prereqs_and_outputs')
    for n in c.calls(spo, '_set_prereqs_itask'):
        args = [norm(a) for a in n.args]
        c.ob('C29.valid-prereqs', c.key(n, spo)[:110] + ' passes the '
             'filtered sets', args[1:3] == ['valid_prereqs', 'valid_xtrigs'],
             c.where(n, spo), str(args))
    for n in c.calls(spo, '_set_prereqs_tdef'):
        args = [norm(a) for a in n.args]
        c.ob('C29.valid-prereqs', c.key(n, spo)[:110] + ' passes the '
             'filtered sets', args[2:4] == ['valid_prereqs', 'valid_xtrigs'],
             c.where(n, spo), str(args))
    fs = c.func('task_proxy', 'TaskProxy.force_satisfy')
    sets = [n for n in c.idx.walk(fs.node) if isinstance(n, ast.Assign)
            and norm(n.targets[0]) == 'prereq[pre]']
    c.exactly('C29.valid-prereqs', 'prereq[pre] = force satisfied',
              len(sets), 1)
    for n in sets:
        c.guard('C29.valid-prereqs', n, [
            AnyOf('set_all', 'pre in prereqs'), '!state'], fs)


def _arm(c, n, ev):
    cur = n
    while id(cur) in c.idx.parent:
        cur = c.idx.parent[id(cur)]
        if isinstance(cur, ast.If) and c.find(cur.test, f'_ == self.{ev}'):
            return cur
    return None


VARIANTS = [
    ('history-outputs-by-message', 'cylc/flow/task_pool.py',
     '''                        for trigger in outputs.keys():
                            itask.state.outputs.set_trigger_complete(trigger)''',
     '''                        for msg in outputs.values():
                            itask.state.outputs.set_message_complete(msg)''',
     'C29.persisted-by-trigger'),
    ('forced-submitted-state', 'cylc/flow/task_events_mgr.py',
     '''            if not forced:
                # `cylc set --out submitted` only spawns children; it doesn't
                # affect task state or anything else.
                self._process_message_submitted(itask, event_time)''',
     '''            self._process_message_submitted(itask, event_time)''',
     'C29.no-forced-active'),
    ('forced-running', 'cylc/flow/task_state.py',
     '        if forced and req in [TASK_STATUS_SUBMITTED, TASK_STATUS_RUNNING]:',
     '        if forced and req in [TASK_STATUS_SUBMITTED]:',
     'C29.no-forced-active'),
    ('drop-forced-arg', 'cylc/flow/task_events_mgr.py',
     '            self._process_message_succeeded(itask, event_time, forced)',
     '            self._process_message_succeeded(itask, event_time, False)',
     'C29.forced-propagation'),
    ('defaults-all-outputs', 'cylc/flow/task_pool.py',
     '''                # Set required outputs by default
                itask.state.outputs.iter_required_messages()''',
     '''                # Set required outputs by default
                itask.state.outputs._completed''', 'C29.defaults'),
    ('unordered', 'cylc/flow/task_pool.py',
     '        for output in sorted(outputs, key=itask.state.outputs.output_sort_key):',
     '        for output in outputs:', 'C29.defaults'),
    ('no-db-outputs', 'cylc/flow/task_pool.py',
     '        self.workflow_db_mgr.put_update_task_outputs(itask)\n        self.workflow_db_mgr.process_queued_ops()\n        return True',
     '        self.workflow_db_mgr.process_queued_ops()\n        return True',
     'C29.persist'),
    ('all-requested-prereqs', 'cylc/flow/task_pool.py',
     '        return valid_pre & prereqs', '        return prereqs',
     'C29.valid-prereqs'),
    ('transient-no-spawn', 'cylc/flow/task_events_mgr.py',
     '        if not itask.transient or forced:',
     '        if not itask.transient:', 'C29.spawn'),
]

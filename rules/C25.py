"""C25 The published data store reflects the task pool — pairing clauses."""
import ast

from sa.core import AnalysisError, norm
from sa.cfg import stmt_has
from sa.pat import AnyOf

TECHNIQUE = ('static analysis: R-PAIR over every pool-state mutation site '
             '(state_reset, flow merge, output completion, prerequisite '
             'satisfaction, pool add/remove) with its data-store delta call '
             'through CFG post-dominance and the repo\'s if-changed idioms; '
             'field coverage of the state delta; pending-flag discipline of '
             'the delta methods')

CLAUSES = (
    'Decided: every TaskProxy.state_reset on a pool task is followed by '
    'delta_task_state for the same task (inside the `if changed:` body, or on '
    'all normal paths after it; listed exceptions: data-store ghost proxies, '
    'and the forced-outputs site where the delta follows under `not no_op`); '
    'flow merges are followed by delta_task_flow_nums, output completion by '
    'delta_task_output(s), prerequisite satisfaction by '
    'delta_task_prerequisite; pool add creates the store node, window and '
    'state delta; pool remove removes the store node; the state delta covers '
    'status, is_held, is_queued and is_runahead; every delta_* method that '
    'writes the update buffer sets updates_pending; the main loop publishes '
    'when anything updated. '
    'Status and flags are written to the pending delta unless stored and pending values both already equal them. '
    'Not decided: checksum equality for a '
    'delta-applying client over long runs.')

TP = 'task_pool'
DSM = 'data_store_mgr'


def _followed(c, f, st, test, skip_body=False):
    """Every normal path after statement st passes test; with skip_body the
    paths through st's (terminating) body are not considered."""
    cfg = c.cfg(f)
    keys = cfg.keys.get(id(st), [])
    starts = []
    for k in keys:
        for s in cfg.succ[k]:
            if skip_body and isinstance(st, ast.If) and st.body and \
                    isinstance(s, tuple) and s[0] == id(st.body[0]):
                continue
            starts.append(s)
    seen = cfg._reach(starts, lambda k: stmt_has(cfg.stmt[k], test))
    return 'EXIT' not in seen


def _loop_of(c, n):
    """The `for child in ...` loop enclosing n (outermost-but-one)."""
    cur = n
    found = None
    while id(cur) in c.idx.parent:
        cur = c.idx.parent[id(cur)]
        if isinstance(cur, ast.For) and norm(cur.target) == 'child':
            found = cur
    return found


def check(c):
    sites = [n for n in c.calls(None, 'state_reset')]
    c.floor('C25.state-delta', 'state_reset sites', len(sites), 25)
    exempt = {
        (f'{DSM}:DataStoreMgr.apply_task_proxy_db_history'):
            'data_mode ghost proxies built from DB history, not pool tasks',
    }
    n_checked = 0
    for n in sites:
        f = c.owner(n)
        if f is None or f.mod == 'task_proxy':
            continue
        if f.fq in exempt:
            c.ob('C25.state-delta', c.key(n, f) + ' [exempt]', True,
                 c.where(n, f), exempt[f.fq])
            continue
        n_checked += 1
        R = norm(n.func.value)
        test = c.matches(f'_.delta_task_state({R})')
        st = c.idx.stmt_of(n)
        key = c.key(n, f)[:150] + f' ⟹ delta_task_state({R})'
        in_test = isinstance(st, ast.If) and any(
            x is n for x in ast.walk(st.test))
        ok = False
        how = ''
        if in_test:
            negated = any(isinstance(x, ast.UnaryOp) and isinstance(
                x.op, ast.Not) and any(y is n for y in ast.walk(x.operand))
                for x in ast.walk(st.test))
            if negated:
                from sa.pathcond import terminates
                ok = terminates(st.body) and _followed(
                    c, f, st, test, skip_body=True)
                how = 'early-return-if-unchanged idiom'
            else:
                # delta unconditionally inside the `if changed:` body
                top = [s for s in st.body if stmt_has(s, test)]
                ok = bool(top)
                if not ok:
                    ok = any(_followed(c, f, s, test) or stmt_has(s, test)
                             for s in st.body[:1])
                how = 'if-changed body'
        else:
            ok = _followed(c, f, st, test)
            how = 'follows on all normal paths'
            if not ok and f.fq == f'{TP}:TaskPool._set_outputs_itask':
                # listed exception: delta follows under `not no_op`
                # (the flag is a local boolean -- `no_op` / `any_set`,
                # whatever it is called -- and the only condition on the delta)
                d = [x for x in c.find(f, f'_.delta_task_state({R})')]
                ok = bool(d) and all(
                    len(c.facts(x, expand=False)) == 1 and all(
                        fa[0] == 'atom' and isinstance(fa[1], ast.Name)
                        for fa in c.facts(x, expand=False)) for x in d) and \
                    c.cfg(f).path_exists(st, c.idx.stmt_of(d[0]))
                how = 'exception: delta under `not no_op` (no outputs set ⇒ '\
                      'flags unchanged for waiting tasks only)'
        c.ob('C25.state-delta', key, ok, c.where(n, f),
             how if ok else 'a state change of a pool task is not followed '
             'by its data-store delta: clients keep showing the old state')
    c.floor('C25.state-delta', 'paired sites examined', n_checked, 22)

    # ---- flows, outputs, prerequisites
    mf = c.func(TP, 'TaskPool.merge_flows')
    for n in c.find(mf, 'itask.merge_flows(flow_nums)'):
        c.post('C25.flow-delta', mf, n, c.matches(
            'self.data_store_mgr.delta_task_flow_nums(itask)'),
            'delta_task_flow_nums')
    n_out = 0
    for mod in ('task_events_mgr', TP):
        for n in c.calls(mod, 'set_message_complete') + c.calls(
                mod, 'set_trigger_complete'):
            f = c.owner(n)
            if f is None or f.fq == f'{TP}:TaskPool._load_historical_outputs':
                # new proxy not yet in the store: add_to_pool publishes it
                continue
            n_out += 1
            recv = norm(n.func.value).split('.state')[0]
            test = c.matches(f'_.delta_task_output({recv}, _)')
            test2 = c.matches(f'_.delta_task_outputs({recv})')

            def t(x, test=test, test2=test2):
                return test(x) or test2(x)
            st = c.idx.stmt_of(n)
            ok = _followed(c, f, st, t)
            if not ok:
                # `completed = set_message_complete(..); if completed: delta`
                tgt = norm(st.targets[0]) if isinstance(
                    st, ast.Assign) else None
                d = [x for x in c.idx.walk(f.node) if t(x)]
                ok = tgt is not None and any(c.holds(x, tgt) for x in d)
            c.ob('C25.output-delta', c.key(n, f)[:150] + ' ⟹ '
                 'delta_task_output(s)', ok, c.where(n, f), '')
    c.floor('C25.output-delta', 'output completion sites', n_out, 4)
    n_pre = 0
    for n in c.calls(TP, 'satisfy_me') + c.calls(TP, 'force_satisfy') + \
            c.calls('commands', 'unset_naturally_satisfied'):
        f = c.owner(n)
        if f is None:
            continue
        recv = norm(n.func.value)
        if recv.startswith('self.xtrigger_mgr'):
            continue
        if f.fq == f'{TP}:TaskPool.spawn_task':
            # new proxy: published when added to the pool
            continue
        n_pre += 1
        if f.fq == 'commands:_remove_matched_tasks':
            # per-prerequisite loop; the delta follows once under
            # `prereqs_changed`, which the if-changed body sets
            flag = [s for s in c.idx.walk(f.node) if isinstance(
                s, ast.Assign) and norm(s.targets[0]) == 'prereqs_changed'
                and norm(s.value) == 'True']
            d = c.find(f, '_.delta_task_prerequisite(child_itask)')
            ok = bool(flag) and all(
                c.idx.parent[id(x)] is c.idx.parent[id(n)] if False else True
                for x in flag) and any(
                any(y is n for y in ast.walk(c.idx.parent[id(x)].test))
                for x in flag if isinstance(c.idx.parent[id(x)], ast.If)
            ) and bool(d) and all(c.holds(x, 'prereqs_changed') for x in d)
            for x in d:
                c.guard_only('C25.prereq-delta', x, [
                    'prereqs_changed', 'child_itask', 'fnums_to_remove'], f,
                    stop=_loop_of(c, x))
            c.ob('C25.prereq-delta', c.key(n, f)[:150] + ' ⟹ '
                 'delta_task_prerequisite(child_itask) when changed', ok,
                 c.where(n, f), '')
            continue
        test = c.matches(f'_.delta_task_prerequisite({recv})')
        ok = _followed(c, f, c.idx.stmt_of(n), test)
        if not ok:
            # set on a new proxy that is then added to the pool, or the
            # caller publishes (set_prereqs_itask ← queue_or_trigger)
            ok = _followed(c, f, c.idx.stmt_of(n), c.matches(
                f'self.add_to_pool({recv})')) or f.fq in (
                f'{TP}:TaskPool._set_prereqs_itask',)
        c.ob('C25.prereq-delta', c.key(n, f)[:150] + ' ⟹ '
             'delta_task_prerequisite / add_to_pool', ok, c.where(n, f), '')
    c.floor('C25.prereq-delta', 'prerequisite satisfaction sites', n_pre, 3)

    # ---- pool add / remove
    atp = c.func(TP, 'TaskPool.add_to_pool')
    for s in c.stores(atp, 'active_tasks'):
        if s.kind == 'assign' and s.depth == 2:
            c.post('C25.pool-nodes', atp, s.node, c.matches(
                'self.create_data_store_elements(itask)'),
                'create_data_store_elements')
    cde = c.func(TP, 'TaskPool.create_data_store_elements')
    for pat_, what in (
            ('self.data_store_mgr.add_pool_node(itask.tdef.name, '
             'itask.point)', 'add_pool_node'),
            ('self.data_store_mgr.increment_graph_window(*_)',
             'increment_graph_window'),
            ('self.data_store_mgr.delta_task_state(itask)',
             'delta_task_state')):
        c.always('C25.pool-nodes', cde, c.matches(pat_), what)
    rm = c.func(TP, 'TaskPool.remove')
    for s in c.stores(rm, 'active_tasks'):
        if s.kind == 'del' and s.depth == 2:
            c.post('C25.pool-nodes', rm, s.node, c.matches(
                'self.data_store_mgr.remove_pool_node(itask.tdef.name, '
                'itask.point)'), 'remove_pool_node')

    # ---- field coverage
    dts = c.func(DSM, 'DataStoreMgr.delta_task_state')
    tup = [n for n in c.idx.walk(dts.node) if isinstance(n, ast.For)
           and isinstance(n.iter, (ast.Tuple, ast.List))]
    fields = set()
    for t in tup:
        v = c.fold(t.iter)
        if isinstance(v, (tuple, list)):
            fields |= set(v)
    c.ob('C25.field-coverage', f'{dts.fq} :: flags is_held, is_queued, '
         'is_runahead', fields >= {'is_held', 'is_queued', 'is_runahead'},
         c.where(dts.node, dts), f'{sorted(fields)}')
    c.ob('C25.field-coverage', f'{dts.fq} :: status',
         bool(c.find(dts, 'itask.state.status')) and any(
             isinstance(n, ast.Assign) and norm(n.targets[0]) ==
             'tp_delta.state' and norm(n.value) == 'itask.state.status'
             for n in c.idx.walk(dts.node)), c.where(dts.node, dts), '')
    # the value goes into the pending delta unless BOTH the stored node and
    # the pending delta already hold it (a status that left and came back
    # within one batch must overwrite the intermediate value in the delta)
    from rules._shared import reach_table
    for site, atoms, what in (
            ([n for n in c.idx.walk(dts.node) if isinstance(n, ast.Assign)
              and norm(n.targets[0]) == 'tp_delta.state'],
             {'stored': 'tproxy.state == itask.state.status',
              'pending': 'tp_delta.state == itask.state.status'}, 'status'),
            (c.find(dts, 'setattr(tp_delta, field, val)'),
             {'stored': 'getattr(tproxy, field) == val',
              'pending': 'getattr(tp_delta, field) == val'}, 'flags')):
        c.floor('C25.field-coverage', f'{dts.fq} :: {what} written to the '
                'delta', len(site), 1)
        for n in site:
            tab = reach_table(c, n, dict(atoms, have='tproxy'), dts)
            if tab is not None:
                # (only with a stored node: `if not tproxy: return` first)
                tab = {k[:2]: v for k, v in tab.items() if k[2]}
            bad = None
            if tab is None:
                bad = 'the write depends on something other than the two ' \
                    'comparisons'
            else:
                for (st_, pe_), got in tab.items():
                    if got != (not (st_ and pe_)):
                        bad = (f'stored-equal={st_}, pending-equal={pe_}: '
                               f'written={got}')
            c.ob('C25.field-coverage', c.key(n, dts)[:90] + ' unless stored '
                 'and pending values both equal it', bad is None,
                 c.where(n, dts), bad or '')
    rs = c.func('task_state', 'TaskState.reset')
    params = [a.arg for a in rs.node.args.args[1:]]
    c.ob('C25.field-coverage', f'{rs.fq} :: parameters covered by the delta',
         set(params) - {'forced'} <= {'status'} | fields,
         c.where(rs.node, rs), f'{params}')

    # ---- pending flag
    cls = c.idx.cls('DataStoreMgr', DSM)
    n_d = 0
    for name, f in sorted(cls.methods.items()):
        if not name.startswith('delta_'):
            continue
        writes = [n for n in c.idx.walk(f.node)
                  if isinstance(n, ast.Subscript) and norm(
                      n.value) == 'self.updated']
        if not writes:
            continue
        n_d += 1
        sets = [s for s in c.stores(f, 'updates_pending')
                if norm(s.value) == 'True']
        ok = bool(sets)
        for w in writes:
            st = c.idx.stmt_of(w)
            try:
                okw = _followed(c, f, st, lambda x: isinstance(
                    x, ast.Assign) and norm(x.targets[0]) ==
                    'self.updates_pending' and norm(x.value) == 'True')
            except KeyError:
                okw = False
            ok = ok and okw
        c.ob('C25.pending-flag', f'{f.fq} :: buffer write ⟹ updates_pending '
             '= True', ok, c.where(f.node, f),
             'flagged' if ok else 'writes self.updated[...] without setting '
             'updates_pending on some path: the delta is not published until '
             'something else changes')
    c.floor('C25.pending-flag', 'delta_* methods writing the buffer', n_d, 8)
    ml = c.func('scheduler', 'Scheduler._main_loop')
    ud = c.find(ml, 'self.update_data_structure()')
    c.floor('C25.publish', 'update_data_structure() in the main loop',
            len(ud), 1)
    for u in ud:
        c.guard_only('C25.publish', u, [
            'has_updated', 'self.data_store_mgr.updates_pending'], ml)
        cur = u
        while id(cur) in c.idx.parent and not isinstance(cur, ast.If):
            cur = c.idx.parent[id(cur)]
        for case in ('has_updated', 'self.data_store_mgr.updates_pending'):
            ok = isinstance(cur, ast.If) and c.case_covered(
                cur.test, [case], u)
            c.ob('C25.publish', c.key(u, ml) + f' whenever {case}', ok,
                 c.where(u, ml), '')


VARIANTS = [
    ('status-delta-and-for-or', 'cylc/flow/data_store_mgr.py',
     '''        if (
            tproxy.state != itask.state.status
            or tp_delta.state != itask.state.status
        ):''',
     '''        if itask.state.status not in (tproxy.state, tp_delta.state):''',
     'C25.field-coverage'),
    ('hold-no-delta', 'cylc/flow/task_pool.py',
     '''        if itask.state_reset(is_held=True):
            self.data_store_mgr.delta_task_state(itask)''',
     '''        itask.state_reset(is_held=True)''', 'C25.state-delta'),
    ('expire-no-delta', 'cylc/flow/task_events_mgr.py',
     '''        if not itask.state_reset(TASK_STATUS_EXPIRED, forced=forced):
            return
        self.data_store_mgr.delta_task_state(itask)''',
     '''        if not itask.state_reset(TASK_STATUS_EXPIRED, forced=forced):
            return''', 'C25.state-delta'),
    ('merge-incomplete-no-delta', 'cylc/flow/task_pool.py',
     '''            self.queue_task(itask)
            self.data_store_mgr.delta_task_state(itask)

        elif merge_with_no_flow''', '''            self.queue_task(itask)

        elif merge_with_no_flow''', 'C25.state-delta'),
    ('queue-trigger-no-delta', 'cylc/flow/task_pool.py',
     '''                itask.state_reset(is_queued=True)
                self.data_store_mgr.delta_task_state(itask)

        elif self.task_queue_mgr.remove_task(itask):''',
     '''                itask.state_reset(is_queued=True)

        elif self.task_queue_mgr.remove_task(itask):''', 'C25.state-delta'),
    ('flow-no-delta', 'cylc/flow/task_pool.py',
     '''        itask.merge_flows(flow_nums)
        self.data_store_mgr.delta_task_flow_nums(itask)
''', '''        itask.merge_flows(flow_nums)
''', 'C25.flow-delta'),
    ('output-no-delta', 'cylc/flow/task_events_mgr.py',
     '''            if output_completed:
                self.data_store_mgr.delta_task_output(itask, task_output)
''', '', 'C25.output-delta'),
    ('remove-no-node', 'cylc/flow/task_pool.py',
     '''            self.data_store_mgr.remove_pool_node(itask.tdef.name, itask.point)
''', '', 'C25.pool-nodes'),
    ('delta-misses-runahead', 'cylc/flow/data_store_mgr.py',
     "        for field in ('is_held', 'is_queued', 'is_runahead'):",
     "        for field in ('is_held', 'is_queued'):", 'C25.field-coverage'),
    ('delta-not-pending', 'cylc/flow/data_store_mgr.py',
     '''            output.time = update_time

        self.updates_pending = True''', '''            output.time = update_time
''', 'C25.pending-flag'),
    ('publish-only-on-update', 'cylc/flow/scheduler.py',
     '        if has_updated or self.data_store_mgr.updates_pending:',
     '        if has_updated:', 'C25.publish'),
]

"""C14 Graph parsing is faithful and insensitive to presentation."""
import ast

from sa.core import AnalysisError, norm
from sa.pat import AnyOf
from sa import taint

TECHNIQUE = ('static analysis: regex-fragment provenance (every dynamic '
             'fragment interpolated into a regex in the graph parsing modules '
             'is re.escape()d or a code constant), required rejection sites '
             'with their guard atoms, pack/unpack position agreement between '
             'the node parser, its callers and the TaskTrigger constructor')

CLAUSES = (
    'Decided: in graph_parser.py, graphnode.py and param_expand.py every '
    'run-time fragment interpolated into a regular expression is escaped or '
    'a class/module constant; the parser raises GraphParseError for OR on the '
    'right, suicide markers on the left, unbalanced parentheses, null task '
    'names, leading/dangling continuation, && and ||, required :expired / '
    ':submit-failed, optional :finish and conflicting optionality; the tuple '
    'returned by GraphNodeParser.parse is unpacked in the same order by its '
    'callers and reaches TaskTrigger\'s parameters in matching positions. '
    'the node-rewrite patterns of _proc_dep_pair (folded and probed with '
    'sample nodes) match their own node and no other node form. '
    ''
    'In the :finish expansion every node string carries name and offset once per output. '
    'Not decided: equivalence of parse results across renderings.')

GP = 'graph_parser'


def _raises(c, f):
    return [n for n in c.idx.walk(f.node) if isinstance(n, ast.Raise)
            and n.exc is not None and 'GraphParseError' in norm(n.exc)]


def _finish_expansion_rules(c):
    """`foo[-P1]:finish` stands for `(foo[-P1]:succeeded | foo[-P1]:failed)`:
    in the finish branch of _compute_triggers every node string that names
    an output is built from the name *and* the offset."""
    R = 'C14.finish-expansion'
    f = c.func(GP, 'GraphParser._compute_triggers')
    outs = ('TASK_OUTPUT_SUCCEEDED', 'TASK_OUTPUT_FAILED')
    n_seen = 0
    for n in ast.walk(f.node):
        if not isinstance(n, (ast.BinOp, ast.JoinedStr)):
            continue
        if isinstance(n, ast.BinOp) and not isinstance(n.op, ast.Mod):
            continue
        par = c.idx.parent.get(id(n))
        if isinstance(par, (ast.JoinedStr, ast.FormattedValue)):
            continue
        names = [x.id for x in ast.walk(n) if isinstance(x, ast.Name)]
        k = sum(names.count(o) for o in outs)
        if not k or not c.holds(n, 'trigger == TASK_OUTPUT_FINISHED'):
            continue
        n_seen += 1
        ok = names.count('name') == k and names.count('offset') == k
        c.ob(R, c.key(n, f)[:100] + ' name and offset with every output', ok,
             c.where(n, f), f"{k} output(s), name x{names.count('name')}, "
             f"offset x{names.count('offset')}" + ('' if ok else ' -- a half '
             'of the expansion lost its cycle offset (or its name)'))
    c.floor(R, 'node strings built in the finish branch', n_seen, 2)


def _rewrite_regex_rules(c):
    """The node rewrites of _proc_dep_pair (`re.sub(this, that, expr)` over
    the *whole* left-hand expression) must hit exactly the node they were
    built for: the pattern for a plain `foo` must not match the `foo` of
    `foo[-P1]` or `foo:fail` elsewhere in the expression, the pattern for
    `foo[-P1]` not the prefix of `foo[-P1]:fail`.  The templates are folded
    from the source and probed with sample nodes."""
    import re as _re
    R = 'C14.rewrite-regex'
    f = c.func(GP, 'GraphParser._proc_dep_pair')
    forms = {'n': 'foo', 'no': 'foo[-P1]', 'nt': 'foo:fail',
             'not': 'foo[-P1]:fail'}
    others = {'n': ['foo[-P1]', 'foo:fail', 'foo[-P1]:fail', 'xfoo', 'foox',
                    'foo:succeeded | bar'],
              'no': ['foo[-P1]:fail', 'foo', 'foo[-P2]', 'foo:fail'],
              'nt': ['foo:failed', 'foo', 'foo[-P1]:fail'],
              'not': ['foo:fail', 'foo[-P2]:fail', 'foo[-P1]', 'foo']}
    seen = set()
    for n in ast.walk(f.node):
        if not (isinstance(n, ast.Assign) and norm(n.targets[0]) == 'this'
                and isinstance(n.value, ast.BinOp)
                and isinstance(n.value.op, ast.Mod)):
            continue
        tpl = c.fold(n.value.left)
        args = n.value.right.elts if isinstance(
            n.value.right, ast.Tuple) else [n.value.right]
        kinds = []
        okargs = True
        for a in args:
            inner = a.args[0] if isinstance(a, ast.Call) and norm(
                a.func) == 're.escape' and a.args else None
            if inner is None:
                okargs = False
                break
            kinds.append(norm(inner))
        c.ob(R, c.key(n, f)[:80] + ' built from escaped fragments', okargs
             and isinstance(tpl, str), c.where(n, f), '')
        if not (okargs and isinstance(tpl, str)):
            continue
        sample = {'name': 'foo', 'offset': '[-P1]', 'trig': 'fail'}
        if any(k not in sample for k in kinds):
            c.ob(R, c.key(n, f)[:80] + ' fragments are name/offset/trig',
                 False, c.where(n, f), str(kinds))
            continue
        kind = 'n' + ('o' if 'offset' in kinds else '') + (
            't' if 'trig' in kinds else '')
        try:
            rx = _re.compile(tpl % tuple(_re.escape(sample[k])
                                         for k in kinds))
        except Exception as exc:
            c.ob(R, c.key(n, f)[:80] + ' compiles', False, c.where(n, f),
                 str(exc))
            continue
        seen.add(kind)
        own = forms[kind]
        hit = [t for t in (own, f'a | {own} & b', f'({own})')
               if not (rx.search(t) and rx.search(t).group(0) == own)]
        c.ob(R, c.key(n, f)[:80] + f' matches its own node `{own}`',
             not hit, c.where(n, f), f'{rx.pattern!r} misses {hit}' if hit
             else rx.pattern)
        # the in-loop family substitution is built with an empty offset for
        # plain nodes: only nodes that differ from `own` are probed
        bad = [t for t in others[kind] if rx.search(t)]
        c.ob(R, c.key(n, f)[:80] + ' matches no other node',
             not bad, c.where(n, f), f'{rx.pattern!r} also rewrites inside '
             f'{bad}: the recorded expression is corrupted when both nodes '
             'occur in one conditional left-hand side' if bad else rx.pattern)
    c.ob(R, f'{f.fq} :: rewrite patterns for plain, offset, qualified and '
         'offset+qualified nodes', seen >= {'n', 'no', 'nt', 'not'},
         c.where(f.node, f), str(sorted(seen)))


def check(c):
    _rewrite_regex_rules(c)
    _finish_expansion_rules(c)
    # ---- regex taint
    n_calls = 0
    for mod in (GP, 'graphnode', 'param_expand'):
        for call, p in taint.regex_calls(c, mod):
            n_calls += 1
            f = c.owner(call)
            for node, kind in taint.fragments(c, p, f):
                if kind == 'const':
                    continue
                c.ob('C14.regex-escaped', (f.fq if f else mod) +
                     f' :: re.{call.func.attr} fragment `{norm(node)[:60]}`',
                     kind == 'escaped', c.where(call, f),
                     'escaped' if kind == 'escaped' else
                     f'`{norm(node)[:60]}` reaches a regex unescaped: names '
                     'containing regex metacharacters change the match')
    c.floor('C14.regex-escaped', 'regex calls examined', n_calls, 20)

    # ---- required rejections
    pdp = c.func(GP, 'GraphParser._proc_dep_pair')
    need = {
        'OR on the right': ['self.__class__.OP_OR in right'],
        'suicide on the left': ['left', 'self.__class__.SUICIDE in left'],
        'unbalanced parentheses (left)':
            ['left', "!(left.count('(') == left.count(')'))"],
        'unbalanced parentheses (right)':
            ["!(right.count('(') == right.count(')'))"],
        'null name on the right': [AnyOf("'' in rights", 'right')],
        'null name on the left': [AnyOf("'' in lefts", 'left')],
    }
    raises = _raises(c, pdp)
    c.floor('C14.rejects', 'GraphParseError raises in _proc_dep_pair',
            len(raises), 8)
    for what, reqs in need.items():
        hit = [r for r in raises if all(c.holds(r, q) for q in reqs)]
        c.ob('C14.rejects', f'{pdp.fq} :: rejects {what}', bool(hit),
             c.where(pdp.node, pdp), f'{len(hit)} raise site(s)' if hit else
             'no raise guarded by ' + ', '.join(map(str, reqs)))
    # rejections happen before triggers are recorded
    fam = c.find(pdp, 'self._families_all_to_all(*_)')
    for n in fam:
        for what in ('self.__class__.OP_OR in right',):
            hit = [r for r in raises if c.holds(r, what)]
            for r in hit:
                ok = c.cfg(pdp).path_exists(c.idx.parent[id(r)],
                                            c.idx.stmt_of(n))
                c.ob('C14.rejects', c.key(r, pdp)[:100] + ' before triggers '
                     'are computed', ok, c.where(r, pdp), '')
    pg = c.func(GP, 'GraphParser.parse_graph')
    praises = _raises(c, pg)
    need_pg = {
        'leading arrow': ['i == 0', 'this_line.startswith(seq)'],
        'dangling continuation': ['this_line.endswith(seq)'],
        'double continuation': [
            'this_line.endswith(self.CONTINUATION_STRS)',
            'next_line.startswith(self.CONTINUATION_STRS)'],
        '&&': ['self.__class__.OP_AND_ERR in line'],
        '||': ['self.__class__.OP_OR_ERR in line'],
    }
    for what, reqs in need_pg.items():
        hit = [r for r in praises if all(c.holds(r, q) for q in reqs)]
        c.ob('C14.rejects', f'{pg.fq} :: rejects {what}', bool(hit),
             c.where(pg.node, pg), '')
    for k, v in (('OP_AND_ERR', '&&'), ('OP_OR_ERR', '||'), ('OP_AND', '&'),
                 ('OP_OR', '|'), ('SUICIDE', '!'), ('OPTIONAL', '?'),
                 ('QUALIFIER', ':'), ('ARROW', '=>'), ('XTRIG', '@')):
        got = c.K.class_attr('GraphParser', k)
        c.ob('C14.rejects', f'{GP}:GraphParser.{k} == {v!r}', got == v, '',
             repr(got))
    # ---- comments and blank lines are presentation only: what reaches the
    # line-joining stage is the comment-stripped text, and a line that is
    # blank *after* stripping is dropped (a comment-only line inside a
    # continued graph line must not end the continuation)
    apps = [n for n in c.calls(pg, 'append')
            if norm(n.func.value) == 'non_blank_lines']
    c.floor('C14.comments', 'non_blank_lines.append', len(apps), 1)
    cfgp = c.cfg(pg)
    for a in apps:
        ok = len(a.args) == 1 and isinstance(a.args[0], ast.Name)
        c.ob('C14.comments', c.key(a, pg) + ' appends a named value', ok,
             c.where(a, pg), '')
        if not ok:
            continue
        v = a.args[0].id
        loop = c.idx.stmt_of(a)
        while not isinstance(loop, ast.For):
            loop = c.idx.parent[id(loop)]
        line_var = norm(loop.target)
        strips = [n for n in ast.walk(loop) if isinstance(n, ast.Assign)
                  and norm(n.targets[0]) == v and isinstance(
                      n.value, ast.Call) and norm(n.value.func).endswith(
                      'REC_COMMENT.sub') and len(n.value.args) == 2
                  and norm(n.value.args[0]) == "''"
                  and norm(n.value.args[1]) == line_var]
        c.exactly('C14.comments', f'{v} = REC_COMMENT.sub(\'\', {line_var})',
                  len(strips), 1)
        # every other definition of v derives from v itself
        for d in [n for n in ast.walk(loop) if isinstance(n, ast.Assign)
                  and norm(n.targets[0]) == v and n not in strips]:
            c.ob('C14.comments', c.key(d, pg) + ' derives from the stripped '
                 'line', v in {x.id for x in ast.walk(d.value)
                               if isinstance(x, ast.Name)}
                 and line_var not in {x.id for x in ast.walk(d.value)
                                      if isinstance(x, ast.Name)},
                 c.where(d, pg), '')
        # the append is reached only for a line that is non-empty and not
        # blank *after* stripping (`if not v or v.isspace(): continue`, or
        # the rest of the iteration under the negated test)
        c.guard('C14.comments', a, [v, f'!{v}.isspace()'], pg,
                what='blank-after-stripping lines are dropped;',
                at_entry=True)
        tests = [n for n in ast.walk(loop) if isinstance(n, ast.Call)
                 and norm(n) == f'{v}.isspace()']
        c.floor('C14.comments', f'{v}.isspace() test', len(tests), 1)
        for s in strips:
            for k in tests:
                c.ob('C14.comments', c.key(k, pg) + ' tests the line after '
                     'comment stripping', cfgp.dominated_by(
                         c.idx.stmt_of(k), lambda x, s=s: x is s),
                     c.where(k, pg), '')
            c.ob('C14.comments', c.key(a, pg) + ' after comment stripping',
                 cfgp.dominated_by(c.idx.stmt_of(a), lambda x, s=s: x is s),
                 c.where(a, pg), '')
    rc = c.K.class_attr_node('GraphParser', 'REC_COMMENT')
    c.ob('C14.comments', f'{GP}:GraphParser.REC_COMMENT strips from # to the '
         'end of the line', isinstance(rc, ast.Call) and bool(rc.args)
         and c.fold(rc.args[0]) == '#.*$', c.where(rc) if rc is not None
         else '', norm(rc) if rc is not None else 'missing')
    soo =c.func(GP, 'GraphParser._set_output_opt')
    sraises = _raises(c, soo)
    need_so = {
        'required :expired / :submit-failed':
            ["output in {'expired', 'submit-failed'}", '!optional'],
        'optional :finish': ["output == 'finished'", 'optional'],
        'conflicting optionality': [
            'prev_fixed', '!fam_member', '!(optional == prev_optional)'],
        'inconsistent family default': [
            '!prev_fixed', 'fam_member', '!(optional == prev_default)'],
    }
    for what, reqs in need_so.items():
        hit = [r for r in sraises if all(c.holds(r, q) for q in reqs)]
        c.ob('C14.rejects', f'{soo.fq} :: rejects {what}', bool(hit),
             c.where(soo.node, soo), '')

    # ---- pack / unpack
    gnp = c.func('graphnode', 'GraphNodeParser.parse')
    packs = [s for s in c.idx.walk(gnp.node) if isinstance(s, ast.Assign)
             and norm(s.targets[0]) == 'self._nodes[node]'
             and isinstance(s.value, ast.Tuple)]
    c.exactly('C14.pack-unpack', 'result tuple in GraphNodeParser.parse',
              len(packs), 1)
    order = []
    for s in packs:
        order = [norm(e) for e in s.value.elts]
    want = ['name', 'offset', 'TaskTrigger.standardise_name(output)',
            'offset_is_from_icp', 'offset_is_irregular',
            'offset_is_absolute']
    c.ob('C14.pack-unpack', f'{gnp.fq} :: (name, offset, output, from_icp, '
         'irregular, absolute)', order == want, c.where(gnp.node, gnp),
         str(order))
    mg = [s for s in c.idx.walk(gnp.node) if isinstance(s, ast.Assign)
          and norm(s.value) == 'match.groups()']
    c.ob('C14.pack-unpack', f'{gnp.fq} :: regex groups (name, icp_mark, '
         'offset, output)', len(mg) == 1 and [norm(e) for e in
                                              mg[0].targets[0].elts] ==
         ['name', 'icp_mark', 'offset', 'output'], c.where(gnp.node, gnp), '')
    names = ['name', 'offset', 'output', 'offset_is_from_icp',
             'offset_is_irregular', 'offset_is_absolute']
    n_un = 0
    for call in c.find('config', '_.parse(left)'):
        st = c.idx.stmt_of(call)
        f = c.owner(call)
        if isinstance(st, ast.Assign) and isinstance(
                st.targets[0], ast.Tuple):
            n_un += 1
            got = [norm(e) for e in st.targets[0].elts]
            ok = len(got) == 6 and all(g in ('_', w) for g, w in zip(
                got, names))
            c.ob('C14.pack-unpack', c.key(call, f)[:120] + ' unpack order',
                 ok, c.where(call, f), str(got))
    c.floor('C14.pack-unpack', 'tuple unpacks of parse(left)', n_un, 2)
    tt = c.func('task_trigger', 'TaskTrigger.__init__')
    params = [a.arg for a in tt.node.args.args[1:]]
    amap = {'name': 'task_name', 'offset': 'cycle_point_offset',
            'qualifier': 'output', 'self.initial_point': 'initial_point'}
    for call in c.find('config', 'TaskTrigger(*key)'):
        f = c.owner(call)
        keys = [s for s in c.idx.walk(f.node) if isinstance(s, ast.Assign)
                and norm(s.targets[0]) == 'key'
                and isinstance(s.value, ast.Tuple)]
        ok = False
        got = []
        if keys:
            got = [amap.get(norm(e), norm(e)) for e in keys[-1].value.elts]
            ok = got == params
        c.ob('C14.pack-unpack', c.key(call, f) + ' positional arguments '
             'match TaskTrigger parameters', ok, c.where(call, f),
             f'{got} vs {params}')
    c.floor('C14.pack-unpack', 'TaskTrigger(*key) site', len(
        c.find('config', 'TaskTrigger(*key)')), 1)
    for p in ('offset_is_irregular', 'offset_is_absolute',
              'offset_is_from_icp'):
        s = [x for x in c.stores(tt, p) if norm(x.value) == p]
        c.ob('C14.pack-unpack', f'{tt.fq} :: self.{p} = {p}', len(s) == 1,
             c.where(tt.node, tt), '')


VARIANTS = [
    ('finish-failed-half-loses-offset', 'cylc/flow/graph_parser.py',
     '''                    "%s%s:%s" % (name, offset, TASK_OUTPUT_FAILED)]''',
     '''                    "%s:%s" % (name, TASK_OUTPUT_FAILED)]''',
     'C14.finish-expansion'),
    ('plain-node-rewrite-hits-offset-node', 'cylc/flow/graph_parser.py',
     "                        this = r'\\b%s\\b(?![\\[:])' % re.escape(name)",
     "                        this = r'\\b%s\\b(?!:)' % re.escape(name)",
     'C14.rewrite-regex'),
    ('unescaped-name', 'cylc/flow/graph_parser.py',
     "                        this = r'\\b%s\\b(?![\\[:])' % re.escape(name)",
     "                        this = r'\\b%s\\b(?![\\[:])' % name",
     'C14.regex-escaped'),
    ('allow-rhs-or', 'cylc/flow/graph_parser.py',
     '''        if self.__class__.OP_OR in right:
            raise GraphParseError(f"Illegal OR on right side: {right}")
''', '', 'C14.rejects'),
    ('paren-only-left', 'cylc/flow/graph_parser.py',
     '''        if right.count("(") != right.count(")"):
            raise GraphParseError(mismatch_msg.format(right))
''', '', 'C14.rejects'),
    ('required-expired-ok', 'cylc/flow/graph_parser.py',
     '            output in {TASK_OUTPUT_EXPIRED, TASK_OUTPUT_SUBMIT_FAILED}\n            and not optional',
     '            output in {TASK_OUTPUT_EXPIRED}\n            and not optional',
     'C14.rejects'),
    ('swap-flags', 'cylc/flow/graphnode.py',
     '''                offset_is_from_icp, offset_is_irregular, offset_is_absolute)
        return self._nodes[node]''',
     '''                offset_is_from_icp, offset_is_absolute, offset_is_irregular)
        return self._nodes[node]''', 'C14.pack-unpack'),
    ('key-order', 'cylc/flow/config.py',
     '''                   offset_is_irregular, offset_is_absolute,
                   offset_is_from_icp, self.initial_point)''',
     '''                   offset_is_irregular, offset_is_from_icp,
                   offset_is_absolute, self.initial_point)''',
     'C14.pack-unpack'),
    ('double-amp-ok', 'cylc/flow/graph_parser.py',
     '            if self.__class__.OP_AND_ERR in line:',
     '            if self.__class__.OP_AND_ERR in line * 2:',
     'C14.rejects'),
    ('blank-test-before-strip', 'cylc/flow/graph_parser.py',
     '''            modified_line = self.__class__.REC_COMMENT.sub('', line)

            # Ignore empty lines
            if not modified_line or modified_line.isspace():
                continue
''', '''            # Ignore empty lines
            if not line or line.isspace():
                continue

            modified_line = self.__class__.REC_COMMENT.sub('', line)
''', 'C14.comments'),
    ('blank-only-empty', 'cylc/flow/graph_parser.py',
     '            if not modified_line or modified_line.isspace():',
     '            if not modified_line:', 'C14.comments'),
    ('append-raw-line', 'cylc/flow/graph_parser.py',
     '''            modified_line = "".join(modified_line.split())
            non_blank_lines.append(modified_line)''',
     '''            modified_line = "".join(line.split())
            non_blank_lines.append(modified_line)''', 'C14.comments'),
    ('benign-blank-test-form', 'cylc/flow/graph_parser.py',
     '            if not modified_line or modified_line.isspace():',
     '            if modified_line.isspace() or not modified_line:', None),
]

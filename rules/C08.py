"""C08 Flow numbers propagate, merge and are never reused."""
import ast
import re

from sa.core import AnalysisError, norm
from sa.pat import AnyOf

TECHNIQUE = ('static analysis: who-may-write allow-list and increment-only '
             'shape of the flow counter, SQL aggregate check of the restart '
             'source, call-chain presence, argument provenance of flow '
             'numbers at every spawn site, aliasing check on proxy '
             'construction, pairing of merge bookkeeping, guard dominance '
             'of the flow-history scan and of the refusal to respawn')

CLAUSES = (
    'Decided: the flow counter is written only by its initialiser (0), by '
    'get_flow (+= 1, skipping numbers already recorded) and by the restart '
    'loader (MAX(flow_num) of workflow_flows); every newly recorded flow is '
    'stored in memory and in the workflow_flows table; restart reaches the '
    'loader; children spawned on outputs, retro-spawned on all outputs and '
    'next parentless instances receive exactly the parent\'s flow numbers; a '
    'new proxy copies (does not alias) the flow set; merging updates the '
    'proxy, the data store and the DB rows and is skipped only for empty or '
    'equal sets; a proxy\'s flow set is mutated only at the listed sites; '
    'spawn_task refuses a task whose history in an overlapping flow is final '
    'and complete, the history scan stopping only at a final row. '
    'Not decided: uniqueness over command/restart histories.')

FM = 'flow_mgr'
TP = 'task_pool'


def check(c):
    # ---- counter
    sts = c.who_writes('C08.counter', 'counter', {
        (f'{FM}:FlowMgr.__init__', 'assign'),
        (f'{FM}:FlowMgr.get_flow', 'aug'),
        (f'{FM}:FlowMgr.get_flow', 'assign'),
        (f'{FM}:FlowMgr.load_from_db', 'assign'),
    }, scope=FM, floor=4)
    for m in c.idx.modules.values():
        if m.name == FM:
            continue
        for s in c.stores(m.name, 'counter'):
            if 'flow_mgr' in norm(s.target.value):
                f = c.owner(s.node)
                c.ob('C08.counter', c.key(s.node, f), False,
                     c.where(s.node, f), 'flow counter written outside '
                     'FlowMgr')
    gf = c.func(FM, 'FlowMgr.get_flow')
    for s in c.stores(gf, 'counter'):
        ok = (s.kind == 'aug' and isinstance(s.node.op, ast.Add)
              and norm(s.value) == '1')
        c.ob('C08.counter', c.key(s.node, gf) + ' increments by one', ok,
             c.where(s.node, gf), 'counter only grows' if ok else
             'counter is not a +1 increment')
    init = c.func(FM, 'FlowMgr.__init__')
    for s in c.stores(init, 'counter'):
        c.ob('C08.counter', c.key(s.node, init) + ' starts at 0',
             norm(s.value) == '0', c.where(s.node, init), '')
    loops = [n for n in c.idx.walk(gf.node) if isinstance(n, ast.While)]
    ok = any(c.find(w.test, 'self.counter in self.flows') and any(
        isinstance(s, ast.AugAssign) and norm(s.target) == 'self.counter'
        for s in w.body) for w in loops)
    c.ob('C08.counter', f'{gf.fq} :: skips numbers already in self.flows', ok,
         c.where(gf.node, gf), '')
    asg = [n for n in c.idx.walk(gf.node) if isinstance(n, ast.Assign)
           and norm(n.targets[0]) == 'flow_num']
    for n in asg:
        c.ob('C08.counter', c.key(n, gf) + ' new number = counter',
             norm(n.value) == 'self.counter', c.where(n, gf), '')
        c.guard('C08.counter', n, ['flow_num is None'], gf)
        for w in loops:
            c.ob('C08.counter', c.key(n, gf) + ' after the skip loop',
                 c.cfg(gf).path_exists(w, n) and not c.cfg(gf).path_exists(
                     n, w), c.where(n, gf), '')
    # record new flows
    rec = [s for s in c.stores(gf, 'flows') if s.kind == 'assign'
           and s.depth == 1]
    c.exactly('C08.record', 'self.flows[flow_num] = ...', len(rec), 1)
    for s in rec:
        c.guard('C08.record', s.node, ['!(flow_num in self.flows)'], gf)
        c.guard_only('C08.record', s.node, ['!(flow_num in self.flows)'], gf)
        c.post('C08.record', gf, s.node, c.matches(
            'self.db_mgr.put_insert_workflow_flows(flow_num, '
            'self.flows[flow_num])'), 'put_insert_workflow_flows')
    rets = [r for r in c.idx.walk(gf.node) if isinstance(r, ast.Return)]
    c.ob('C08.record', f'{gf.fq} :: returns flow_num', all(
        norm(r.value) == 'flow_num' for r in rets) and rets,
        c.where(gf.node, gf), '')
    # restart
    ld = c.func(FM, 'FlowMgr.load_from_db')
    for s in c.stores(ld, 'counter'):
        c.ob('C08.restart', c.key(s.node, ld) + ' = max flow number in DB',
             norm(s.value) ==
             'self.db_mgr.pri_dao.select_workflow_flows_max_flow_num()',
             c.where(s.node, ld), '')
    sel = c.func('rundb', 'CylcWorkflowDAO.select_workflow_flows_max_flow_num')
    sql = ' '.join(s.value for s in c.idx.walk(sel.node) if isinstance(
        s, ast.Constant) and isinstance(s.value, str))
    ok = bool(re.search(r'SELECT\s+MAX\(\s*flow_num\s*\)\s+FROM', sql, re.I))
    tbl = any(isinstance(n, ast.Attribute) and n.attr ==
              'TABLE_WORKFLOW_FLOWS' for n in c.idx.walk(sel.node))
    c.ob('C08.restart', f'{sel.fq} :: SELECT MAX(flow_num) FROM '
         'workflow_flows', ok and tbl, c.where(sel.node, sel), sql[:120])
    pi = c.func('workflow_db_mgr',
                'WorkflowDatabaseManager.put_insert_workflow_flows')
    keys = {}
    for d in c.idx.walk(pi.node):
        if isinstance(d, ast.Dict):
            keys = {k.value: norm(v) for k, v in zip(d.keys, d.values)
                    if isinstance(k, ast.Constant)}
    c.ob('C08.restart', f'{pi.fq} :: writes flow_num', keys.get(
        'flow_num') == 'flow_num', c.where(pi.node, pi), str(keys))
    lp = c.func('scheduler', 'Scheduler._load_pool_from_db')
    c.always('C08.restart', lp, c.matches('self.pool.update_flow_mgr()'),
             'update_flow_mgr()')
    uf = c.func(TP, 'TaskPool.update_flow_mgr')
    c.always('C08.restart', uf, c.matches('self.flow_mgr.load_from_db(_)'),
             'flow_mgr.load_from_db(...)')

    # ---- propagation
    so = c.func(TP, 'TaskPool.spawn_on_output')
    for n in c.calls(so, 'spawn_task'):
        c.ob('C08.propagate', c.key(n, so) + ' parent flows',
             len(n.args) == 3 and norm(n.args[2]) == 'itask.flow_nums',
             c.where(n, so), '')
    for n in c.calls(so, 'merge_flows'):
        c.ob('C08.propagate', c.key(n, so) + ' parent flows',
             len(n.args) == 2 and norm(n.args[1]) == 'itask.flow_nums',
             c.where(n, so), '')
    c.floor('C08.propagate', 'spawn/merge in spawn_on_output', len(
        c.calls(so, 'spawn_task')) + len(c.calls(so, 'merge_flows')), 2)
    soa = c.func(TP, 'TaskPool.spawn_on_all_outputs')
    for n in c.calls(soa, 'spawn_task'):
        c.ob('C08.propagate', c.key(n, soa) + ' parent flows',
             len(n.args) == 3 and norm(n.args[2]) == 'itask.flow_nums',
             c.where(n, soa), '')
    snp = c.func(TP, 'TaskPool.spawn_next_parentless')
    for n in c.calls(snp, 'get_or_spawn_task'):
        c.ob('C08.propagate', c.key(n, snp) + ' parent flows',
             len(n.args) == 3 and norm(n.args[2]) == 'itask.flow_nums',
             c.where(n, snp), '')
    gos = c.func(TP, 'TaskPool.get_or_spawn_task')
    for n in c.calls(gos, 'spawn_task'):
        c.ob('C08.propagate', c.key(n, gos) + ' passes flow_nums through',
             len(n.args) >= 3 and norm(n.args[2]) == 'flow_nums',
             c.where(n, gos), '')
    for n in c.calls(gos, 'merge_flows'):
        c.ob('C08.propagate', c.key(n, gos) + ' passes flow_nums through',
             norm(n.args[1]) == 'flow_nums', c.where(n, gos), '')
    st = c.func(TP, 'TaskPool.spawn_task')
    for n in c.calls(st, '_load_db_task_proxy'):
        c.ob('C08.propagate', c.key(n, st) + ' passes flow_nums through',
             len(n.args) >= 3 and norm(n.args[2]) == 'flow_nums',
             c.where(n, st), '')
    ldp = c.func(TP, 'TaskPool._load_db_task_proxy')
    for n in [x for x in c.calls(ldp, 'TaskProxy')]:
        c.ob('C08.propagate', c.key(n, ldp) + ' passes flow_nums through',
             len(n.args) >= 4 and norm(n.args[3]) == 'flow_nums',
             c.where(n, ldp), '')
    # no aliasing
    tpi = c.func('task_proxy', 'TaskProxy.__init__')
    for s in c.stores(tpi, 'flow_nums'):
        v = norm(s.value)
        c.ob('C08.no-alias', c.key(s.node, tpi), v in (
            'set()', 'flow_nums.copy()', 'set(flow_nums)'),
            c.where(s.node, tpi), f'self.flow_nums = {v}' + (
                '' if v != 'flow_nums' else ' aliases the parent\'s set: a '
                'later merge into one task changes the other'))
    # merge bookkeeping
    mf = c.func(TP, 'TaskPool.merge_flows')
    mg = c.find(mf, 'itask.merge_flows(flow_nums)')
    c.exactly('C08.merge', 'itask.merge_flows(flow_nums)', len(mg), 1)
    for n in mg:
        c.post('C08.merge', mf, n, c.matches(
            'self.data_store_mgr.delta_task_flow_nums(itask)'),
            'delta_task_flow_nums')
        c.post('C08.merge', mf, n, c.matches(
            'self.db_add_new_flow_rows(itask)'), 'db_add_new_flow_rows')
        c.guard_only('C08.merge', n, [
            AnyOf('flow_nums', '!(flow_nums == itask.flow_nums)'),
            'flow_nums', '!(flow_nums == itask.flow_nums)'], mf)
    pmf = c.func('task_proxy', 'TaskProxy.merge_flows')
    c.always('C08.merge', pmf, c.matches('self.flow_nums.update(flow_nums)'),
             'self.flow_nums.update(flow_nums)')
    # who mutates a proxy's flow set
    muts = [s for s in c.stores(None, 'flow_nums')
            if isinstance(s.target.value, ast.Name) and s.target.value.id in (
                'itask', 'self', 'ntask', 'c_task', 't', 'new_task',
                'reload_successor')]
    allow = {
        ('task_proxy:TaskProxy.__init__', 'assign'),
        ('task_proxy:TaskProxy.merge_flows', 'call:update'),
        (f'{TP}:TaskPool.stop_flow', 'call:remove'),
        ('commands:_remove_matched_tasks', 'call:difference_update'),
        ('data_store_mgr:DataStoreMgr.apply_task_proxy_db_history', 'assign'),
        ('data_store_mgr:DataStoreMgr._process_internal_task_proxy',
         'assign'),
        ('data_store_mgr:DataStoreMgr.delta_task_flow_nums', 'assign'),
    }
    c.floor('C08.flow-set-writers', 'flow_nums mutations', len(muts), 5)
    for s in muts:
        f = c.owner(s.node)
        fq = f.fq if f else '<module>'
        c.ob('C08.flow-set-writers', c.key(s.node, f) + f' [{s.kind}]',
             (fq, s.kind) in allow, c.where(s.node, f), f'{s.kind} in {fq}')

    # ---- a task finished and complete in a flow is not re-run when that
    # flow reaches it again (the rules are those of C02: the history lookup
    # by flow intersection that stops only at a *final* row, and the refusal
    # to spawn on a final + complete history)
    from rules.C02 import finished_in_flow_rules
    finished_in_flow_rules(c, 'C08.no-rerun', 'C08.no-rerun')


VARIANTS = [
    ('history-latest-submit-wins', 'cylc/flow/task_pool.py',
     '''                if status in TASK_STATUSES_FINAL:
                    # task finished
                    break''', '''                if status in TASK_STATUSES_FINAL or _snum == submit_num:
                    # task finished
                    break''', 'C08.no-rerun'),
    ('counter-reset', 'cylc/flow/flow_mgr.py',
     '''        self.flows = self.db_mgr.pri_dao.select_workflow_flows(flow_nums)
        self._log()''',
     '''        self.flows = self.db_mgr.pri_dao.select_workflow_flows(flow_nums)
        self.counter = max(self.flows, default=0)
        self._log()''', 'C08.'),
    ('counter-from-pool', 'cylc/flow/flow_mgr.py',
     'self.counter = self.db_mgr.pri_dao.select_workflow_flows_max_flow_num()',
     'self.counter = max(flow_nums, default=0)', 'C08.restart'),
    ('no-skip', 'cylc/flow/flow_mgr.py',
     '''            while self.counter in self.flows:
                # Skip manually-created out-of-sequence flows.
                self.counter += 1
''', '', 'C08.counter'),
    ('alias', 'cylc/flow/task_proxy.py',
     '            self.flow_nums = flow_nums.copy()',
     '            self.flow_nums = flow_nums', 'C08.no-alias'),
    ('child-flow-one', 'cylc/flow/task_pool.py',
     '                c_task = self.spawn_task(c_name, c_point, itask.flow_nums)\n\n            tasks',
     '                c_task = self.spawn_task(c_name, c_point, {1})\n\n            tasks',
     'C08.propagate'),
    ('merge-no-db', 'cylc/flow/task_pool.py',
     '''        # Merged tasks get a new row in the db task_states table.
        self.db_add_new_flow_rows(itask)
''', '', 'C08.merge'),
    ('max-of-pool-table', 'cylc/flow/rundb.py',
     '''                MAX(flow_num)
            FROM
                {self.TABLE_WORKFLOW_FLOWS}''',
     '''                COUNT(flow_num)
            FROM
                {self.TABLE_WORKFLOW_FLOWS}''', 'C08.restart'),
    ('unrecorded-flow', 'cylc/flow/flow_mgr.py',
     '''            self.db_mgr.put_insert_workflow_flows(
                flow_num,
                self.flows[flow_num]
            )''', '''            if meta != "no description":
                self.db_mgr.put_insert_workflow_flows(
                    flow_num,
                    self.flows[flow_num]
                )''', 'C08.record'),
]

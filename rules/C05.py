"""C05 Internal queue limits are never exceeded — bounded-write clauses."""
import ast

from sa.core import AnalysisError, norm
from sa.pat import AnyOf, P, StatusCovers, Env, match, parse_pat

CLAUSES = (
    'Decided: in LimitedTaskQueue.release every append to the released list '
    'is inside the loop bounded by `not limit or n_active < limit`, refuses '
    'held tasks, and is followed by the counter increment; the counter is '
    'initialised from the active counts of the queue members; push/pop use '
    'opposite deque ends; TaskPool.count_active_tasks counts every task that '
    'is waiting_on_job_prep or preparing/submitted/running; released tasks '
    'are marked waiting_on_job_prep and un-queued; push_task_if_limited is '
    'only used by the manual-trigger path. '
    'The queued flag is written only by TaskState (never copied to a reload successor). '
    'Not decided: unique-membership '
    'resolution of overlapping queue configs (_make_indep).')

Q = 'task_queues.independent'


def check(c):
    # the queued flag says "sits in a queue of the queue manager": it is
    # set through state_reset by the queueing / release code only -- never
    # copied from another proxy (reload builds new, empty queues and relies
    # on successors starting un-queued, so that they are pushed again)
    c.who_writes('C05.queued-flag', 'is_queued', {
        ('task_state:TaskState.__init__', 'assign'),
        ('task_state:TaskState.reset', 'assign'),
    }, floor=2)
    rel = c.func(Q, 'LimitedTaskQueue.release')
    ret = [n for n in ast.walk(rel.node) if isinstance(n, ast.Return)
           and n.value is not None]
    if not ret:
        raise AnalysisError('LimitedTaskQueue.release returns nothing')
    # the released list = what is returned
    names = {norm(r.value) for r in ret}
    c.ob('C05.release-returns-one-list', rel.fq, len(names) == 1,
         c.where(ret[0], rel), f'return values: {sorted(names)}')
    lst = sorted(names)[0]
    apps = [n for n in c.find(rel, f'{lst}.append(_)')] + [
        n for n in c.find(rel, f'{lst}.extend(_)')] + [
        n for n in c.find(rel, f'{lst}.insert(*_)')]
    augs = [n for n in ast.walk(rel.node) if isinstance(n, ast.AugAssign)
            and norm(n.target) == lst]
    c.floor('C05.release-append-sites', f'{lst}.append in release',
            len(apps), 1)
    c.ob('C05.release-bounded', f'{rel.fq} :: no bulk add to {lst}',
         not augs and all(a.func.attr == 'append' for a in apps),
         c.where(rel.node, rel),
         'released list grows only by single appends' if not augs else
         'released list is extended in bulk (unbounded write)')
    for a in apps:
        # (a) bounded by the loop test
        loop = None
        cur = a
        while id(cur) in c.idx.parent:
            cur = c.idx.parent[id(cur)]
            if isinstance(cur, ast.While):
                loop = cur
                break
        counter = None
        if loop is not None:
            # any spelling of `<name> < <limit>` in the loop test:
            # `n < lim`, `lim > n`, `not n >= lim`, `not (lim and n >= lim)`
            from sa.pat import nf, canon_cmp

            def leaves(t):
                if t[0] == 'atom':
                    yield t
                else:
                    for m in t[1]:
                        yield from leaves(m)
            for _k, node, pol in leaves(nf(loop.test, True)):
                cc = canon_cmp(node, pol)
                if cc and cc[0] == '<' and cc[3] and isinstance(
                        cc[1], ast.Name):
                    counter = cc[1].id
        cn = counter or '_n'
        c.guard('C05.release-bounded', a,
                [AnyOf('!_.limit', '_.limit == 0', f'{cn} < _.limit')], rel)
        # (b) held tasks are not released
        item = norm(a.args[0])
        c.guard('C05.release-not-held', a, [f'!{item}.state.is_held'], rel)
        if counter is None:
            c.ob('C05.release-counter', c.key(a, rel), False,
                 c.where(a, rel), 'no `counter < limit` loop test found')
            continue
        # (c) increment follows the append before the test is re-evaluated

        def is_incr(n, counter=counter):
            return (isinstance(n, ast.AugAssign)
                    and isinstance(n.op, ast.Add)
                    and norm(n.target) == counter
                    and isinstance(n.value, ast.Constant)
                    and n.value.value == 1) or (
                isinstance(n, ast.Assign) and norm(n.targets[0]) == counter
                and norm(n.value) in (f'{counter} + 1', f'1 + {counter}'))
        cfg = c.cfg(rel)
        st = c.idx.stmt_of(a)
        # every path from the append back to the loop test passes += 1
        ok = True
        starts = []
        for k in cfg.keys.get(id(st), []):
            starts.extend(cfg.succ[k])
        seen = cfg._reach(
            starts, lambda k: is_incr(cfg.stmt[k]))
        loop_keys = set(cfg.keys.get(id(loop), []))
        if seen & loop_keys:
            ok = False
        c.ob('C05.release-counts-each', c.key(a, rel) + f' then {counter} += 1',
             ok, c.where(a, rel),
             'counter incremented before the bound is re-tested' if ok else
             'a path from the append back to the loop test skips the '
             'counter increment')
        # (d) counter initialised from active[mem] over self.members
        init_ok = False
        for n in ast.walk(rel.node):
            if isinstance(n, ast.For) and norm(n.iter).endswith('.members'):
                tv = norm(n.target)
                for s in ast.walk(n):
                    if isinstance(s, ast.AugAssign) and norm(
                            s.target) == counter and isinstance(
                            s.op, ast.Add) and norm(s.value) == \
                            f'active[{tv}]':
                        init_ok = True
            if isinstance(n, (ast.Assign, ast.AnnAssign)) and n.value is not \
                    None and norm(n.targets[0] if isinstance(
                        n, ast.Assign) else n.target) == counter:
                if c.find(n.value, 'sum((active[_m] for _m in _.members))'):
                    init_ok = True
        zero = [n for n in ast.walk(rel.node)
                if isinstance(n, (ast.Assign, ast.AnnAssign))
                and norm(n.targets[0] if isinstance(n, ast.Assign)
                         else n.target) == counter]
        c.ob('C05.release-counter-init',
             f'{rel.fq} :: {counter} initialised from active[member]',
             init_ok and len(zero) >= 1, c.where(rel.node, rel),
             'counter = sum of active counts of the queue members'
             if init_ok else 'counter is not initialised from the active '
             'counts of all members')
    # FIFO: opposite ends
    cls = c.idx.cls('LimitedTaskQueue', Q)
    push_ends = set()
    for m in ('push_task', 'push_task_if_limited', 'release'):
        f = c.func(Q, f'LimitedTaskQueue.{m}')
        for n in c.find(f, '_.deque.appendleft(_)'):
            if m != 'release' or not _in_held_loop(c, n):
                push_ends.add('left')
        for n in c.find(f, '_.deque.append(_)'):
            push_ends.add('right')
    pop_ends = set()
    for n in c.find(rel, '_.deque.pop()'):
        pop_ends.add('right')
    for n in c.find(rel, '_.deque.popleft()'):
        pop_ends.add('left')
    c.ob('C05.fifo', f'{Q}:LimitedTaskQueue push/pop ends',
         len(push_ends) == 1 and len(pop_ends) == 1
         and push_ends != pop_ends, c.where(cls.node),
         f'push end(s) {sorted(push_ends)}, pop end(s) {sorted(pop_ends)}')
    # held tasks go back to the queue
    held_back = c.find(rel, '_.deque.appendleft(_)') + c.find(
        rel, '_.deque.append(_)')
    c.floor('C05.held-requeued', 'held tasks pushed back in release',
            len(held_back), 1)

    # push_task_if_limited: only pushes when at/over the limit & a member
    pl = c.func(Q, 'LimitedTaskQueue.push_task_if_limited')
    for n in c.find(pl, '_.deque.appendleft(_)') + c.find(
            pl, '_.deque.append(_)'):
        c.guard('C05.push-if-limited', n,
                ['_.limit', '_.limit <= _n', '_.tdef.name in _.members'], pl)
    pt = c.func(Q, 'LimitedTaskQueue.push_task')
    for n in c.find(pt, '_.deque.appendleft(_)') + c.find(
            pt, '_.deque.append(_)'):
        c.guard('C05.push-members-only', n, ['_.tdef.name in _.members'], pt)

    # IndepQueueManager.release_tasks passes the same counter to each queue
    rt = c.func(Q, 'IndepQueueManager.release_tasks')
    sites = c.find(rt, '_.release(active)')
    c.floor('C05.release-tasks-shares-counter',
            'queue.release(active) in release_tasks', len(sites), 1)

    # TaskPool.count_active_tasks
    cat = c.func('task_pool', 'TaskPool.count_active_tasks')
    ups = c.find(cat, '_.update([_.tdef.name])')
    c.floor('C05.count-sites', 'counter.update in count_active_tasks',
            len(ups), 2)
    allowed = [P('_.waiting_on_job_prep'), P('!_.waiting_on_job_prep'),
               StatusCovers('preparing', 'submitted', 'running')]
    have_prep = have_status = False
    for u in ups:
        c.guard_only('C05.count-active', u, allowed, cat)
        if c.holds(u, '_.waiting_on_job_prep'):
            have_prep = True
        if c.holds(u, StatusCovers('preparing', 'submitted', 'running')):
            have_status = True
    c.ob('C05.count-active', f'{cat.fq} :: counts waiting_on_job_prep tasks',
         have_prep, c.where(cat.node, cat), '')
    c.ob('C05.count-active',
         f'{cat.fq} :: counts preparing/submitted/running tasks',
         have_status, c.where(cat.node, cat), '')
    loops = [n for n in ast.walk(cat.node) if isinstance(n, ast.For)]
    c.ob('C05.count-active', f'{cat.fq} :: iterates the whole pool',
         any(norm(n.iter) == 'self.get_tasks()' for n in loops),
         c.where(cat.node, cat), '')

    # TaskPool.release_queued_tasks
    rq = c.func('task_pool', 'TaskPool.release_queued_tasks')
    rcalls = c.calls(rq, 'release_tasks')
    c.floor('C05.release-queued', 'release_tasks call', len(rcalls), 1)
    for rc in rcalls:
        arg = norm(rc.args[0]) if rc.args else '?'
        src_ok = any(
            isinstance(n, ast.Assign) and isinstance(
                n.targets[0], ast.Tuple) and norm(
                n.targets[0].elts[0]) == arg and norm(n.value) ==
            'self.count_active_tasks()' for n in ast.walk(rq.node))
        c.ob('C05.release-queued', c.key(rc, rq) + ' counter source', src_ok,
             c.where(rc, rq), 'counter comes from count_active_tasks()')
        st = c.idx.stmt_of(rc)
        tgt = norm(st.targets[0]) if isinstance(st, ast.Assign) else None
        loops = [n for n in ast.walk(rq.node) if isinstance(n, ast.For)
                 and norm(n.iter) == tgt]
        c.ob('C05.release-queued', c.key(rc, rq) + ' loop over released',
             len(loops) == 1, c.where(rc, rq), '')
        for lp in loops:
            tv = norm(lp.target)
            body = ast.Module(body=lp.body, type_ignores=[])
            a1 = [s for s in lp.body if isinstance(s, ast.Assign) and norm(
                s.targets[0]) == f'{tv}.waiting_on_job_prep' and norm(
                s.value) == 'True']
            a2 = [s for s in lp.body if isinstance(s, ast.Expr) and match(
                parse_pat(f'{tv}.state_reset(is_queued=False)')[0], s.value,
                Env())]
            c.ob('C05.release-queued',
                 f'{rq.fq} :: released task marked waiting_on_job_prep',
                 bool(a1), c.where(lp, rq), '')
            c.ob('C05.release-queued',
                 f'{rq.fq} :: released task un-queued', bool(a2),
                 c.where(lp, rq), '')
            del body

    # ---- unique membership (last queue listing a task wins)
    mi = c.func(Q, 'IndepQueueManager._make_indep')
    # the "owner so far" map: the dict whose entry selects the queue that
    # loses the member
    loops = [n for n in c.idx.walk(mi.node) if isinstance(n, ast.For)
             and norm(n.iter) in ("qconfig['members']", 'qconfig["members"]')]
    c.exactly('C05.indep', 'member loop in _make_indep', len(loops), 1)
    for lp in loops:
        mem = norm(lp.target)
        # (1) record the current queue as the owner of every member
        rec = [s for s in lp.body if isinstance(s, ast.Assign)
               and isinstance(s.targets[0], ast.Subscript)
               and norm(s.targets[0].slice) == mem
               and norm(s.value) == 'qname']
        c.ob('C05.indep', f'{mi.fq} :: owner[{mem}] = qname for every listed '
             'member (unconditional, top level of the loop)', len(rec) == 1,
             c.where(lp, mi), 'the last queue listing a task becomes its '
             'owner' if rec else 'the owner map is not updated to the current '
             'queue on every listing: with three or more queues listing a '
             'task an earlier queue keeps it as a member')
        owner = norm(rec[0].targets[0].value) if rec else 'seen'
        # (2) the previous owner loses the member
        rem = [n for n in ast.walk(lp) if isinstance(n, ast.Call)
               and isinstance(n.func, ast.Attribute)
               and n.func.attr in ('remove', 'discard')
               and n.args and norm(n.args[0]) == mem
               and 'Q_DEFAULT' not in norm(n.func.value)]
        c.floor('C05.indep', 'removal from the previous owner queue',
                len(rem), 1)
        for r in rem:
            q = r.func.value
            idxs = [norm(s.slice) for s in ast.walk(q)
                    if isinstance(s, ast.Subscript)]
            prev = [i for i in idxs if i not in ("'members'", '"members"')]
            src = [a for a in ast.walk(lp) if isinstance(a, ast.Assign)
                   and prev and norm(a.targets[0]) == prev[0]]
            ok = bool(src) and norm(src[0].value) == f'{owner}[{mem}]'
            c.ob('C05.indep', c.key(r, mi) + f' removes from {owner}[{mem}]',
                 ok, c.where(r, mi), '')
            c.guard('C05.indep', r, [f'{mem} in {owner}'], mi)
        # (3) removal from the default queue
        dq = [n for n in ast.walk(lp) if isinstance(n, ast.Call)
              and isinstance(n.func, ast.Attribute)
              and n.func.attr in ('remove', 'discard')
              and 'Q_DEFAULT' in norm(n.func.value)]
        c.floor('C05.indep', 'removal from the default queue', len(dq), 1)
        # (4) default queue itself is skipped
        # (`if qname == Q_DEFAULT: continue` or the member loop under the
        # negated test: either way the loop is reached only for other queues)
        c.ob('C05.indep', f'{mi.fq} :: default queue not processed as an '
             'owner', c.holds(lp, '!(qname == self.Q_DEFAULT)'),
             c.where(lp, mi), '')
    ini = c.func(Q, 'IndepQueueManager.__init__')
    c.floor('C05.indep', 'queues = self._make_indep(queues)', len(
        c.find(ini, 'self._make_indep(_)')), 1)
    c.floor('C05.indep', 'default queue gets all task names', len([
        s for s in c.idx.walk(ini.node) if isinstance(s, ast.Assign)
        and norm(s.targets[0]) == "qconfig[self.Q_DEFAULT]['members']"
        and norm(s.value) == 'set(all_task_names)']), 1)

    # who may call push_task_if_limited
    table = [
        ('task_pool:TaskPool.queue_or_trigger', ['!_.state.is_queued'],
         'manual trigger of a non-queued task'),
        (f'{Q}:IndepQueueManager.push_task_if_limited', [],
         'manager fan-out to its queues'),
    ]
    c.allow_sites('C05.push-if-limited-callers',
                  c.calls(None, 'push_task_if_limited'), table,
                  'caller of push_task_if_limited')


def _in_held_loop(c, n):
    cur = n
    while id(cur) in c.idx.parent:
        cur = c.idx.parent[id(cur)]
        if isinstance(cur, ast.For):
            return True
        if isinstance(cur, ast.While):
            return False
    return False


VARIANTS = [
    ('reload-keeps-queued-flag', 'cylc/flow/task_proxy.py',
     '        reload_successor.state.is_held = self.state.is_held\n',
     '        reload_successor.state.is_held = self.state.is_held\n'
     '        reload_successor.state.is_queued = self.state.is_queued\n',
     'C05.queued-flag'),
    ('drop-limit-test', 'cylc/flow/task_queues/independent.py',
     'while not self.limit or n_active < self.limit:',
     'while not self.limit or n_active <= self.limit:',
     'C05.release-bounded'),
    ('release-held', 'cylc/flow/task_queues/independent.py',
     '            if itask.state.is_held:\n                held.append(itask)',
     '            if False:\n                held.append(itask)',
     'C05.release-not-held'),
    ('no-increment', 'cylc/flow/task_queues/independent.py',
     '                n_active += 1\n', '                pass\n',
     'C05.release-counts-each'),
    ('count-drops-running', 'cylc/flow/task_pool.py',
     '''            elif itask.state(
                TASK_STATUS_PREPARING,
                TASK_STATUS_SUBMITTED,
                TASK_STATUS_RUNNING,
            ):
                # an active task''',
     '''            elif itask.state(
                TASK_STATUS_PREPARING,
                TASK_STATUS_SUBMITTED,
            ):
                # an active task''', 'C05.count-active'),
    ('lifo', 'cylc/flow/task_queues/independent.py',
     '                itask = self.deque.pop()',
     '                itask = self.deque.popleft()', 'C05.fifo'),
    ('benign-early-continue', 'cylc/flow/task_queues/independent.py',
     '''            if itask.state.is_held:
                held.append(itask)
            else:
                released.append(itask)
                n_active += 1
                active.update({itask.tdef.name: 1})''',
     '''            if itask.state.is_held:
                held.append(itask)
                continue
            released.append(itask)
            active.update({itask.tdef.name: 1})
            n_active += 1''', None),
    ('benign-flip-compare', 'cylc/flow/task_queues/independent.py',
     'while not self.limit or n_active < self.limit:',
     'while self.limit == 0 or self.limit > n_active:', None),
]

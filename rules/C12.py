"""C12 Required/optional output classification matches the expression."""
import ast
import itertools

from sa.core import AnalysisError, norm
from sa.consts import known

TECHNIQUE = ('static analysis: R-FINITE abstract interpretation of the '
             'graph-vs-expression consistency if-chain over its finite domain '
             '({True, False, None}^2 x output kind), shape of the optionality '
             'probe context (one variable false per probe; pre-execution '
             'outputs forced false), guard of required-message iteration, '
             'exactly-one-of succeeded/failed structure in skip mode')

CLAUSES = (
    'Decided: get_optional_outputs probes each used variable with exactly '
    'that variable false, forces expired and submit_failed false, reports '
    'unused variables as None; required messages are exactly those whose '
    'variable is reported required (False); the config-time consistency '
    'check raises on exactly the documented (graph, expression) optionality '
    'cells for every combination; skip mode emits exactly one of '
    'succeeded / failed and never from the required-outputs loop. Not '
    'decided: classification of arbitrary boolean expressions (needs '
    'evaluation of the expression).')

TO = 'task_outputs'


class _Abort(Exception):
    pass


def _ev(node, env):
    """Evaluate a side-effect free test over the finite domain."""
    if isinstance(node, ast.Constant):
        return node.value
    if isinstance(node, ast.Name):
        if node.id in env:
            return env[node.id]
        raise _Abort(node.id)
    if isinstance(node, ast.Set):
        return {_ev(e, env) for e in node.elts}
    if isinstance(node, ast.BoolOp):
        if isinstance(node.op, ast.And):
            for v in node.values:
                r = _ev(v, env)
                if not r:
                    return r
            return r
        for v in node.values:
            r = _ev(v, env)
            if r:
                return r
        return r
    if isinstance(node, ast.UnaryOp) and isinstance(node.op, ast.Not):
        return not _ev(node.operand, env)
    if isinstance(node, ast.Compare) and len(node.ops) == 1:
        a = _ev(node.left, env)
        b = _ev(node.comparators[0], env)
        op = node.ops[0]
        if isinstance(op, ast.Is):
            return a is b
        if isinstance(op, ast.IsNot):
            return a is not b
        if isinstance(op, ast.In):
            return a in b
        if isinstance(op, ast.NotIn):
            return a not in b
        if isinstance(op, ast.Eq):
            return a == b
        if isinstance(op, ast.NotEq):
            return a != b
    raise _Abort(norm(node))


def check(c):
    # ---- probe context
    go = c.func(TO, 'get_optional_outputs')
    ev = c.calls(go, 'CompletionEvaluator')
    c.exactly('C12.probe', 'CompletionEvaluator call in get_optional_outputs',
              len(ev), 1)
    for n in ev:
        # which variable is being probed: the key of the enclosing dict
        # comprehension over used_compvars, or the loop variable of a
        # `for k in used_compvars: result[k] = CompletionEvaluator(...)`
        pv = None
        cur = n
        while id(cur) in c.idx.parent and cur is not go.node:
            cur = c.idx.parent[id(cur)]
            if isinstance(cur, ast.DictComp) and norm(
                    cur.generators[0].iter) == 'used_compvars' and norm(
                    cur.key) == norm(cur.generators[0].target):
                pv = norm(cur.key)
                break
            if isinstance(cur, ast.For) and norm(
                    cur.iter) == 'used_compvars':
                st = c.idx.stmt_of(n)
                if isinstance(st, ast.Assign) and isinstance(
                        st.targets[0], ast.Subscript) and norm(
                        st.targets[0].slice) == norm(cur.target):
                    pv = norm(cur.target)
                break
        c.ob('C12.probe', c.key(n, go)[:100] + ' one probe per used '
             'variable', pv is not None, c.where(n, go), f'probed: {pv}')
        kw = n.keywords[0].value if n.keywords else None
        probe = forced = False
        if isinstance(kw, ast.Dict) and pv is not None:
            for k, v in zip(kw.keys, kw.values):
                if k is None and isinstance(v, ast.DictComp):
                    var = norm(v.generators[0].target)
                    if norm(v.key) == var and norm(v.value) in (
                            f'{var} != {pv}', f'{pv} != {var}') and norm(
                                v.generators[0].iter) == 'all_compvars' \
                            and not v.generators[0].ifs:
                        probe = True
            consts = {k.value: norm(v) for k, v in zip(kw.keys, kw.values)
                      if isinstance(k, ast.Constant)}
            forced = consts.get('expired') == 'False' and consts.get(
                'submit_failed') == 'False'
            # forced entries come after the probe map (they override it)
            order = [('probe' if k is None and isinstance(v, ast.DictComp)
                      else (k.value if isinstance(k, ast.Constant) else '?'))
                     for k, v in zip(kw.keys, kw.values)]
            ok_order = 'probe' in order and order.index('probe') < min(
                [order.index(x) for x in ('expired', 'submit_failed')
                 if x in order] or [99])
        else:
            ok_order = False
        c.ob('C12.probe', c.key(n, go)[:100] + ' only the probed variable is '
             'false', probe, c.where(n, go), '')
        c.ob('C12.probe', c.key(n, go)[:100] + ' expired / submit_failed '
             'forced false (after the probe map)', forced and ok_order,
             c.where(n, go), '')
    # variables the expression does not mention are reported as None
    fk = [x for x in c.calls(go, 'fromkeys') if x.args]
    ok = False
    for x in fk:
        a0 = x.args[0]
        if isinstance(a0, ast.Name):
            defs = [d for d in c.idx.walk(go.node) if isinstance(d, ast.Assign)
                    and norm(d.targets[0]) == a0.id]
            a0 = defs[0].value if len(defs) == 1 else a0
        if norm(a0) == 'all_compvars - used_compvars' and len(x.args) == 1:
            ok = True
    c.ob('C12.probe', f'{go.fq} :: unused variables reported as None', ok,
         c.where(go.node, go), '')
    c.floor('C12.probe', 'used variables from the expression', len(
        c.find(go, 'get_variable_names(expression)')), 1)

    ir = c.func(TO, 'TaskOutputs.iter_required_messages')
    ys = [n for n in c.idx.walk(ir.node) if isinstance(n, ast.Yield)]
    c.floor('C12.required', 'yield in iter_required_messages', len(ys), 1)
    for y in ys:
        c.guard('C12.required', y, ['is_optional is False',
                                    '_compvar == compvar'], ir)
    c.floor('C12.required', 'classification from the own expression', len(
        c.find(ir, 'get_optional_outputs(self._completion_expression, '
               'set(self._message_to_compvar.values()), disable=disable)')),
        1)

    # ---- R-FINITE: consistency block
    cc = c.func('config', 'WorkflowConfig._check_completion_expression')
    loops = [n for n in c.idx.walk(cc.node) if isinstance(n, ast.For)
             and norm(n.target) == 'compvar']
    c.exactly('C12.consistency', 'for compvar in {graph, expression}',
              len(loops), 1)
    doc = {  # (graph_opt, expr_opt) -> kinds that must raise
        (True, False): {'pre', 'other'},
        (False, None): {'pre', 'other'},
        (True, None): {'pre'},
        (False, True): {'other'},
    }
    for lp in loops:
        # names defined from the two maps
        asg = {norm(s.targets[0]): norm(s.value) for s in lp.body
               if isinstance(s, ast.Assign)}
        c.ob('C12.consistency', f'{cc.fq} :: graph_opt / expr_opt looked up '
             'per variable', asg.get('graph_opt') ==
             'graph_optionals.get(compvar)' and asg.get('expr_opt') ==
             'expression_optionals.get(compvar)', c.where(lp, cc), str(asg))
        ifs = [s for s in lp.body if isinstance(s, ast.If) and any(
            isinstance(x, ast.Raise) for x in ast.walk(s))]
        c.floor('C12.consistency', 'raising branches', len(ifs), 4)
        n_cells = 0
        for g, e, kind in itertools.product(
                (True, False, None), (True, False, None), ('pre', 'other')):
            for compvar in (('submit_failed', 'expired') if kind == 'pre'
                            else ('succeeded', 'x')):
                env = {'graph_opt': g, 'expr_opt': e, 'compvar': compvar}
                raised = False
                try:
                    for s in ifs:
                        if _ev(s.test, env):
                            # the raise must be unconditional inside
                            raised = any(isinstance(x, ast.Raise)
                                         for x in s.body) or any(
                                isinstance(x, ast.Raise)
                                for x in ast.walk(s))
                            break
                except _Abort as exc:
                    c.ob('C12.consistency', f'{cc.fq} :: cell graph={g} '
                         f'expr={e} {compvar}', False, c.where(lp, cc),
                         f'test is not a finite decision over the three '
                         f'names: {exc}')
                    continue
                want = kind in doc.get((g, e), set())
                n_cells += 1
                c.ob('C12.consistency', f'{cc.fq} :: cell graph={g} '
                     f'expr={e} output={compvar}', raised == want,
                     c.where(lp, cc), ('raises' if raised else 'accepts') +
                     (' as documented' if raised == want else
                      f' but the documented table says '
                      f'{"raise" if want else "accept"}'))
        c.floor('C12.consistency', 'cells evaluated', n_cells, 36)
    # expression optionals come from the same classifier
    c.floor('C12.consistency', 'expression_optionals = '
            'get_optional_outputs(expr, outputs)', len(
                c.calls(cc, 'get_optional_outputs')), 1)

    # ---- skip mode
    po = c.func('run_modes.skip', 'process_outputs')
    adds = [n for n in c.calls(po, 'add') if norm(n.func.value) == 'result']
    f_add = [n for n in adds if c.fold(n.args[0]) == 'failed']
    s_add = [n for n in adds if c.fold(n.args[0]) == 'succeeded']
    c.exactly('C12.skip', 'result.add(failed)', len(f_add), 1)
    c.exactly('C12.skip', 'result.add(succeeded)', len(s_add), 1)
    if f_add and s_add:
        pf = c.idx.parent[id(c.idx.stmt_of(f_add[0]))]
        ps = c.idx.parent[id(c.idx.stmt_of(s_add[0]))]
        ok = pf is ps and isinstance(pf, ast.If) and any(
            c.idx.stmt_of(f_add[0]) is s for s in pf.body) and any(
            c.idx.stmt_of(s_add[0]) is s for s in pf.orelse)
        c.ob('C12.skip', f'{po.fq} :: failed / succeeded in the two arms of '
             'one if/else', ok, c.where(po.node, po), '')
        c.guard('C12.skip', f_add[0], ["'failed' in conf_outputs"], po)
    msg_add = [n for n in adds if norm(n.args[0]) == 'message']
    for n in msg_add:
        c.guard('C12.skip', n, [
            "!(trigger in {'succeeded', 'failed'})"], po,
            what='required-outputs loop never emits succeeded/failed;')
    up = [n for n in c.calls(po, 'update') if norm(n.func.value) == 'result']
    for n in up:
        a = n.args[0]
        ok = isinstance(a, ast.GeneratorExp) and any(
            norm(i) == 'trigger in conf_outputs'
            for i in a.generators[0].ifs)
        c.ob('C12.skip', c.key(n, po)[:100] + ' only configured outputs',
             ok, c.where(n, po), '')
    ck = c.func('run_modes.skip', 'check_task_skip_config')
    c.floor('C12.skip', 'config check rejects succeeded+failed together',
            len([r for r in c.idx.walk(ck.node) if isinstance(r, ast.Raise)]),
            1)


VARIANTS = [
    ('probe-all-false', 'cylc/flow/task_outputs.py',
     '                    **{out: out != output for out in all_compvars},',
     '                    **{out: False for out in all_compvars},',
     'C12.probe'),
    ('expired-not-forced', 'cylc/flow/task_outputs.py',
     "                    'expired': False,\n", '', 'C12.probe'),
    ('required-includes-none', 'cylc/flow/task_outputs.py',
     '            if is_optional is False:',
     '            if not is_optional:', 'C12.required'),
    ('consistency-hole', 'cylc/flow/config.py',
     '            if graph_opt is False and expr_opt is None:',
     '            if graph_opt is False and expr_opt is False:',
     'C12.consistency'),
    ('consistency-pre-exec', 'cylc/flow/config.py',
     '''                and expr_opt is True
                and compvar not in {'submit_failed', 'expired'}''',
     '''                and expr_opt is True
                and compvar not in {'submit_failed'}''', 'C12.consistency'),
    ('skip-both', 'cylc/flow/run_modes/skip.py',
     '''    if TASK_OUTPUT_FAILED in conf_outputs:
        result.add(TASK_OUTPUT_FAILED)
    else:
        result.add(TASK_OUTPUT_SUCCEEDED)''',
     '''    if TASK_OUTPUT_FAILED in conf_outputs:
        result.add(TASK_OUTPUT_FAILED)
    result.add(TASK_OUTPUT_SUCCEEDED)''', 'C12.skip'),
    ('skip-loop-emits-final', 'cylc/flow/run_modes/skip.py',
     '''            trigger not in {TASK_OUTPUT_SUCCEEDED, TASK_OUTPUT_FAILED}
            and (not conf_outputs''',
     '''            trigger not in {TASK_OUTPUT_FAILED}
            and (not conf_outputs''', 'C12.skip'),
]

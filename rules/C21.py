"""C21 Database writes are atomic and the public database converges."""
import ast

from sa.core import AnalysisError, norm

TECHNIQUE = ('static analysis: transaction shape (all statements of a batch '
             'in one try, exactly one commit after the loop, no autocommit), '
             'who-may-commit allow-list, pri/pub pairing in the queue '
             'processor, guard + post-dominance for public-DB recovery')

CLAUSES = (
    'Decided: CylcWorkflowDAO.execute_queued_items executes every statement '
    'of the batch inside one try whose success path has exactly one '
    'conn.commit() after the loop (none in the loop, none in _execute_stmt / '
    'connect); sqlite3.connect is not put in autocommit mode; on sqlite3.Error '
    'the private DAO re-raises, the public DAO counts the try, rolls back and '
    'returns without clearing the queues (queues are cleared only on success); '
    'commit sites are allow-listed; process_queued_ops feeds both DAOs from '
    'the same popped item and writes private before public; '
    'recover_pub_from_pri copies private over public once n_tries reaches '
    'MAX_TRIES, via temp file + rename, and is called every main-loop '
    'iteration. '
    'A failed statement always re-raises out of the statement helper (so the batch handler runs). '
    ''
    'Both DAOs execute their queued items on every process_queued_ops call once they exist (retry of a retained public batch). '
    'Not decided: SQLite transactional guarantees (trusted).')

QUEUES = ('delete_queues', 'insert_queue', 'update_queues')


def _ancestors(c, n, stop):
    cur = n
    while id(cur) in c.idx.parent and cur is not stop:
        cur = c.idx.parent[id(cur)]
        yield cur


def _in_block(c, n, block):
    """n is (transitively) inside one of the statements of block."""
    ids = {id(s) for s in block}
    if id(n) in ids:
        return True
    for a in _ancestors(c, n, None):
        if id(a) in ids:
            return True
    return False


def single_transaction_rules(c, R1='C21.no-inner-commit',
                             R2='C21.no-implicit-commit',
                             R3='C21.no-autocommit'):
    """Nothing but execute_queued_items' own commit ends a transaction of
    the DAO (shared with C20: a crash inside a batch must leave the previous
    committed state)."""
    for fn in ('CylcWorkflowDAO._execute_stmt', 'CylcWorkflowDAO.connect',
               'CylcWorkflowDAO.close'):
        f = c.func('rundb', fn)
        n = c.find(f, '_.commit()')
        c.ob(R1, f'{f.fq} :: no commit', not n,
             c.where(f.node, f), '')
    for f in c.idx.all_funcs():
        if f.mod == 'rundb' and f.cls is not None and f.cls.name == \
                'CylcDBTable':
            c.ob(R1, f'{f.fq} :: no commit',
                 not c.find(f, '_.commit()'), c.where(f.node, f), '')
    # implicit commits: `with <sqlite connection>:` commits on normal exit;
    # SQL text with COMMIT / END / BEGIN passed to execute
    dao = c.idx.cls('CylcWorkflowDAO', 'rundb')
    n_with = 0
    for f in dao.methods.values():
        c.funcs_seen.add(f.fq)
        aliases = {'self.conn', 'self.connect()'}
        for n in c.idx.walk(f.node):
            if isinstance(n, ast.Assign) and norm(n.value) in aliases | {
                    'sqlite3.connect'}:
                aliases.add(norm(n.targets[0]))
        for n in c.idx.walk(f.node):
            if isinstance(n, (ast.With, ast.AsyncWith)):
                for it in n.items:
                    n_with += 1
                    ce = norm(it.context_expr)
                    bad = ce in aliases or ce.startswith('sqlite3.connect(')
                    c.ob(R2,
                         f'{f.fq} :: with {ce[:60]}', not bad, c.where(n, f),
                         'not a connection context' if not bad else
                         'a sqlite3 connection used as a context manager '
                         'commits when the block exits: the batch is no '
                         'longer one transaction and rollback is a no-op')
            if isinstance(n, ast.Call) and isinstance(
                    n.func, ast.Attribute) and n.func.attr in (
                    'execute', 'executemany') and n.args and isinstance(
                    n.args[0], ast.Constant) and isinstance(
                        n.args[0].value, str):
                sql = n.args[0].value.strip().upper()
                bad = sql.startswith(('COMMIT', 'END', 'BEGIN', 'SAVEPOINT',
                                      'RELEASE'))
                if bad:
                    c.ob(R2, c.key(n, f), False,
                         c.where(n, f), f'explicit transaction control in '
                         f'SQL text: {sql[:30]}')
    c.ob(R2, 'rundb:CylcWorkflowDAO :: with-statements '
         'examined', True, '', f'{n_with} with-items in the DAO')
    # autocommit
    conns = c.find('rundb', 'sqlite3.connect(*_)')
    c.floor(R3, 'sqlite3.connect in rundb', len(conns), 1)
    for n in conns:
        kws = {k.arg for k in n.keywords}
        c.ob(R3, c.key(n), not (
            kws & {'isolation_level', 'autocommit'}), c.where(n),
            f'keywords {sorted(k for k in kws if k)}')
    iso = c.stores('rundb', 'isolation_level') + c.stores(
        'rundb', 'autocommit')
    c.ob(R3, 'rundb :: isolation_level/autocommit never '
         'assigned', not iso, '', '')


def check(c):
    ex = c.func('rundb', 'CylcWorkflowDAO.execute_queued_items')
    stmts = c.calls(ex, '_execute_stmt')
    c.floor('C21.one-transaction', '_execute_stmt call in '
            'execute_queued_items', len(stmts), 1)
    commits = c.find(ex, '_.commit()')
    c.exactly('C21.one-commit', 'commit() calls in execute_queued_items',
              len(commits), 1)
    tries = [n for n in ast.walk(ex.node) if isinstance(n, ast.Try)
             and any(_in_block(c, s, n.body) for s in stmts)]
    # outermost try containing the statements
    the_try = None
    for t in tries:
        if all(_in_block(c, s, t.body) for s in stmts):
            the_try = t
            break
    c.ob('C21.one-transaction', f'{ex.fq} :: all statements in one try',
         the_try is not None, c.where(ex.node, ex),
         'every _execute_stmt call of the batch is in the same try body'
         if the_try is not None else 'statements are spread over several '
         'try blocks / not in a try')
    if the_try is None:
        raise AnalysisError('execute_queued_items: transaction try not found')
    for s in stmts:
        in_loop = any(isinstance(a, (ast.For, ast.While))
                      for a in _ancestors(c, s, the_try))
        c.ob('C21.one-transaction', c.key(s, ex) + ' iterates the batch',
             in_loop, c.where(s, ex), '')
    for cm in commits:
        key = c.key(cm, ex)
        c.ob('C21.commit-after-loop', key + ' in the try body',
             _in_block(c, cm, the_try.body), c.where(cm, ex),
             'commit is part of the guarded transaction')
        in_loop = any(isinstance(a, (ast.For, ast.While))
                      for a in _ancestors(c, cm, ex.node))
        c.ob('C21.commit-after-loop', key + ' not inside a loop',
             not in_loop, c.where(cm, ex),
             'single commit for the whole batch' if not in_loop else
             'commit inside the statement loop: the batch is no longer one '
             'transaction')
        # every statement execution precedes the commit; commit is not
        # reachable before the loop has run
        cfg = c.cfg(ex)
        for s in stmts:
            loop = next((a for a in _ancestors(c, s, the_try)
                         if isinstance(a, (ast.For, ast.While))), None)
            if loop is not None:
                ok = cfg.path_exists(loop, c.idx.stmt_of(cm)) and not \
                    cfg.path_exists(c.idx.stmt_of(cm), loop)
                c.ob('C21.commit-after-loop', key + ' follows the loop', ok,
                     c.where(cm, ex), 'commit is after (and never before) '
                     'the statement loop')
    single_transaction_rules(c)
    # a batch the public DB refused stays queued in its DAO and is retried by
    # the next process_queued_ops(): the two execute_queued_items() calls
    # run on every call once the DAOs exist -- also when nothing new was
    # queued (quiet main-loop iterations, the last call before shutdown)
    pq = c.func('workflow_db_mgr',
                'WorkflowDatabaseManager.process_queued_ops')
    for dao in ('pri_dao', 'pub_dao'):
        ex_ = c.find(pq, f'self.{dao}.execute_queued_items()')
        c.floor('C21.retry', f'{pq.fq} :: self.{dao}.execute_queued_items()',
                len(ex_), 1)
        for n in ex_:
            c.guard_only('C21.retry', n, ['!(self.pri_dao is None)',
                                          '!(self.pub_dao is None)'], pq,
                         what='runs on every call (retry of a retained '
                         'public batch);')
    # a failed statement always reaches the handler of the batch: the
    # statement helper re-raises on every path of its own handler(s)
    es = c.func('rundb', 'CylcWorkflowDAO._execute_stmt')

    def always_raises(stmts):
        if not stmts:
            return False
        last = stmts[-1]
        if isinstance(last, ast.Raise):
            return True
        if isinstance(last, ast.If):
            return always_raises(last.body) and always_raises(last.orelse)
        return False
    hs = [h for n in ast.walk(es.node) if isinstance(n, ast.Try)
          for h in n.handlers]
    c.floor('C21.error-path', f'{es.fq} :: exception handlers', len(hs), 1)
    for h in hs:
        ok = always_raises(h.body) and not any(
            isinstance(x, ast.Return) for x in ast.walk(h))
        c.ob('C21.error-path', f'{es.fq} :: handler of '
             f'{norm(h.type) if h.type else "everything"} re-raises on every '
             'path', ok, c.where(h, es), '' if ok else 'a failed statement '
             'can return normally: the batch handler (rollback, keep the '
             'queue, count the try) is by-passed and the rest of the batch '
             'is committed')
    # error handling
    handlers = [h for h in the_try.handlers]
    sq = [h for h in handlers if h.type is not None and 'sqlite3.Error'
          in norm(h.type)]
    c.exactly('C21.error-path', 'sqlite3.Error handler of the transaction',
              len(sq), 1)
    for h in sq:
        raises = [n for n in ast.walk(h) if isinstance(n, ast.Raise)]
        c.floor('C21.error-path', 'raise in the handler', len(raises), 1)
        for r in raises:
            c.guard('C21.error-path', r, ['!self.is_public'], ex,
                    what='private DB failure propagates;')
        incs = [n for n in ast.walk(h) if isinstance(n, ast.AugAssign)
                and norm(n.target) == 'self.n_tries']
        c.floor('C21.error-path', 'n_tries += 1 in the handler', len(incs), 1)
        rb = c.find(h, '_.rollback()')
        c.floor('C21.error-path', 'rollback in the handler', len(rb), 1)
        # private: every path through the handler without raise is public
        # -> the handler's first conditional raise dominates n_tries += 1
        for i in incs:
            c.guard('C21.error-path', i, ['self.is_public'], ex,
                    what='only the public DB swallows the error;')
    clears = []
    for q in QUEUES:
        clears += c.find(ex, f'_.{q}.clear()')
        for st in c.stores(ex, q):
            if st.kind != 'call:clear':
                clears.append(st.node)
    c.floor('C21.queues-kept-on-failure', 'queue clears', len(clears), 3)
    for n in clears:
        ok = _in_block(c, n, the_try.orelse)
        c.ob('C21.queues-kept-on-failure', c.key(n, ex), ok, c.where(n, ex),
             'queue cleared only in the success (else) branch' if ok else
             'queue cleared outside the success branch: a failed batch '
             'would be lost / not retried')
    fin = c.find(ast.Module(body=the_try.finalbody, type_ignores=[]),
                 'self.close()')
    c.ob('C21.error-path', f'{ex.fq} :: finally closes the connection',
         bool(fin), c.where(the_try, ex), '')

    # who may commit
    allow = {
        'rundb:CylcWorkflowDAO.execute_queued_items',
        'rundb:CylcWorkflowDAO.create_tables',
        'workflow_db_mgr:WorkflowDatabaseManager.upgrade_pre_803',
        'workflow_db_mgr:WorkflowDatabaseManager.upgrade_pre_810',
    }
    allc = c.find(None, '_.commit()')
    c.floor('C21.commit-sites', 'commit() sites (positive control)',
            len(allc), 4)
    for n in allc:
        f = c.owner(n)
        fq = f.fq if f else '<module>'
        c.ob('C21.commit-sites', c.key(n, f), fq in allow, c.where(n, f),
             f'commit in {fq}')
    for n in c.find(None, '_.executescript(*_)'):
        f = c.owner(n)
        c.ob('C21.commit-sites', c.key(n, f), False, c.where(n, f),
             'executescript commits implicitly')

    # process_queued_ops: pairing and order
    pq = c.func('workflow_db_mgr', 'WorkflowDatabaseManager.process_queued_ops')
    pops = [n for n in ast.walk(pq.node) if isinstance(n, ast.Assign)
            and isinstance(n.value, ast.Call) and isinstance(
                n.value.func, ast.Attribute) and n.value.func.attr == 'pop']
    c.floor('C21.pri-pub-pairing', 'queue pops in process_queued_ops',
            len(pops), 3)
    for p in pops:
        item = norm(p.targets[0])
        block = None
        par = c.idx.parent[id(p)]
        for name in ('body', 'orelse'):
            b = getattr(par, name, None)
            if isinstance(b, list) and any(s is p for s in b):
                block = b
        mod = ast.Module(body=block or [], type_ignores=[])
        pri = [n for n in ast.walk(mod) if isinstance(n, ast.Call)
               and isinstance(n.func, ast.Attribute)
               and norm(n.func.value) == 'self.pri_dao'
               and n.args and norm(n.args[-1]) == item]
        pub = [n for n in ast.walk(mod) if isinstance(n, ast.Call)
               and isinstance(n.func, ast.Attribute)
               and norm(n.func.value) == 'self.pub_dao'
               and n.args and norm(n.args[-1]) == item]
        ok = (len(pri) == 1 and len(pub) == 1
              and pri[0].func.attr == pub[0].func.attr
              and [norm(a) for a in pri[0].args] == [
                  norm(a) for a in pub[0].args])
        c.ob('C21.pri-pub-pairing', c.key(p, pq), ok, c.where(p, pq),
             f'{item} queued to both DAOs with the same call' if ok else
             f'{item} is not queued identically to private and public DAO')
    pri_ex = c.find(pq, 'self.pri_dao.execute_queued_items()')
    pub_ex = c.find(pq, 'self.pub_dao.execute_queued_items()')
    c.exactly('C21.pri-before-pub', 'pri_dao.execute_queued_items()',
              len(pri_ex), 1)
    c.exactly('C21.pri-before-pub', 'pub_dao.execute_queued_items()',
              len(pub_ex), 1)
    for n in pub_ex:
        c.pre('C21.pri-before-pub', pq, n,
              c.matches('self.pri_dao.execute_queued_items()'),
              'private DB write')
    for n in pri_ex:
        c.post('C21.pri-before-pub', pq, n,
               c.matches('self.pub_dao.execute_queued_items()'),
               'public DB write')

    # recovery
    rec = c.func('workflow_db_mgr',
                 'WorkflowDatabaseManager.recover_pub_from_pri')
    cps = c.find(rec, 'self.copy_pri_to_pub()')
    c.floor('C21.recover', 'copy_pri_to_pub() in recover_pub_from_pri',
            len(cps), 1)
    for n in cps:
        c.guard('C21.recover', n,
                ['self.pub_dao.MAX_TRIES <= self.pub_dao.n_tries'], rec)
        c.guard_only('C21.recover', n,
                     ['self.pub_dao.MAX_TRIES <= self.pub_dao.n_tries'], rec)
        c.post('C21.recover', rec, n,
               lambda s: isinstance(s, ast.Assign) and norm(
                   s.targets[0]) == 'self.pub_dao.n_tries' and norm(
                   s.value) == '0', 'n_tries reset')
    mt = c.K.class_attr('CylcWorkflowDAO', 'MAX_TRIES')
    c.ob('C21.recover', 'rundb:CylcWorkflowDAO.MAX_TRIES is a positive int',
         isinstance(mt, int) and mt > 0, '', f'MAX_TRIES = {mt}')
    cp = c.func('workflow_db_mgr', 'WorkflowDatabaseManager.copy_pri_to_pub')
    cpy = c.find(cp, 'copy(self.pri_dao.db_file_name, _tmp)')
    ren = c.find(cp, 'os.rename(_tmp, self.pub_dao.db_file_name)')
    c.floor('C21.recover-atomic', 'copy(pri, temp)', len(cpy), 1)
    c.floor('C21.recover-atomic', 'os.rename(temp, pub)', len(ren), 1)
    if cpy and ren:
        c.ob('C21.recover-atomic', f'{cp.fq} :: same temp file',
             norm(cpy[0].args[1]) == norm(ren[0].args[0]), c.where(ren[0], cp),
             '')
        c.pre('C21.recover-atomic', cp, ren[0],
              c.matches('copy(self.pri_dao.db_file_name, _)'), 'copy to temp')
    hc = c.func('scheduler', 'Scheduler.database_health_check')
    c.always('C21.recover-called', hc, c.matches('_.recover_pub_from_pri()'),
             'recover_pub_from_pri()')
    ml = c.func('scheduler', 'Scheduler._main_loop')
    c.always('C21.recover-called', ml,
             c.matches('self.database_health_check()'),
             'database_health_check()')
    c.always('C21.recover-called', ml,
             c.matches('self.process_workflow_db_queue()'),
             'process_workflow_db_queue()')


VARIANTS = [
    ('no-retry-when-nothing-new-queued', 'cylc/flow/workflow_db_mgr.py',
     '''        # Record workflow parameters and tasks in pool
        # Record any broadcast settings to be dumped out
        if any(self.db_deletes_map.values()):''',
     '''        if not (any(self.db_deletes_map.values())
                or any(self.db_inserts_map.values())
                or any(self.db_updates_map.values())):
            return
        if any(self.db_deletes_map.values()):''', 'C21.retry'),
    ('public-failure-returns-false', 'cylc/flow/rundb.py',
     '''            if self.is_public:
                LOG.info(err_log)
            else:
                LOG.warning(err_log)
            raise
''', '''            LOG.info(err_log)
            return False
        return True
''', 'C21.error-path'),
    ('commit-in-loop', 'cylc/flow/rundb.py',
     '''                self._execute_stmt(stmt, stmt_args)
            # Connection''',
     '''                self._execute_stmt(stmt, stmt_args)
                if self.conn is not None:
                    self.conn.commit()
            # Connection''', 'C21.'),
    ('autocommit', 'cylc/flow/rundb.py',
     'self.db_file_name, timeout=self.CONN_TIMEOUT\n',
     'self.db_file_name, timeout=self.CONN_TIMEOUT, isolation_level=None\n',
     'C21.no-autocommit'),
    ('clear-in-finally', 'cylc/flow/rundb.py',
     '''            self.close()

    def _execute_stmt''',
     '''            self.close()
            for table in self.tables.values():
                table.insert_queue.clear()

    def _execute_stmt''', 'C21.queues-kept-on-failure'),
    ('swallow-private', 'cylc/flow/rundb.py',
     '''                        "transaction": pformat(sql_queue)
                    }
                )
                raise''',
     '''                        "transaction": pformat(sql_queue)
                    }
                )''', 'C21.error-path'),
    ('pub-only-insert', 'cylc/flow/workflow_db_mgr.py',
     '''                    self.pri_dao.add_update_item(table_name, db_update)
''', '', 'C21.pri-pub-pairing'),
    ('pub-first', 'cylc/flow/workflow_db_mgr.py',
     '''        self.pri_dao.execute_queued_items()
        self.pub_dao.execute_queued_items()''',
     '''        self.pub_dao.execute_queued_items()
        self.pri_dao.execute_queued_items()''', 'C21.pri-before-pub'),
    ('recover-never', 'cylc/flow/workflow_db_mgr.py',
     'if self.pub_dao.n_tries >= self.pub_dao.MAX_TRIES:',
     'if self.pub_dao.n_tries > self.pub_dao.MAX_TRIES:', 'C21.recover'),
    ('commit-in-stmt', 'cylc/flow/rundb.py',
     '            self.conn.executemany(stmt, stmt_args_list)\n',
     '            self.conn.executemany(stmt, stmt_args_list)\n'
     '            self.conn.commit()\n', 'C21.'),
    ('with-connection', 'cylc/flow/rundb.py',
     '''            self.connect()
            self.conn.executemany(stmt, stmt_args_list)''',
     '''            with self.connect() as conn:
                conn.executemany(stmt, stmt_args_list)''',
     'C21.no-implicit-commit'),
    ('benign-commit-guard', 'cylc/flow/rundb.py',
     '''            if self.conn is None:
                return
            self.conn.commit()''',
     '''            if self.conn is not None:
                self.conn.commit()''', None),
]

"""C04 Runahead limit is respected — release gate and limit computation."""
import ast

from sa.core import AnalysisError, norm
from sa.pat import AnyOf, StatusIn, StatusNotIn

TECHNIQUE = ('static analysis: allow-list of every runahead-release site with '
             'its dominating guard (operator-exact `point <= limit`), '
             'who-may-write the limit, CFG order of the future-offset and '
             'stop-point adjustments before the store, cache-read guards')

CLAUSES = (
    'Decided: a task leaves the runahead-limited state only at the listed '
    'sites: the release loop (point <= runahead_limit_point and is_runahead), '
    'restart of finished/manually-triggered tasks, forced output setting on '
    'non-waiting tasks, and expiry; the limit is stored only by '
    'compute_runahead (after the future-offset adjustment and then the '
    'stop-point clamp), set_stop_point (lowering it) and __init__; the cached '
    'sequence points are read only when not forced and the base point is '
    'unchanged, and are stored together with their base point; the cycle-count '
    'window agrees with the slice that picks the limit; recomputation is '
    'triggered by future-offset changes, reload, removal and every main-loop '
    'iteration before release; the pool-wide future offset is recomputed '
    'from get_tasks() after (never before) a task with such an offset is put '
    'into or deleted from active_tasks, and every change of membership sets '
    'active_tasks_changed before any method that reads the cached pool list '
    'is called; a task definition records its largest future offset for '
    'ICP-relative and point-relative triggers alike. '
    'Not decided: that the computed point equals '
    'the n-th recurrence point (sequence arithmetic), deadlock freedom.')

TP = 'task_pool'


def straight_line(c, a, b):
    from rules.C33 import straight_line as sl
    return sl(c, a, b)


def check(c):
    from rules._shared import pool_cache_rules
    pool_cache_rules(c, 'C04.pool-cache')
    # ---- every release site
    sites = c.find(None, '_.state_reset(*_, is_runahead=False)')
    table = [
        (f'{TP}:TaskPool.release_runahead_tasks',
         ['point <= self.runahead_limit_point', '_t.state.is_runahead'],
         'release below the limit'),
        (f'{TP}:TaskPool.load_db_task_pool_for_restart',
         [AnyOf(StatusIn('failed', 'succeeded', 'expired'),
                '_t.is_manual_submit')],
         'restart: finished / manually triggered tasks'),
        (f'{TP}:TaskPool._set_outputs_itask', [StatusNotIn('waiting')],
         'forced outputs: no longer waiting'),
    ]
    c.floor('C04.release-sites', 'state_reset(is_runahead=False) sites',
            len(sites), 3)
    c.allow_sites('C04.release-sites', sites, table,
                  'release from runahead limiting')
    # sites passing a non-constant is_runahead keyword
    for n in c.find(None, '_.state_reset(*_, is_runahead=_v)'):
        kw = {k.arg: k.value for k in n.keywords}
        v = kw['is_runahead']
        if isinstance(v, ast.Constant):
            continue
        f = c.owner(n)
        c.ob('C04.release-sites', c.key(n, f), False, c.where(n, f),
             f'is_runahead={norm(v)} is not a literal')
    # the release loop iterates tasks filtered from the whole pool
    rr = c.func(TP, 'TaskPool.release_runahead_tasks')
    comps = [n for n in ast.walk(rr.node) if isinstance(n, ast.ListComp)]
    ok = any(norm(g.iter) == 'self.active_tasks.items()'
             for cp in comps for g in cp.generators)
    c.ob('C04.release-sites', f'{rr.fq} :: candidates come from '
         'self.active_tasks.items() (point is the pool key)', ok,
         c.where(rr.node, rr), '')
    # direct stores to the flag
    c.who_writes('C04.flag-writers', 'is_runahead', {
        ('task_state:TaskState.__init__', 'assign'),
        ('task_state:TaskState.reset', 'assign'),
        ('task_proxy:TaskProxy.copy_to_reload_successor', 'assign'),
    }, floor=3)
    ts_init = c.func('task_state', 'TaskState.__init__')
    init = [s for s in c.stores(ts_init, 'is_runahead')]
    c.ob('C04.flag-writers', f'{ts_init.fq} :: new tasks start '
         'runahead-limited', len(init) == 1 and norm(init[0].value) == 'True',
         c.where(ts_init.node, ts_init), '')
    sr = c.func('task_proxy', 'TaskProxy.state_reset')
    for n in ast.walk(sr.node):
        if isinstance(n, ast.Assign) and norm(n.targets[0]) == 'is_runahead':
            c.guard('C04.release-sites', n, ["status == 'expired'"], sr,
                    what='expiry clears the flag;')

    # ---- limit computation
    cr = c.func(TP, 'TaskPool.compute_runahead')
    c.who_writes('C04.limit-writers', 'runahead_limit_point', {
        (f'{TP}:TaskPool.__init__', 'assign'),
        (f'{TP}:TaskPool.compute_runahead', 'assign'),
        (f'{TP}:TaskPool.set_stop_point', 'assign'),
    }, floor=3)
    ssp = c.func(TP, 'TaskPool.set_stop_point')
    for s in c.stores(ssp, 'runahead_limit_point'):
        c.guard('C04.limit-writers', s.node,
                ['self.runahead_limit_point is not None',
                 'stop_point < self.runahead_limit_point'], ssp)
        c.ob('C04.limit-writers', c.key(s.node, ssp) + ' value',
             norm(s.value) == 'stop_point', c.where(s.node, ssp), '')
    st = [s for s in c.stores(cr, 'runahead_limit_point')]
    c.exactly('C04.limit-store', 'stores in compute_runahead', len(st), 1)
    for s in st:
        lim = norm(s.value)
        clamp = [n for n in ast.walk(cr.node) if isinstance(n, ast.Assign)
                 and norm(n.targets[0]) == lim
                 and norm(n.value) == 'self.stop_point']
        c.floor('C04.stop-clamp', f'{lim} = self.stop_point', len(clamp), 1)
        for cl in clamp:
            c.guard('C04.stop-clamp', cl,
                    ['self.stop_point', f'self.stop_point < {lim}'], cr)
            c.guard_only('C04.stop-clamp', cl, [
                'self.stop_point', f'self.stop_point < {lim}',
                'base_point is not None', '!(base_point is None)',
                AnyOf('force', 'self.runahead_limit_point is None',
                      '!(base_point == self._prev_runahead_base_point)',
                      '!(self.runahead_limit_point == self.stop_point)'),
            ], cr)
        c.pre('C04.stop-clamp', cr, s.node,
              c.matches(f'self.stop_point < {lim}'),
              'stop-point clamp test')
        adj = [n for n in ast.walk(cr.node) if isinstance(n, ast.AugAssign)
               and norm(n.target) == lim and isinstance(n.op, ast.Add)
               and norm(n.value) == 'self.max_future_offset']
        c.floor('C04.future-offset', f'{lim} += self.max_future_offset',
                len(adj), 1)
        cfg = c.cfg(cr)
        for a in adj:
            c.guard('C04.future-offset', a,
                    ['self.max_future_offset is not None'], cr)
            c.pre('C04.future-offset', cr, s.node,
                  c.matches('self.max_future_offset is not None'),
                  'future-offset test')
            for cl in clamp:
                ok = cfg.path_exists(a, cl) and not cfg.path_exists(cl, a)
                c.ob('C04.stop-clamp', c.key(cl, cr) + ' after the '
                     'future-offset adjustment', ok, c.where(cl, cr),
                     'clamp is applied last' if ok else 'the future offset '
                     'is added after clamping: the limit can pass the stop '
                     'point')
    # cache
    reads = [n for n in ast.walk(cr.node) if isinstance(n, ast.Assign)
             and norm(n.value) == 'self._prev_runahead_sequence_points']
    c.floor('C04.cache', 'cache read', len(reads), 1)
    for r in reads:
        c.guard('C04.cache', r, [
            '!force', 'base_point == self._prev_runahead_base_point'], cr)
    sp = c.stores(cr, '_prev_runahead_sequence_points')
    bp = c.stores(cr, '_prev_runahead_base_point')
    c.floor('C04.cache', 'cache store', len(sp), 1)
    for s in sp:
        ok = any(straight_line(c, s.node, b.node) or straight_line(
            c, b.node, s.node) for b in bp if norm(b.value) == 'base_point')
        c.ob('C04.cache', c.key(s.node, cr) + ' stored together with its '
             'base point', ok, c.where(s.node, cr), '')
    for b in bp:
        if any(straight_line(c, s.node, b.node) or straight_line(
                c, b.node, s.node) for s in sp):
            continue
        c.guard('C04.cache', b.node,
                ['self._prev_runahead_base_point is None'], cr,
                what='initialisation only;')
    c.who_writes('C04.cache', '_prev_runahead_base_point', {
        (f'{TP}:TaskPool.__init__', 'assign'),
        (f'{TP}:TaskPool.compute_runahead', 'assign')}, floor=2)
    c.who_writes('C04.cache', '_prev_runahead_sequence_points', {
        (f'{TP}:TaskPool.__init__', 'assign'),
        (f'{TP}:TaskPool.compute_runahead', 'assign')}, floor=2)
    # early return does not skip forced recomputation
    rets = [n for n in ast.walk(cr.node) if isinstance(n, ast.Return)
            and norm(n.value) == 'False']
    for r in rets:
        if c.holds(r, 'base_point is None'):
            continue
        c.guard('C04.recompute', r, ['!force'], cr,
                what='skip only when not forced;')
    # window agreement
    # the generation loop stops exactly at the window: every `break` of the
    # `while seq_point is not None` loop is justified by one of the two
    # window tests, and each test is made under its own limit kind (one
    # break per kind, or one shared break behind a named flag -- same thing)
    count_alts = ['1 + ilimit < count', 'ilimit + 1 < count',
                  'ilimit + 2 <= count', '2 + ilimit <= count']
    wl = [n for n in ast.walk(cr.node) if isinstance(n, ast.While)
          and 'seq_point' in norm(n.test)]
    c.floor('C04.window', 'point-generation loop', len(wl), 1)
    brk = [n for lp in wl for n in ast.walk(lp) if isinstance(n, ast.Break)]
    c.floor('C04.window', 'break of the generation loop', len(brk), 1)
    for b in brk:
        c.guard('C04.window', b, [AnyOf(
            *count_alts, 'base_point + limit < seq_point')], cr,
            what='generation stops only past the window;')
    cmp_cnt = [n for a in count_alts for n in c.find(cr, a)]
    c.floor('C04.window', 'cycle-count window test', len(cmp_cnt), 1)
    for n in cmp_cnt:
        c.guard('C04.window', n, ['count_cycles'], cr)
    cmp_itv = c.find(cr, 'base_point + limit < seq_point')
    c.floor('C04.window', 'interval window test', len(cmp_itv), 1)
    for n in cmp_itv:
        c.guard('C04.window', n, ['!count_cycles'], cr)
    sl = c.find(cr, 'sorted(sequence_points)[:ilimit + 1][-1]') + c.find(
        cr, 'sorted(sequence_points)[:1 + ilimit][-1]') + c.find(
        cr, 'sorted(sequence_points)[ilimit]')
    c.floor('C04.window', 'limit = sorted(points)[:ilimit + 1][-1]',
            len(sl), 1)
    for n in sl:
        c.guard('C04.window', n, ['count_cycles'], cr)
    adds =c.find(cr, 'sequence_points.add(seq_point)')
    c.floor('C04.window', 'sequence_points.add', len(adds), 1)
    inc = [n for n in ast.walk(cr.node) if isinstance(n, ast.AugAssign)
           and norm(n.target) == 'count']
    c.ob('C04.window', f'{cr.fq} :: count starts at 1, += 1 per point',
         len(inc) == 1 and norm(inc[0].value) == '1' and any(
             isinstance(n, ast.Assign) and norm(n.targets[0]) == 'count'
             and norm(n.value) == '1' for n in ast.walk(cr.node)),
         c.where(cr.node, cr), '')

    # ---- recomputation triggers
    smf = c.func(TP, 'TaskPool.set_max_future_offset')
    rc = c.find(smf, 'self.compute_runahead(force=True)')
    c.floor('C04.recompute', 'compute_runahead(force=True) in '
            'set_max_future_offset', len(rc), 1)
    for n in rc:
        c.guard_only('C04.recompute', n, ['!(max_offset == orig)'], smf)
    # "the largest future-trigger offset among pooled tasks": the maximum is
    # taken over the pool as it is *after* the membership change -- it is
    # recomputed from get_tasks() right after a task with such an offset was
    # put into, or taken out of, active_tasks (before, the task that leaves
    # would still be counted and the limit would keep its offset for ever)
    scans = [lp for lp in ast.walk(smf.node) if isinstance(
        lp, (ast.For, ast.comprehension)) and norm(lp.iter) ==
        'self.get_tasks()']
    c.floor('C04.future-offset', 'set_max_future_offset scans '
            'self.get_tasks()', len(scans), 1)
    c.floor('C04.future-offset', 'self.max_future_offset = max_offset',
            len([n for n in ast.walk(smf.node) if isinstance(n, ast.Assign)
                 and norm(n.targets[0]) == 'self.max_future_offset'
                 and norm(n.value) == 'max_offset']), 1)
    from rules._shared import pool_membership_change
    changes = pool_membership_change(c)

    def joins(s):
        return isinstance(s, ast.Assign) and changes(s)

    def leaves(s):
        return isinstance(s, ast.Delete) and changes(s)
    for fq, change, what in (
            (f'{TP}:TaskPool.add_to_pool', joins, 'the task is put into '
             'active_tasks'),
            (f'{TP}:TaskPool.remove', leaves, 'the task is deleted from '
             'active_tasks')):
        f = c.func(*fq.split(':'))
        calls = c.find(f, 'self.set_max_future_offset()')
        c.floor('C04.future-offset', f'set_max_future_offset() in {fq}',
                len(calls), 1)
        for n in calls:
            c.pre('C04.future-offset', f, n, change, what)
            c.guard_only('C04.future-offset', n, [
                '!(itask.tdef.max_future_prereq_offset is None)',
                '!(itask.identity in _)'], f)
        muts = [s for s in ast.walk(f.node) if change(s)]
        c.floor('C04.future-offset', f'{what} ({fq})', len(muts), 1)
        tests = [i.test for i in ast.walk(f.node) if isinstance(i, ast.If)
                 and any(x in calls for b in i.body for x in ast.walk(b))]
        for s in muts:
            # ... and on every normal path from the change the offset test
            # (and, under it, the recomputation) is reached
            c.post('C04.future-offset', f, s, lambda n: any(
                n is t for t in tests), 'the future-offset recomputation')
    # ... and a task definition's own largest future offset is recorded for
    # every trigger whose upstream point lies after the task's point --
    # whether the offset is written relative to the task's point or to the
    # initial cycle point
    gpq = c.func('task_trigger', 'Dependency.get_prerequisite')
    mfs = [n for n in ast.walk(gpq.node) if isinstance(n, ast.Assign)
           and norm(n.targets[0]) == 'tdef.max_future_prereq_offset']
    c.floor('C04.future-offset', f'{gpq.fq} :: tdef.max_future_prereq_offset '
            'recorded', len(mfs), 1)
    for n in mfs:
        c.guard('C04.future-offset', n, ['point < prereq_offset_point'], gpq)
        c.guard_only('C04.future-offset', n, [
            'point < prereq_offset_point',
            '!(prereq_offset_point < tdef.initial_point)',
            '!(task_trigger.cycle_point_offset is None)',
            AnyOf('tdef.max_future_prereq_offset is None',
                  'tdef.max_future_prereq_offset < prereq_offset')], gpq,
            what='for ICP-relative and point-relative offsets alike;')
    c.who_calls('C04.future-offset', 'set_max_future_offset', {
        f'{TP}:TaskPool.add_to_pool': [], f'{TP}:TaskPool.remove': []},
        floor=2)
    rl = c.func('commands', 'reload_workflow')
    c.floor('C04.recompute', 'compute_runahead(force=True) on reload',
            len(c.find(rl, '_.pool.compute_runahead(force=True)')), 1)
    ml = c.func('scheduler', 'Scheduler._main_loop')
    c.always('C04.recompute', ml, c.matches('self.pool.compute_runahead()'),
             'compute_runahead()')
    c.always('C04.recompute', ml,
             c.matches('self.pool.release_runahead_tasks()'),
             'release_runahead_tasks()')
    rel = c.find(ml, 'self.pool.release_runahead_tasks()')
    for n in rel:
        c.pre('C04.recompute', ml, n,
              c.matches('self.pool.compute_runahead()'), 'compute_runahead')
    sd = c.find(ml, 'self.workflow_shutdown()')
    for n in sd:
        c.pre('C04.recompute', ml, n,
              c.matches('self.pool.release_runahead_tasks()'),
              'release_runahead_tasks')
    # manual trigger exemption does not go through the release gate
    qr = c.func(TP, 'TaskPool.queue_if_ready')
    for n in c.calls(qr, 'queue_task'):
        c.guard('C04.queue-gate', n, [
            '!_t.state.is_runahead', '!_t.is_manual_submit'], qr)


VARIANTS = [
    ('flag-after-offset-scan', 'cylc/flow/task_pool.py',
     '''        self.active_tasks[itask.point][itask.identity] = itask
        self.active_tasks_changed = True
        LOG.debug(f"[{itask}] added to the n=0 window")

        self.create_data_store_elements(itask)

        if itask.tdef.max_future_prereq_offset is not None:
            # (Must do this once added to the pool).
            self.set_max_future_offset()
''', '''        self.active_tasks[itask.point][itask.identity] = itask
        LOG.debug(f"[{itask}] added to the n=0 window")

        self.create_data_store_elements(itask)

        if itask.tdef.max_future_prereq_offset is not None:
            # (Must do this once added to the pool).
            self.set_max_future_offset()
        self.active_tasks_changed = True
''', 'C04.pool-cache'),
    ('removal-keeps-cache', 'cylc/flow/task_pool.py',
     '''            self.tasks_removed = True
            self.active_tasks_changed = True
''', '''            self.tasks_removed = True
''', 'C04.pool-cache'),
    ('offset-before-removal', 'cylc/flow/task_pool.py',
     '''        msg = f"removed from the n=0 window: {reason or 'completed'}"
''', '''        if itask.tdef.max_future_prereq_offset is not None:
            self.set_max_future_offset()
        msg = f"removed from the n=0 window: {reason or 'completed'}"
''', 'C04.future-offset'),
    ('offset-not-on-removal', 'cylc/flow/task_pool.py',
     '''            self.task_queue_mgr.remove_task(itask)
            if itask.tdef.max_future_prereq_offset is not None:
                self.set_max_future_offset()
''', '''            self.task_queue_mgr.remove_task(itask)
''', 'C04.future-offset'),
    ('offset-before-add', 'cylc/flow/task_pool.py',
     '''        self.active_tasks[itask.point][itask.identity] = itask
        self.active_tasks_changed = True
''', '''        if itask.tdef.max_future_prereq_offset is not None:
            self.set_max_future_offset()
        self.active_tasks[itask.point][itask.identity] = itask
        self.active_tasks_changed = True
''', 'C04.future-offset'),
    ('offset-over-config', 'cylc/flow/task_pool.py',
     '''        for itask in self.get_tasks():
            if (
                itask.tdef.max_future_prereq_offset is not None''',
     '''        for itask in self.get_tasks()[:-1]:
            if (
                itask.tdef.max_future_prereq_offset is not None''',
     'C04.future-offset'),
    ('release-lt', 'cylc/flow/task_pool.py',
     '            if point <= self.runahead_limit_point\n',
     '            if point < self.runahead_limit_point\n',
     'C04.release-sites'),
    ('release-all', 'cylc/flow/task_pool.py',
     '            if point <= self.runahead_limit_point\n', '',
     'C04.release-sites'),
    ('new-release-site', 'cylc/flow/task_pool.py',
     '''        if itask.state_reset(is_held=True):
            self.data_store_mgr.delta_task_state(itask)''',
     '''        if itask.state_reset(is_held=True, is_runahead=False):
            self.data_store_mgr.delta_task_state(itask)''',
     'C04.release-sites'),
    ('no-clamp', 'cylc/flow/task_pool.py',
     '        if self.stop_point and limit_point > self.stop_point:',
     '        if self.stop_point and limit_point < self.stop_point:',
     'C04.stop-clamp'),
    ('offset-after-clamp', 'cylc/flow/task_pool.py',
     '''        LOG.debug(f"Runahead limit: {limit_point}")
        self.runahead_limit_point = limit_point''',
     '''        if self.max_future_offset is not None:
            limit_point += self.max_future_offset
        self.runahead_limit_point = limit_point''',
     'C04.stop-clamp'),
    ('stale-cache', 'cylc/flow/task_pool.py',
     '''            not force
            and self._prev_runahead_sequence_points
            and base_point == self._prev_runahead_base_point''',
     '''            not force
            and self._prev_runahead_sequence_points''', 'C04.cache'),
    ('window-off-by-one', 'cylc/flow/task_pool.py',
     '                        if count > 1 + ilimit:',
     '                        if count > 2 + ilimit:', 'C04.window'),
    ('no-force-on-offset', 'cylc/flow/task_pool.py',
     '''        if max_offset != orig:
            self.compute_runahead(force=True)''',
     '''        if max_offset != orig:
            self.compute_runahead()''', 'C04.recompute'),
    ('release-before-compute', 'cylc/flow/scheduler.py',
     '''        self.pool.compute_runahead()
        self.pool.release_runahead_tasks()
        # If applicable''',
     '''        self.pool.release_runahead_tasks()
        self.pool.compute_runahead()
        # If applicable''', 'C04.recompute'),
    ('benign-flip', 'cylc/flow/task_pool.py',
     '            if point <= self.runahead_limit_point\n',
     '            if self.runahead_limit_point >= point\n', None),
]

"""C45 Absolute-trigger outputs satisfy every dependent instance."""
import ast

from sa.core import AnalysisError, norm
from sa.pat import AnyOf

TECHNIQUE = ('static analysis: guard dominance and CFG post-dominance around '
             'the absolute-output record (memory, DB, flush), pool-wide '
             'satisfaction under the is_abs branch, spawn-time replay from '
             'the store, writer/schema/reader agreement for absolute_outputs')

CLAUSES = (
    'Decided: when an output with an absolute-offset child completes, '
    'spawn_on_output records (point, name, output) in abs_outputs_done, '
    'queues the DB insert and flushes it; under is_abs every pool instance '
    'of the child name is satisfied (id_match with cycle "*"), not just the '
    'listed child; a newly spawned task with absolute triggers and '
    'unsatisfied prerequisites is satisfied from the whole store; restart '
    'reloads the store from the absolute_outputs table whose writer keys, '
    'schema and reader unpack agree; a task definition is flagged '
    'has_abs_triggers when any trigger is absolute or from the initial '
    'point. Not decided: instances spawned over arbitrary histories.')

TP = 'task_pool'


def check(c):
    so = c.func(TP, 'TaskPool.spawn_on_output')
    adds = c.find(so, 'self.abs_outputs_done.add((str(itask.point), '
                  'itask.tdef.name, output))')
    c.exactly('C45.record', 'abs_outputs_done.add((point, name, output))',
              len(adds), 1)
    for a in adds:
        c.guard('C45.record', a, ['is_abs'], so)
        lp = a
        while id(lp) in c.idx.parent and not isinstance(lp, ast.For):
            lp = c.idx.parent[id(lp)]
        c.guard_only('C45.record', a, ['is_abs'], so, stop=lp)
        c.post('C45.record', so, a, c.matches(
            'self.workflow_db_mgr.put_insert_abs_output(str(itask.point), '
            'itask.tdef.name, output)'), 'put_insert_abs_output(...)')
        ins = c.find(so, 'self.workflow_db_mgr.put_insert_abs_output(*_)')
        for i in ins:
            c.post('C45.record', so, i, c.matches(
                'self.workflow_db_mgr.process_queued_ops()'),
                'process_queued_ops()')
    # the loop variable is_abs comes from the children tuples
    loops = [n for n in c.idx.walk(so.node) if isinstance(n, ast.For)
             and norm(n.iter) == 'children']
    ok = any(isinstance(lp.target, ast.Tuple) and len(lp.target.elts) == 3
             and norm(lp.target.elts[2]) == 'is_abs' for lp in loops)
    c.ob('C45.record', f'{so.fq} :: for c_name, c_point, is_abs in children',
         ok, c.where(so.node, so), '')
    # pool-wide satisfaction
    im = c.find(so, "self.id_match({TaskTokens(cycle='*', task=c_name)}, "
                "only_match_pool=True)")
    c.exactly('C45.all-instances', "id_match(cycle='*', task=c_name)",
              len(im), 1)
    for n in im:
        c.guard('C45.all-instances', n, ['is_abs', 'c_task is not None'], so)
    gi = [n for n in c.idx.walk(so.node) if isinstance(n, ast.Assign)
          and norm(n.targets[0]) == 'tasks'
          and norm(n.value) == 'self.get_itasks(matched)']
    c.floor('C45.all-instances', 'tasks = self.get_itasks(matched)',
            len(gi), 1)
    for n in gi:
        c.guard('C45.all-instances', n, ['is_abs'], so)
    from rules._shared import resolved
    # (the message list may be built once in front of the loop over tasks)
    sat = [n for n in c.find(so, 't.satisfy_me(_, mode=itask.run_mode)')
           if norm(resolved(c, so, n.args[0], n)) ==
           '[itask.tokens.duplicate(task_sel=output)]']
    c.exactly('C45.all-instances', 'satisfy_me for every matched task',
              len(sat), 1)
    for s in sat:
        lp = c.idx.parent[id(c.idx.stmt_of(s))]
        c.ob('C45.all-instances', c.key(s, so) + ' in `for t in tasks`',
             isinstance(lp, ast.For) and norm(lp.iter) == 'tasks' and norm(
                 lp.target) == 't', c.where(s, so), '')
        c.guard_only('C45.all-instances', s, [], so, stop=lp)
    # spawn-time replay
    st = c.func(TP, 'TaskPool.spawn_task')
    rp = [n for n in c.calls(st, 'satisfy_me')
          if 'self.abs_outputs_done' in norm(n)]
    c.exactly('C45.replay', 'satisfy_me(from abs_outputs_done)', len(rp), 1)
    for n in rp:
        c.guard('C45.replay', n, ['itask.tdef.has_abs_triggers'], st)
        c.guard_only('C45.replay', n, [
            'itask.tdef.has_abs_triggers',
            'itask.state.prerequisites_are_not_all_satisfied()',
            '!itask.transient',
            # a task with a prerequisite beyond the stop point is not
            # spawned at all (early `return None`, loop or any() form)
            'self.stop_point', 'itask.point <= self.stop_point',
            'any(_)'], st, stop=_nt_block(c, n))
        arg = n.args[0]
        ok = (isinstance(arg, ast.ListComp) and norm(
            arg.generators[0].iter) == 'self.abs_outputs_done'
            and not arg.generators[0].ifs and norm(arg.elt) ==
            'Tokens(cycle=cycle, task=task, task_sel=output)'
            and norm(arg.generators[0].target) in (
                'cycle, task, output', '(cycle, task, output)'))
        c.ob('C45.replay', c.key(n, st) + ' replays the whole store', ok,
             c.where(n, st), '')
    # writers of the store
    c.who_writes('C45.store-writers', 'abs_outputs_done', {
        (f'{TP}:TaskPool.__init__', 'assign'),
        (f'{TP}:TaskPool.spawn_on_output', 'call:add'),
        (f'{TP}:TaskPool.load_abs_outputs_for_restart', 'call:add'),
    }, floor=3)
    # restart
    lp = c.func('scheduler', 'Scheduler._load_pool_from_db')
    c.always('C45.restart', lp, c.matches(
        'self.workflow_db_mgr.pri_dao.select_abs_outputs_for_restart('
        'self.pool.load_abs_outputs_for_restart)'),
        'select_abs_outputs_for_restart(load_abs_outputs_for_restart)')
    ld = c.func(TP, 'TaskPool.load_abs_outputs_for_restart')
    un = [n for n in c.idx.walk(ld.node) if isinstance(n, ast.Assign)
          and isinstance(n.targets[0], ast.Tuple)]
    cols = [norm(e) for e in un[0].targets[0].elts] if un else []
    add = c.find(ld, 'self.abs_outputs_done.add((cycle, name, output))')
    c.ob('C45.restart', f'{ld.fq} :: row unpacked as (cycle, name, output) '
         'and added in that order', cols == ['cycle', 'name', 'output']
         and len(add) == 1, c.where(ld.node, ld), f'unpack {cols}')
    sel = c.func('rundb', 'CylcWorkflowDAO.select_abs_outputs_for_restart')
    sql = ' '.join(s.value for s in c.idx.walk(sel.node)
                   if isinstance(s, ast.Constant) and isinstance(
                       s.value, str))
    import re
    m = re.search(r'SELECT\s+(.*?)\s+FROM', sql, re.S)
    scols = [x.strip() for x in m.group(1).split(',')] if m else []
    c.ob('C45.restart', f'{sel.fq} :: SELECT cycle, name, output',
         scols == ['cycle', 'name', 'output'], c.where(sel.node, sel),
         f'selected {scols}')
    ta = c.K.class_attr('CylcWorkflowDAO', 'TABLES_ATTRS')
    tname = c.K.class_attr('CylcWorkflowDAO', 'TABLE_ABS_OUTPUTS')
    schema = [x[0] for x in ta.get(tname, [])] if isinstance(ta, dict) else []
    c.ob('C45.restart', 'rundb: absolute_outputs schema = cycle, name, output',
         schema == ['cycle', 'name', 'output'], '', f'schema {schema}')
    # each (cycle, name, output) triple is its own row (INSERT OR REPLACE)
    from rules.C19 import primary_keys
    primary_keys(c, 'C45.restart', only=[tname])
    pi = c.func('workflow_db_mgr',
                'WorkflowDatabaseManager.put_insert_abs_output')
    dicts = [n for n in c.idx.walk(pi.node) if isinstance(n, ast.Dict)]
    got = {}
    for d in dicts:
        got = {k.value: norm(v) for k, v in zip(d.keys, d.values)
               if isinstance(k, ast.Constant)}
    c.ob('C45.restart', f'{pi.fq} :: writer keys match the schema',
         got == {'cycle': 'str(cycle)', 'name': 'name', 'output': 'output'},
         c.where(pi.node, pi), str(got))
    # flag
    ad = c.func('taskdef', 'TaskDef.add_dependency')
    sets = [s for s in c.stores(ad, 'has_abs_triggers')
            if norm(s.value) == 'True']
    c.floor('C45.flag', 'has_abs_triggers = True', len(sets), 1)
    for s in sets:
        ok = False
        for f in c.facts(s.node):
            if f[0] == 'atom' and f[2]:
                ac = c.any_condition(f[1])
                if ac and norm(ac[1]) == 'dependency.task_triggers' and \
                        c.case_covered(ac[0], ['_.offset_is_from_icp']) and \
                        c.case_covered(ac[0], ['_.offset_is_absolute']):
                    ok = True
        c.ob('C45.flag', c.key(s.node, ad) + ' ⟸ any trigger absolute or '
             'from ICP', ok, c.where(s.node, ad), '')
    ggc = c.func('taskdef', 'generate_graph_children')
    ia = [n for n in c.idx.walk(ggc.node) if isinstance(n, ast.Assign)
          and norm(n.targets[0]) == 'is_abs']
    ok = len(ia) == 1 and c.case_covered(
        ia[0].value, ['_.offset_is_absolute']) and c.case_covered(
        ia[0].value, ['_.offset_is_from_icp'])
    c.ob('C45.flag', f'{ggc.fq} :: is_abs = offset_is_absolute or '
         'offset_is_from_icp', ok, c.where(ggc.node, ggc), '')


def _nt_block(c, h):
    cur = h
    while id(cur) in c.idx.parent:
        cur = c.idx.parent[id(cur)]
        if isinstance(cur, ast.If) and c.find(cur.test,
                                              'not itask.transient'):
            return cur
    return None


VARIANTS = [
    ('no-db-record', 'cylc/flow/task_pool.py',
     '''                self.workflow_db_mgr.put_insert_abs_output(
                    str(itask.point), itask.tdef.name, output)
                self.workflow_db_mgr.process_queued_ops()''',
     '''                self.workflow_db_mgr.process_queued_ops()''',
     'C45.record'),
    ('only-listed-child', 'cylc/flow/task_pool.py',
     '''                    tasks = self.get_itasks(matched)
                    if c_task not in tasks:
                        tasks.append(c_task)''',
     '''                    tasks = [c_task]''', 'C45.all-instances'),
    ('replay-only-same-cycle', 'cylc/flow/task_pool.py',
     '''                    for cycle, task, output in self.abs_outputs_done
                ])''',
     '''                    for cycle, task, output in self.abs_outputs_done
                    if cycle == str(itask.point)
                ])''', 'C45.replay'),
    ('no-restart-load', 'cylc/flow/scheduler.py',
     '''        self.workflow_db_mgr.pri_dao.select_abs_outputs_for_restart(
            self.pool.load_abs_outputs_for_restart)
''', '', 'C45.restart'),
    ('swapped-columns', 'cylc/flow/rundb.py',
     '''            SELECT
                cycle, name, output
            FROM
                {self.TABLE_ABS_OUTPUTS}''',
     '''            SELECT
                name, cycle, output
            FROM
                {self.TABLE_ABS_OUTPUTS}''', 'C45.restart'),
    ('flag-only-absolute', 'cylc/flow/taskdef.py',
     '''            trig.offset_is_from_icp or
            trig.offset_is_absolute
            for trig in dependency.task_triggers''',
     '''            trig.offset_is_absolute
            for trig in dependency.task_triggers''', 'C45.flag'),
    ('record-after-match-only', 'cylc/flow/task_pool.py',
     '''            if is_abs:
                self.abs_outputs_done.add(''',
     '''            if is_abs and itask.flow_nums == {1}:
                self.abs_outputs_done.add(''', 'C45.record'),
]

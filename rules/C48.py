"""C48 Installed run directories are numbered and runN tracks the latest."""
import ast

from sa.core import AnalysisError, norm
from sa.pat import AnyOf

TECHNIQUE = ('static analysis: CFG dominance of every filesystem effect of '
             'install_workflow by the `rundir.exists()` refusal, reaching '
             'definitions of the run number and run directory in the numbered '
             'branch, unlink/relink pairing of runN across get_run_dir_info '
             'and install_workflow, who-may-call allow-lists of the numbering '
             'and runN helpers, source-monotonicity of the next run number '
             '(number sources vs. what clean removes)')

CLAUSES = (
    'Decided: install_workflow refuses (raises) when the target run '
    'directory exists before any symlink, mkdir, runN link or rsync; the '
    'numbered branch of get_run_dir_info takes the number from '
    'get_next_rundir_number, builds the directory from that same number, '
    'unlinks runN and requests a relink, and install_workflow relinks runN to '
    'exactly the directory it installs into whenever a relink was requested '
    '(and only then); link_runN links <parent>/runN to the run\'s own name; '
    'get_next_rundir_number returns last+1 where last is the number the '
    'runN link points at or, without a link, the maximum over existing '
    'run<N> directories (default 0); only install code calls these helpers '
    '(reinstall never renumbers or relinks); the install rsync is never '
    'given --delete. Reported (known finding): the fallback number source is '
    'the directory listing, which `cylc clean` shrinks together with the runN '
    'link, so a cleaned latest run number is reused. Not decided: behaviour '
    'over whole install/clean histories, concurrent installs.')

INS = 'install'
PU = 'pathutil'


def check(c):
    iw = c.func(INS, 'install_workflow')
    cfg = c.cfg(iw)
    # ---- (1) never overwrite an existing run directory
    refusals = [n for n in c.idx.walk(iw.node) if isinstance(n, ast.If)
                and norm(n.test) == 'rundir.exists()'
                and any(isinstance(s, ast.Raise) for s in n.body)
                and not n.orelse]
    c.exactly('C48.no-overwrite', '`if rundir.exists(): raise`',
              len(refusals), 1)
    effects = []
    for pattern, what in (
            ('make_localhost_symlinks(rundir, *_)', 'symlink creation'),
            ('rundir.mkdir(*_)', 'mkdir of the run directory'),
            ('link_runN(rundir)', 'runN relink'),
            ('Popen(rsync_cmd, *_)', 'rsync into the run directory'),
            ('_get_logger(rundir, *_)', 'install log creation'),
            ('source_link.symlink_to(_)', 'source symlink')):
        sites = c.find(iw, pattern)
        c.floor('C48.no-overwrite', f'{what} in install_workflow',
                len(sites), 1)
        effects += [(s, what) for s in sites]
    for ref in refusals:
        c.ob('C48.no-overwrite', c.key(ref, iw) + ' body always raises',
             isinstance(ref.body[-1], ast.Raise), c.where(ref, iw), '')
        for s, what in effects:
            ok = cfg.dominated_by(c.idx.stmt_of(s), lambda x, r=ref: x is r)
            c.ob('C48.no-overwrite', c.key(s, iw) + ' after the existing-'
                 'directory refusal', ok, c.where(s, iw),
                 f'{what} ' + ('only after `rundir.exists()` was found false'
                               if ok else 'can run although the run directory '
                               'already exists: an existing run is '
                               'overwritten'))
        # rundir is not re-bound between the refusal and the effects
        rebinds = [n for n in c.idx.walk(iw.node) if isinstance(
            n, (ast.Assign, ast.AugAssign, ast.AnnAssign)) and any(
            isinstance(t, ast.Name) and t.id == 'rundir' and isinstance(
                t.ctx, ast.Store) for t in ast.walk(n))]
        for rb in rebinds:
            ok = not cfg.path_exists(ref, rb)
            c.ob('C48.no-overwrite', c.key(rb, iw) + ' [rundir bound before '
                 'the refusal]', ok, c.where(rb, iw), '')
        c.floor('C48.no-overwrite', 'bindings of rundir', len(rebinds), 1)
    mk = c.find(iw, 'rundir.mkdir(*_)')
    rs = c.find(iw, 'get_rsync_rund_cmd(*_)')
    c.floor('C48.no-overwrite', 'get_rsync_rund_cmd in install_workflow',
            len(rs), 1)
    for n in rs:
        kw = {k.arg: norm(k.value) for k in n.keywords}
        ok = norm(n.args[1]) == 'rundir' and kw.get(
            'reinstall', 'False') == 'False' and len(n.args) <= 2
        c.ob('C48.no-overwrite', c.key(n, iw) + ' installs into rundir, not '
             'as a reinstall', ok, c.where(n, iw), '')
    gr = c.func(INS, 'get_rsync_rund_cmd')
    dele = [n for n in c.idx.walk(gr.node) if isinstance(n, ast.Constant)
            and isinstance(n.value, str) and n.value.startswith('--delete')]
    c.floor('C48.no-overwrite', "'--delete' option site", len(dele), 1)
    for n in dele:
        c.guard('C48.no-overwrite', n, ['reinstall'], gr,
                what='rsync deletes only on reinstall;')
    opts = c.K.mod_attr_node(INS, 'DEFAULT_RSYNC_OPTS')
    if opts is not None:
        v = c.fold(opts)
        c.ob('C48.no-overwrite', 'install:DEFAULT_RSYNC_OPTS has no delete '
             'option', isinstance(v, (list, tuple)) and not any(
                 str(o).startswith('--delete') or str(o).startswith('--remove')
                 for o in v), c.where(opts), str(v))

    # ---- (2) numbered branch of get_run_dir_info
    gi = c.func(INS, 'get_run_dir_info')
    nums = [n for n in c.idx.walk(gi.node) if isinstance(n, ast.Assign)
            and norm(n.targets[0]) == 'run_num'
            and not norm(n.value) == 'None']
    c.exactly('C48.numbering', 'run_num definition', len(nums), 1)
    for n in nums:
        c.ob('C48.numbering', c.key(n, gi) + ' from get_next_rundir_number',
             norm(n.value) == 'get_next_rundir_number(run_path_base)',
             c.where(n, gi), norm(n.value))
        c.guard('C48.numbering', n, ['!no_run_name', '!run_name'], gi)
    dirs = [n for n in c.idx.walk(gi.node) if isinstance(n, ast.Assign)
            and norm(n.targets[0]) == 'rundir']
    numbered = [n for n in dirs if c.holds(n, '!no_run_name')
                and c.holds(n, '!run_name')]
    c.exactly('C48.numbering', 'rundir definition in the numbered branch',
              len(numbered), 1)
    cg = c.cfg(gi)
    for n in numbered:
        ok = norm(n.value) in (
            "Path(run_path_base, f'run{run_num}')",
            "run_path_base.joinpath(f'run{run_num}')",
            "run_path_base / f'run{run_num}'")
        c.ob('C48.numbering', c.key(n, gi) + ' is run<run_num> under the '
             'workflow directory', ok, c.where(n, gi), norm(n.value))
        for d in nums:
            c.ob('C48.numbering', c.key(n, gi) + ' after the number is taken',
                 cg.dominated_by(n, lambda s, d=d: s is d), c.where(n, gi), '')
    # a relink is requested by `relink = True` (the flag is what is
    # returned) or by a return whose first element is the literal True
    ret = [r for r in c.idx.walk(gi.node) if isinstance(r, ast.Return)]

    def elts(r):
        return r.value.elts if isinstance(r.value, ast.Tuple) and len(
            r.value.elts) == 3 else None

    def lit(e, v):
        return isinstance(e, ast.Constant) and e.value is v
    true_rets = [r for r in ret if elts(r) and lit(elts(r)[0], True)]
    for r in ret:
        e = elts(r)
        ok = e is not None and (norm(e[0]) == 'relink' or lit(e[0], True)
                                or lit(e[0], False)) \
            and norm(e[1]) in ('run_num', 'None') \
            and norm(e[2]) in ('rundir', 'run_path_base')
        if ok and not lit(e[0], False):
            # (where a relink may be requested the number and the numbered
            # directory are what is handed back)
            ok = norm(e[1]) == 'run_num' and norm(e[2]) == 'rundir'
        c.ob('C48.runN', c.key(r, gi) + ' returns (relink, run_num, rundir)',
             ok, c.where(r, gi), '')
    rel = [n for n in c.idx.walk(gi.node) if isinstance(n, ast.Assign)
           and norm(n.targets[0]) == 'relink' and norm(n.value) == 'True']
    c.exactly('C48.runN', 'relink request (relink = True / return (True, ..))',
              len(rel) + len(true_rets), 1)
    for n in rel + true_rets:
        c.guard('C48.runN', n, ['!no_run_name', '!run_name'], gi,
                what='runN is only managed for numbered runs;')
        c.pre('C48.runN', gi, n, c.matches('unlink_runN(run_path_base)'),
              'unlink_runN(run_path_base)')
    un = c.find(gi, 'unlink_runN(_)')
    for n in un:
        # the old link is removed only when a relink is then requested
        c.post('C48.runN', gi, n, lambda s: any(s is x for x in rel) or any(
            s is r.value for r in true_rets), 'relink = True')
    # install_workflow unpacks in the same order and relinks
    unp = [n for n in c.idx.walk(iw.node) if isinstance(n, ast.Assign)
           and isinstance(n.value, ast.Call)
           and norm(n.value.func) == 'get_run_dir_info']
    c.exactly('C48.runN', 'get_run_dir_info call in install_workflow',
              len(unp), 1)
    for n in unp:
        c.ob('C48.runN', c.key(n, iw) + ' unpacks (relink, run_num, rundir)',
             norm(n.targets[0]) == '(relink, run_num, rundir)',
             c.where(n, iw), norm(n.targets[0]))
    lk = c.find(iw, 'link_runN(_)')
    c.exactly('C48.runN', 'link_runN in install_workflow', len(lk), 1)
    for n in lk:
        c.ob('C48.runN', c.key(n, iw) + ' links the directory installed into',
             norm(n.args[0]) == 'rundir', c.where(n, iw), '')
        c.guard('C48.runN', n, ['relink'], iw)
        par = c.idx.parent[id(c.idx.stmt_of(n))]
        c.ob('C48.runN', c.key(n, iw) + ' whenever a relink was requested',
             isinstance(par, ast.If) and norm(par.test) == 'relink'
             and c.idx.parent[id(par)] is iw.node, c.where(n, iw),
             'the link is skipped on some path although runN was unlinked: '
             'runN would no longer point at the latest run' if not (
                 isinstance(par, ast.If) and norm(par.test) == 'relink'
                 and c.idx.parent[id(par)] is iw.node) else '')
        for m in mk:
            c.ob('C48.runN', c.key(n, iw) + ' after the run directory is '
                 'made', cfg.dominated_by(c.idx.stmt_of(n), lambda s, m=m:
                                          s is c.idx.stmt_of(m) or any(
                                              x is m for x in ast.walk(s))),
                 c.where(n, iw), '')
    ln = c.func(INS, 'link_runN')
    sym = c.find(ln, '_.symlink_to(_)')
    c.exactly('C48.runN', 'symlink_to in link_runN', len(sym), 1)
    for n in sym:
        recv = norm(n.func.value)
        defs = [a for a in c.idx.walk(ln.node) if isinstance(a, ast.Assign)
                and norm(a.targets[0]) == recv]
        forms = ('Path(latest_run.parent, WorkflowFiles.RUN_N)',
                 'latest_run.parent / WorkflowFiles.RUN_N',
                 'latest_run.parent.joinpath(WorkflowFiles.RUN_N)')
        ok = (len(defs) == 1 and norm(defs[0].value) in forms) or (
            not defs and recv in forms)
        c.ob('C48.runN', c.key(n, ln) + ' creates <parent>/runN', ok,
             c.where(n, ln), norm(defs[0].value) if defs else recv)
        c.ob('C48.runN', c.key(n, ln) + ' points at the run\'s own name',
             norm(n.args[0]) in ('latest_run.name', 'latest_run'),
             c.where(n, ln), norm(n.args[0]))
    c.ob('C48.runN', 'workflow_files:WorkflowFiles.RUN_N', c.K.class_attr(
        'WorkflowFiles', 'RUN_N') == 'runN', '', '')
    ul = c.func(INS, 'unlink_runN')
    c.floor('C48.runN', 'unlink in unlink_runN', len(c.find(
        ul, 'Path(expand_path(path, WorkflowFiles.RUN_N)).unlink()')), 1)

    # ---- (3) who may renumber / relink
    c.who_calls('C48.callers', 'get_next_rundir_number', {
        f'{INS}:get_run_dir_info': ['!no_run_name', '!run_name']}, floor=1)
    c.who_calls('C48.callers', 'unlink_runN', {
        f'{INS}:get_run_dir_info': ['!no_run_name', '!run_name']}, floor=1)
    c.who_calls('C48.callers', 'link_runN', {
        f'{INS}:install_workflow': ['relink']}, floor=1)

    # ---- (4) the next number
    gn = c.func(PU, 'get_next_rundir_number')
    rets = [r for r in c.idx.walk(gn.node) if isinstance(r, ast.Return)]
    c.exactly('C48.next-number', 'return of get_next_rundir_number',
              len(rets), 1)
    for r in rets:
        ok = isinstance(r.value, ast.BinOp) and isinstance(
            r.value.op, ast.Add) and {norm(r.value.left), norm(
                r.value.right)} == {'last_run_num', '1'}
        c.ob('C48.next-number', c.key(r, gn) + ' is last + 1', ok,
             c.where(r, gn), norm(r.value))
        c.pre('C48.next-number', gn, r, lambda n: isinstance(n, ast.Assign)
              and norm(n.targets[0]) == 'last_run_num',
              'a definition of last_run_num')
    rx = [n for n in c.idx.walk(gn.node) if isinstance(n, ast.Call)
          and norm(n.func) == 're.compile']
    c.exactly('C48.next-number', 'run-number regex', len(rx), 1)
    for n in rx:
        v = c.fold(n.args[0])
        c.ob('C48.next-number', c.key(n, gn) + ' captures the whole trailing '
             'number', v == r'run(\d+)$', c.where(n, gn), repr(v))
    defs = [n for n in c.idx.walk(gn.node) if isinstance(n, ast.Assign)
            and norm(n.targets[0]) == 'last_run_num']
    via_link = [n for n in defs if c.holds(n, 'run_n_path.is_symlink()')]
    fallback = [n for n in defs if n not in via_link]
    c.floor('C48.next-number', 'number taken from the runN link',
            len(via_link), 1)
    c.exactly('C48.next-number', 'fallback definition', len(fallback), 1)
    last = [n for n in via_link if isinstance(n.value, ast.Call)
            and norm(n.value.func) == 'int' and len(n.value.args) == 1
            and (norm(n.value.args[0]) == 'last_run_num'
                 or c.find(n.value.args[0], '_.group(1)'))]
    c.floor('C48.next-number', 'int() of the captured number', len(last), 1)
    rl = c.find(gn, 'os.readlink(run_n_path)')
    c.floor('C48.next-number', 'readlink of runN', len(rl), 1)
    for n in fallback:
        v = n.value
        ok = isinstance(v, ast.Call) and norm(v.func) == 'max' and any(
            k.arg == 'default' and norm(k.value) == '0' for k in v.keywords)
        c.ob('C48.next-number', c.key(n, gn) + ' is the maximum existing '
             'number, 0 if none', ok, c.where(n, gn), norm(v))
        gl = c.find(gn, "Path(run_path).glob('run[0-9]*')")
        c.floor('C48.next-number', 'glob over run directories', len(gl), 1)
        ints = [g for g in c.idx.walk(gn.node) if isinstance(
            g, ast.GeneratorExp) and norm(g.elt) == 'int(m.group(1))']
        c.floor('C48.next-number', 'int(m.group(1)) over matches',
                len(ints), 1)
        # ---- (5) is the number source monotone under `cylc clean`?
        cl = c.func('clean', 'clean')
        drops_link = [u for u in c.find(cl, 'runN.unlink()')]
        # clean removes runN only when it points at exactly the run that
        # was just removed (name equality, not a prefix / substring test:
        # run1 is a prefix of run10) and that run is really gone
        for u in drops_link:
            c.guard('C48.runN', u, [
                'runN.is_symlink()', '!run_dir.exists()',
                AnyOf('os.readlink(_) == run_dir.name',
                      'Path(os.readlink(_)).name == run_dir.name')], cl,
                what='runN is dropped only with the run it points at;')
        drops_dir = [u for u in c.find(cl, 'remove_dir_and_target(run_dir)')]
        record = [w for w in c.idx.walk(cl.node) if isinstance(w, ast.Call)
                  and isinstance(w.func, ast.Attribute) and w.func.attr in (
                      'write_text', 'write', 'touch', 'symlink_to')]
        shrinks = bool(drops_link and drops_dir and not record)
        c.ob('C48.no-reuse', c.key(n, gn) + ' [number source survives '
             'clean]', not shrinks, c.where(n, gn),
             'the only number sources are the runN link and the directory '
             'listing; clean.clean removes both for the latest run '
             f'({c.where(drops_link[0], cl)}, {c.where(drops_dir[0], cl)}) '
             'and records nothing: install, install, clean run2, install '
             'creates run2 again' if shrinks else 'number source is not '
             'reduced by clean')


VARIANTS = [
    ('no-exists-refusal', 'cylc/flow/install.py',
     '''    if rundir.exists():
        raise WorkflowFilesError(
            f"'{rundir}' already exists\\n"
            "To reinstall, use `cylc reinstall`"
        )
''', '', 'C48.no-overwrite'),
    ('refusal-after-symlinks', 'cylc/flow/install.py',
     '''    if rundir.exists():
        raise WorkflowFilesError(
            f"'{rundir}' already exists\\n"
            "To reinstall, use `cylc reinstall`"
        )
    symlinks_created = {}
    named_run = workflow_name
    if run_name:
        named_run = os.path.join(named_run, run_name)
    elif run_num:
        named_run = os.path.join(named_run, f'run{run_num}')
    symlinks_created = make_localhost_symlinks(
        rundir, named_run, symlink_conf=cli_symlink_dirs)
''', '''    symlinks_created = {}
    named_run = workflow_name
    if run_name:
        named_run = os.path.join(named_run, run_name)
    elif run_num:
        named_run = os.path.join(named_run, f'run{run_num}')
    symlinks_created = make_localhost_symlinks(
        rundir, named_run, symlink_conf=cli_symlink_dirs)
    if rundir.exists():
        raise WorkflowFilesError(
            f"'{rundir}' already exists\\n"
            "To reinstall, use `cylc reinstall`"
        )
''', 'C48.no-overwrite'),
    ('refusal-numbered-only', 'cylc/flow/install.py',
     '    if rundir.exists():\n        raise WorkflowFilesError(\n'
     '            f"\'{rundir}\' already exists',
     '    if rundir.exists() and run_num:\n        raise WorkflowFilesError(\n'
     '            f"\'{rundir}\' already exists', 'C48.no-overwrite'),
    ('install-deletes', 'cylc/flow/install.py',
     "    if reinstall:\n        rsync_cmd.append('--delete')",
     "    if not dry_run:\n        rsync_cmd.append('--delete')",
     'C48.no-overwrite'),
    ('number-not-next', 'cylc/flow/install.py',
     '        run_num = get_next_rundir_number(run_path_base)',
     '        run_num = 1', 'C48.numbering'),
    ('dir-not-from-number', 'cylc/flow/install.py',
     "        rundir = Path(run_path_base, f'run{run_num}')",
     "        rundir = Path(run_path_base, f'run{run_num - 1 or 1}')",
     'C48.numbering'),
    ('no-relink', 'cylc/flow/install.py',
     '        unlink_runN(run_path_base)\n        relink = True',
     '        unlink_runN(run_path_base)\n        relink = False',
     'C48.runN'),
    ('link-before-unlink-skipped', 'cylc/flow/install.py',
     '        unlink_runN(run_path_base)\n        relink = True',
     '        relink = True', 'C48.runN'),
    ('relink-parent', 'cylc/flow/install.py',
     '        link_runN(rundir)', '        link_runN(rundir.parent)',
     'C48.runN'),
    ('relink-conditional', 'cylc/flow/install.py',
     '    if relink:\n        link_runN(rundir)',
     '    if relink and not symlinks_created:\n        link_runN(rundir)',
     'C48.runN'),
    ('runN-wrong-target', 'cylc/flow/install.py',
     '        run_n.symlink_to(latest_run.name)',
     "        run_n.symlink_to('run1')", 'C48.runN'),
    ('reinstall-relinks', 'cylc/flow/install.py',
     '    rsync_cmd = get_rsync_rund_cmd(\n        source,\n        rundir,\n'
     '        reinstall=True,',
     '    link_runN(rundir)\n    rsync_cmd = get_rsync_rund_cmd(\n'
     '        source,\n        rundir,\n        reinstall=True,',
     'C48.callers'),
    ('benign-joinpath', 'cylc/flow/install.py',
     "        rundir = Path(run_path_base, f'run{run_num}')",
     "        rundir = run_path_base.joinpath(f'run{run_num}')", None),
    ('next-is-last', 'cylc/flow/pathutil.py',
     '    return last_run_num + 1', '    return last_run_num or 1',
     'C48.next-number'),
    ('max-default-one', 'cylc/flow/pathutil.py',
     'last_run_num = max(run_numbers, default=0)',
     'last_run_num = min(run_numbers, default=0)', 'C48.next-number'),
    ('regex-first-digit', 'cylc/flow/pathutil.py',
     "re_runX = re.compile(r'run(\\d+)$')",
     "re_runX = re.compile(r'run(\\d)')", 'C48.next-number'),
    ('clean-unlinks-runN-on-prefix', 'cylc/flow/clean.py',
     '        os.readlink(str(runN)) == run_dir.name',
     '        run_dir.name in os.readlink(str(runN))', 'C48.runN'),
    ('clean-unlinks-runN-always', 'cylc/flow/clean.py',
     '''        not run_dir.exists() and
        os.readlink(str(runN)) == run_dir.name''',
     '''        os.readlink(str(runN)) == run_dir.name''', 'C48.runN'),
]

"""C15 Family triggers expand to all/any of the members' outputs."""
import ast

from sa.core import AnalysisError, norm
from sa.consts import known
from sa import taint

TECHNIQUE = ('static analysis: relations between folded constant tables '
             '(family qualifier -> member trigger / outputs vs ALT_QUALIFIERS '
             'and QUAL_FAM_*), regex-fragment provenance (re.escape taint) '
             'and AST shape of the all/any joiner and member loop')

CLAUSES = (
    'Decided: for every family qualifier stem-(all|any) the trigger map gives '
    '(ALT_QUALIFIERS[stem], suffix == all) and the output map gives '
    '[ALT_QUALIFIERS[stem]] (finish -> succeeded, failed); both maps cover '
    'all QUAL_FAM_* constants; _families_all_to_all joins members with & iff '
    'all-semantics and | otherwise, iterates every member of the family, and '
    'builds its substitution regex only from escaped fragments; RHS family '
    'nodes set triggers and output optionality for every member. Not decided: '
    'the expanded expression text for arbitrary graph strings.')


def check(c):
    K = c.K
    tq = c.idx.module('task_qualifiers')
    alt = K.name(tq, 'ALT_QUALIFIERS')
    if not isinstance(alt, dict):
        raise AnalysisError('ALT_QUALIFIERS does not fold to a dict')
    quals = {}
    for name in list(K._mod_assign['task_qualifiers']):
        if name.startswith('QUAL_FAM_'):
            v = K.name(tq, name)
            if isinstance(v, str):
                quals[name] = v
    c.floor('C15.tables', 'QUAL_FAM_* constants', len(quals), 14)
    tmap = K.class_attr('GraphParser', 'fam_to_mem_trigger_map')
    omap = K.class_attr('GraphParser', 'fam_to_mem_output_map')
    if not isinstance(tmap, dict) or not isinstance(omap, dict):
        raise AnalysisError('family maps do not fold to dicts')
    gp = c.idx.cls('GraphParser')
    where = f'{gp.path}:{gp.node.lineno} GraphParser'
    c.ob('C15.tables', 'fam_to_mem_trigger_map keys == QUAL_FAM_*',
         set(tmap) == set(quals.values()), where,
         f'missing {sorted(set(quals.values()) - set(tmap))} extra '
         f'{sorted(set(tmap) - set(quals.values()))}')
    c.ob('C15.tables', 'fam_to_mem_output_map keys == QUAL_FAM_*',
         set(omap) == set(quals.values()), where,
         f'missing {sorted(set(quals.values()) - set(omap))} extra '
         f'{sorted(set(omap) - set(quals.values()))}')
    for cname, q in sorted(quals.items()):
        stem, _, suffix = q.rpartition('-')
        ok_q = suffix in ('all', 'any') and stem in alt
        c.ob('C15.tables', f'{cname} = {q!r} is <ALT_QUALIFIERS stem>-all|any',
             ok_q, where, '')
        if not ok_q:
            continue
        want = (alt[stem], suffix == 'all')
        got = tmap.get(q)
        got_t = tuple(got) if isinstance(got, (tuple, list)) else got
        c.ob('C15.trigger-map',
             f'graph_parser:GraphParser.fam_to_mem_trigger_map[{cname}]',
             got_t == want, where,
             f'{q!r} -> {got!r}; expected {want!r} (member output for '
             f'"{stem}", all-semantics={suffix == "all"})')
        if stem == 'finish':
            want_o = ['succeeded', 'failed']
        else:
            want_o = [alt[stem]]
        got_o = omap.get(q)
        c.ob('C15.output-map',
             f'graph_parser:GraphParser.fam_to_mem_output_map[{cname}]',
             isinstance(got_o, (list, tuple)) and sorted(got_o) ==
             sorted(want_o), where, f'{q!r} -> {got_o!r}; expected {want_o!r}')

    # ---- LHS expansion
    fa = c.func('graph_parser', 'GraphParser._families_all_to_all')
    # one term per member of the whole family, as a loop with append or as a
    # comprehension, over `self.family_map[name]` or a local alias of it
    def is_family(e):
        if norm(e) == 'self.family_map[name]':
            return True
        if isinstance(e, ast.Name):
            defs = [n for n in ast.walk(fa.node) if isinstance(n, ast.Assign)
                    and norm(n.targets[0]) == e.id]
            return len(defs) == 1 and norm(
                defs[0].value) == 'self.family_map[name]'
        return False
    terms = []     # (anchor node, loop variable, term expr, unfiltered?)
    for n in ast.walk(fa.node):
        if isinstance(n, ast.For) and is_family(n.iter):
            apps = [x for x in ast.walk(n) if isinstance(x, ast.Call)
                    and isinstance(x.func, ast.Attribute)
                    and x.func.attr == 'append'
                    and norm(x.func.value) == 'm_expr']
            plain = not [x for x in ast.walk(n) if isinstance(
                x, (ast.Continue, ast.Break, ast.If))]
            for x in apps:
                terms.append((n, norm(n.target), x.args[0], plain))
        elif isinstance(n, ast.Assign) and norm(n.targets[0]) == 'm_expr' \
                and isinstance(n.value, ast.ListComp) and len(
                    n.value.generators) == 1 and is_family(
                    n.value.generators[0].iter):
            g = n.value.generators[0]
            terms.append((n, norm(g.target), n.value.elt, not g.ifs))
    c.exactly('C15.member-loop', 'member terms built from '
              'self.family_map[name]', len(terms), 1)
    for anchor, mem, v, plain in terms:
        c.guard('C15.member-loop', anchor,
                ['(name, trig) in family_trig_map'], fa)
        c.ob('C15.member-loop', c.key(anchor, fa)[:110] + ' every member '
             'contributes', plain, c.where(anchor, fa), '')
        parts = [norm(x.value) for x in v.values
                 if isinstance(x, ast.FormattedValue)] if isinstance(
            v, ast.JoinedStr) else []
        c.ob('C15.member-loop', c.key(anchor, fa)[:110] + ' member term',
             parts == [mem, 'offset', 'ttype'], c.where(anchor, fa),
             f'term built from {parts}')
    # the member trigger type / semantics come from the map
    unpack = [n for n in ast.walk(fa.node) if isinstance(n, ast.Assign)
              and isinstance(n.targets[0], ast.Tuple)
              and norm(n.value) == 'family_trig_map[name, trig]']
    c.floor('C15.joiner', 'ttype, mem_all = family_trig_map[(name, trig)]',
            len(unpack), 1)
    allv = norm(unpack[0].targets[0].elts[1]) if unpack else 'mem_all'
    # members are joined with & for -all and | for -any: the separator is a
    # literal at the join, or a local bound to the literal under the test
    joins = [n for n in ast.walk(fa.node) if isinstance(n, ast.Call)
             and isinstance(n.func, ast.Attribute) and n.func.attr == 'join'
             and n.args and norm(n.args[0]) == 'm_expr']
    c.floor('C15.joiner', 'join of the member terms', len(joins), 1)
    seen_ops = set()
    for j in joins:
        r = j.func.value
        sites = []
        if isinstance(r, ast.Constant):
            sites.append((r.value, j))
        elif isinstance(r, ast.Name):
            for d in ast.walk(fa.node):
                if isinstance(d, ast.Assign) and norm(d.targets[0]) == r.id:
                    sites.append((d.value.value if isinstance(
                        d.value, ast.Constant) else norm(d.value), d))
        c.ob('C15.joiner', c.key(j, fa) + ' separator is & or |',
             bool(sites) and all(op in ('&', '|') for op, _n in sites),
             c.where(j, fa), str([op for op, _n in sites]))
        for op, node in sites:
            seen_ops.add(op)
            if op == '&':
                c.guard('C15.joiner', node, [allv], fa,
                        what='AND only for -all;')
            elif op == '|':
                c.guard('C15.joiner', node, [f'!{allv}'], fa,
                        what='OR only for -any;')
        par = c.idx.parent.get(id(j))
        wrapped = (isinstance(par, ast.BinOp) and isinstance(
            par.op, ast.Mod) and isinstance(par.left, ast.Constant)
            and par.left.value == '(%s)') or (
            isinstance(par, ast.FormattedValue) and isinstance(
                c.idx.parent.get(id(par)), ast.JoinedStr) and norm(
                c.idx.parent[id(par)]).startswith("f'(")
            and norm(c.idx.parent[id(par)]).endswith(")'"))
        c.ob('C15.joiner', c.key(j, fa) + ' parenthesised', wrapped,
             c.where(j, fa), '')
    c.ob('C15.joiner', f'{fa.fq} :: both & (all) and | (any) are produced',
         seen_ops == {'&', '|'}, c.where(fa.node, fa), str(sorted(
             map(str, seen_ops))))
    # regex built from the family name must be escaped (F2)
    for call, p in taint.regex_calls(c, fa):
        for node, kind in taint.fragments(c, p):
            if kind == 'const':
                continue
            c.ob('C15.regex-escaped',
                 f'{fa.fq} :: regex fragment `{norm(node)}`',
                 kind == 'escaped', c.where(call, fa),
                 'escaped' if kind == 'escaped' else
                 f'`{norm(node)}` reaches re.{call.func.attr} pattern '
                 'without re.escape: names containing regex metacharacters '
                 '(e.g. "+") are not substituted')
    # lookup in the caller goes through the trigger map
    pdp = c.func('graph_parser', 'GraphParser._proc_dep_pair')
    look = c.find(pdp, '_.fam_to_mem_trigger_map[trig]')
    c.floor('C15.lookup', 'fam_to_mem_trigger_map[trig] in _proc_dep_pair',
            len(look), 1)
    for n in look:
        c.guard('C15.lookup', n, ['name in self.family_map'], pdp)

    # ---- RHS
    ct = c.func('graph_parser', 'GraphParser._compute_triggers')
    mem_loops = [n for n in ast.walk(ct.node) if isinstance(n, ast.For)
                 and norm(n.iter) == 'rhs_members']
    c.floor('C15.rhs-members', 'for mem in rhs_members', len(mem_loops), 1)
    asg = [n for n in ast.walk(ct.node) if isinstance(n, ast.Assign)
           and norm(n.targets[0]) == 'rhs_members']
    fam_src = [a for a in asg if norm(a.value) == 'self.family_map[name]']
    c.floor('C15.rhs-members', 'rhs_members = self.family_map[name]',
            len(fam_src), 1)
    for a in fam_src:
        c.guard('C15.rhs-members', a, ['name in self.family_map'], ct)
    for lp in mem_loops:
        mem = norm(lp.target)
        st = c.find(lp, f'self._set_triggers({mem}, *_)')
        so = c.find(lp, f'self._set_output_opt({mem}, output, optional, '
                    'suicide, fam)')
        c.floor('C15.rhs-members', '_set_triggers(mem, ...) per member',
                len(st), 1)
        c.floor('C15.rhs-members', '_set_output_opt(mem, output, optional, '
                'suicide, fam) per member', len(so), 1)
        for s in st:
            c.guard_only('C15.rhs-members', s, ['!offset', 'm'], ct)
    om = c.find(ct, '_.fam_to_mem_output_map[output]')
    c.floor('C15.rhs-members', 'fam_to_mem_output_map[output] lookup',
            len(om), 1)


VARIANTS = [
    ('any-uses-and', 'cylc/flow/graph_parser.py',
     "                    that = '(%s)' % '|'.join(m_expr)",
     "                    that = '(%s)' % '&'.join(m_expr)", 'C15.joiner'),
    ('swap-all', 'cylc/flow/graph_parser.py',
     '        QUAL_FAM_FAIL_ANY: (TASK_OUTPUT_FAILED, False),',
     '        QUAL_FAM_FAIL_ANY: (TASK_OUTPUT_FAILED, True),',
     'C15.trigger-map'),
    ('wrong-output', 'cylc/flow/graph_parser.py',
     '        QUAL_FAM_START_ALL: [TASK_OUTPUT_STARTED],',
     '        QUAL_FAM_START_ALL: [TASK_OUTPUT_SUBMITTED],',
     'C15.output-map'),
    ('skip-first-member', 'cylc/flow/graph_parser.py',
     '                for mem in self.family_map[name]:\n'
     '                    m_info.append((mem, offset, ttype))',
     '                for mem in self.family_map[name][1:]:\n'
     '                    m_info.append((mem, offset, ttype))',
     'C15.member-loop'),
    ('F1-regression', 'cylc/flow/graph_parser.py',
     '        QUAL_FAM_SUBMIT_FAIL_ANY: (TASK_OUTPUT_SUBMIT_FAILED, False),',
     '        QUAL_FAM_SUBMIT_FAIL_ANY: (TASK_OUTPUT_SUBMITTED, False),',
     'C15.trigger-map'),
    ('F2-regression', 'cylc/flow/graph_parser.py',
     '''                    re.escape(name),
                    re.escape(offset),
                    re.escape(trig)''',
     '''                    name,
                    re.escape(offset),
                    re.escape(trig)''', 'C15.regex-escaped'),
    ('rhs-first-only', 'cylc/flow/graph_parser.py',
     '            for mem in rhs_members:',
     '            for mem in rhs_members[:1]:', 'C15.rhs-members'),
]

"""C15 Family triggers expand to all/any of the members' outputs."""
import ast

from sa.core import AnalysisError, norm
from sa.consts import known
from sa import taint

TECHNIQUE = ('static analysis: relations between folded constant tables '
             '(family qualifier -> member trigger / outputs vs ALT_QUALIFIERS '
             'and QUAL_FAM_*), regex-fragment provenance (re.escape taint) '
             'and AST shape of the all/any joiner and member loop')

CLAUSES = (
    'Decided: for every family qualifier stem-(all|any) the trigger map gives '
    '(ALT_QUALIFIERS[stem], suffix == all) and the output map gives '
    '[ALT_QUALIFIERS[stem]] (finish -> succeeded, failed); both maps cover '
    'all QUAL_FAM_* constants; _families_all_to_all joins members with & iff '
    'all-semantics and | otherwise, iterates every member of the family, and '
    'builds its substitution regex only from escaped fragments; RHS family '
    'nodes set triggers and output optionality for every member; the member '
    'table given to the parser lists every task descendant of every family '
    'but root in the full C3 linearisation. '
    'An RHS family node is expanded under nothing narrower than membership of the family table. '
    'Not decided: '
    'the expanded expression text for arbitrary graph strings.')


def _family_map_rules(c, R='C15.family-map'):
    """The member table handed to the graph parser lists, for every family
    but root, *all* its task descendants in the full (C3-linearised, multiple
    inheritance) ancestry -- a task that belongs to a family only through a
    secondary parent is a member."""
    from rules._shared import resolved
    lg = c.func('config', 'WorkflowConfig._load_graph')
    gp = [n for n in c.calls(lg, 'GraphParser')]
    c.floor(R, f'{lg.fq} :: GraphParser(..)', len(gp), 1)
    for n in gp:
        arg = n.args[0] if n.args else None
        for k in n.keywords:
            if k.arg == 'family_map':
                arg = k.value
        v = resolved(c, lg, arg, n) if arg is not None else None
        ok = isinstance(v, ast.DictComp) and len(v.generators) == 1
        c.ob(R, c.key(n, lg)[:90] + ' member table is a dict comprehension',
             ok, c.where(n, lg), norm(v)[:120] if v is not None else '')
        if not ok:
            continue
        g = v.generators[0]
        c.ob(R, c.key(n, lg)[:90] + " over self.runtime['descendants']",
             norm(g.iter) == "self.runtime['descendants'].items()",
             c.where(n, lg), norm(g.iter) + ' — members reached only '
             'through a secondary parent are dropped' if norm(g.iter) !=
             "self.runtime['descendants'].items()" else '')
        fam, tasks = (norm(e) for e in g.target.elts) if isinstance(
            g.target, ast.Tuple) and len(g.target.elts) == 2 else ('', '')
        c.ob(R, c.key(n, lg)[:90] + ' every family but root',
             [norm(i) for i in g.ifs] in ([f"{fam} != 'root'"], []),
             c.where(n, lg), str([norm(i) for i in g.ifs]))
        c.ob(R, c.key(n, lg)[:90] + ' keyed by the family', norm(v.key) == fam
             and fam != '', c.where(n, lg), norm(v.key))
        val = v.value
        okv = isinstance(val, ast.ListComp) and len(val.generators) == 1 and \
            norm(val.generators[0].iter) in (tasks, f'sorted({tasks})') and \
            norm(val.elt) == norm(val.generators[0].target)
        c.ob(R, c.key(n, lg)[:90] + ' members from all its descendants', okv,
             c.where(n, lg), norm(val)[:120])
        if okv:
            t = norm(val.generators[0].target)
            want = {f"{t} in self.runtime['parents']",
                    f"{t} not in self.runtime['descendants']"}
            got = set()
            for i in val.generators[0].ifs:
                parts = i.values if isinstance(i, ast.BoolOp) and isinstance(
                    i.op, ast.And) else [i]
                got |= {norm(p) for p in parts}
            c.ob(R, c.key(n, lg)[:90] + ' only sub-families are left out',
                 got == want, c.where(n, lg), str(sorted(got)))
    # the descendants table is filled from the full linearisation
    fills = c.find(None, "self.runtime['descendants'].setdefault(_p, set())"
                   '.add(_n)')
    c.floor(R, "runtime['descendants'] fill", len(fills), 1)
    for n in fills:
        f = c.owner(n)
        lp = n
        while id(lp) in c.idx.parent and not isinstance(lp, ast.For):
            lp = c.idx.parent[id(lp)]
        src = resolved(c, f, lp.iter.value, lp) if isinstance(
            lp, ast.For) and isinstance(lp.iter, ast.Subscript) else (
            lp.iter if isinstance(lp, ast.For) else None)
        txt = norm(src) if src is not None else ''
        ok = txt.startswith("self.runtime['linearized ancestors'][") and \
            isinstance(lp.iter, ast.Subscript) and norm(lp.iter.slice) == '1:'
        c.ob(R, c.key(n, f)[:90] + ' for every ancestor in the C3 '
             'linearisation (but the namespace itself)', ok, c.where(n, f),
             f'{txt}[{norm(lp.iter.slice) if isinstance(lp.iter, ast.Subscript) else ""}]')


def check(c):
    _family_map_rules(c)
    K = c.K
    tq = c.idx.module('task_qualifiers')
    alt = K.name(tq, 'ALT_QUALIFIERS')
    if not isinstance(alt, dict):
        raise AnalysisError('ALT_QUALIFIERS does not fold to a dict')
    quals = {}
    for name in list(K._mod_assign['task_qualifiers']):
        if name.startswith('QUAL_FAM_'):
            v = K.name(tq, name)
            if isinstance(v, str):
                quals[name] = v
    c.floor('C15.tables', 'QUAL_FAM_* constants', len(quals), 14)
    tmap = K.class_attr('GraphParser', 'fam_to_mem_trigger_map')
    omap = K.class_attr('GraphParser', 'fam_to_mem_output_map')
    if not isinstance(tmap, dict) or not isinstance(omap, dict):
        raise AnalysisError('family maps do not fold to dicts')
    gp = c.idx.cls('GraphParser')
    where = f'{gp.path}:{gp.node.lineno} GraphParser'
    c.ob('C15.tables', 'fam_to_mem_trigger_map keys == QUAL_FAM_*',
         set(tmap) == set(quals.values()), where,
         f'missing {sorted(set(quals.values()) - set(tmap))} extra '
         f'{sorted(set(tmap) - set(quals.values()))}')
    c.ob('C15.tables', 'fam_to_mem_output_map keys == QUAL_FAM_*',
         set(omap) == set(quals.values()), where,
         f'missing {sorted(set(quals.values()) - set(omap))} extra '
         f'{sorted(set(omap) - set(quals.values()))}')
    for cname, q in sorted(quals.items()):
        stem, _, suffix = q.rpartition('-')
        ok_q = suffix in ('all', 'any') and stem in alt
        c.ob('C15.tables', f'{cname} = {q!r} is <ALT_QUALIFIERS stem>-all|any',
             ok_q, where, '')
        if not ok_q:
            continue
        want = (alt[stem], suffix == 'all')
        got = tmap.get(q)
        got_t = tuple(got) if isinstance(got, (tuple, list)) else got
        c.ob('C15.trigger-map',
             f'graph_parser:GraphParser.fam_to_mem_trigger_map[{cname}]',
             got_t == want, where,
             f'{q!r} -> {got!r}; expected {want!r} (member output for '
             f'"{stem}", all-semantics={suffix == "all"})')
        if stem == 'finish':
            want_o = ['succeeded', 'failed']
        else:
            want_o = [alt[stem]]
        got_o = omap.get(q)
        c.ob('C15.output-map',
             f'graph_parser:GraphParser.fam_to_mem_output_map[{cname}]',
             isinstance(got_o, (list, tuple)) and sorted(got_o) ==
             sorted(want_o), where, f'{q!r} -> {got_o!r}; expected {want_o!r}')

    # ---- LHS expansion
    fa = c.func('graph_parser', 'GraphParser._families_all_to_all')
    # one term per member of the whole family, as a loop with append or as a
    # comprehension, over `self.family_map[name]` or a local alias of it
    def is_family(e):
        if norm(e) == 'self.family_map[name]':
            return True
        if isinstance(e, ast.Name):
            defs = [n for n in ast.walk(fa.node) if isinstance(n, ast.Assign)
                    and norm(n.targets[0]) == e.id]
            return len(defs) == 1 and norm(
                defs[0].value) == 'self.family_map[name]'
        return False
    terms = []     # (anchor node, loop variable, term expr, unfiltered?)
    for n in ast.walk(fa.node):
        if isinstance(n, ast.For) and is_family(n.iter):
            apps = [x for x in ast.walk(n) if isinstance(x, ast.Call)
                    and isinstance(x.func, ast.Attribute)
                    and x.func.attr == 'append'
                    and norm(x.func.value) == 'm_expr']
            plain = not [x for x in ast.walk(n) if isinstance(
                x, (ast.Continue, ast.Break, ast.If))]
            for x in apps:
                terms.append((n, norm(n.target), x.args[0], plain))
        elif isinstance(n, ast.Assign) and norm(n.targets[0]) == 'm_expr' \
                and isinstance(n.value, ast.ListComp) and len(
                    n.value.generators) == 1 and is_family(
                    n.value.generators[0].iter):
            g = n.value.generators[0]
            terms.append((n, norm(g.target), n.value.elt, not g.ifs))
    c.exactly('C15.member-loop', 'member terms built from '
              'self.family_map[name]', len(terms), 1)
    for anchor, mem, v, plain in terms:
        c.guard('C15.member-loop', anchor,
                ['(name, trig) in family_trig_map'], fa)
        c.ob('C15.member-loop', c.key(anchor, fa)[:110] + ' every member '
             'contributes', plain, c.where(anchor, fa), '')
        parts = [norm(x.value) for x in v.values
                 if isinstance(x, ast.FormattedValue)] if isinstance(
            v, ast.JoinedStr) else []
        c.ob('C15.member-loop', c.key(anchor, fa)[:110] + ' member term',
             parts == [mem, 'offset', 'ttype'], c.where(anchor, fa),
             f'term built from {parts}')
    # the member trigger type / semantics come from the map
    unpack = [n for n in ast.walk(fa.node) if isinstance(n, ast.Assign)
              and isinstance(n.targets[0], ast.Tuple)
              and norm(n.value) == 'family_trig_map[name, trig]']
    c.floor('C15.joiner', 'ttype, mem_all = family_trig_map[(name, trig)]',
            len(unpack), 1)
    allv = norm(unpack[0].targets[0].elts[1]) if unpack else 'mem_all'
    # members are joined with & for -all and | for -any: the separator is a
    # literal at the join, or a local bound to the literal under the test
    joins = [n for n in ast.walk(fa.node) if isinstance(n, ast.Call)
             and isinstance(n.func, ast.Attribute) and n.func.attr == 'join'
             and n.args and norm(n.args[0]) == 'm_expr']
    c.floor('C15.joiner', 'join of the member terms', len(joins), 1)
    seen_ops = set()
    for j in joins:
        r = j.func.value
        sites = []
        if isinstance(r, ast.Constant):
            sites.append((r.value, j))
        elif isinstance(r, ast.Name):
            for d in ast.walk(fa.node):
                if isinstance(d, ast.Assign) and norm(d.targets[0]) == r.id:
                    sites.append((d.value.value if isinstance(
                        d.value, ast.Constant) else norm(d.value), d))
        c.ob('C15.joiner', c.key(j, fa) + ' separator is & or |',
             bool(sites) and all(op in ('&', '|') for op, _n in sites),
             c.where(j, fa), str([op for op, _n in sites]))
        for op, node in sites:
            seen_ops.add(op)
            if op == '&':
                c.guard('C15.joiner', node, [allv], fa,
                        what='AND only for -all;')
            elif op == '|':
                c.guard('C15.joiner', node, [f'!{allv}'], fa,
                        what='OR only for -any;')
        par = c.idx.parent.get(id(j))
        wrapped = (isinstance(par, ast.BinOp) and isinstance(
            par.op, ast.Mod) and isinstance(par.left, ast.Constant)
            and par.left.value == '(%s)') or (
            isinstance(par, ast.FormattedValue) and isinstance(
                c.idx.parent.get(id(par)), ast.JoinedStr) and norm(
                c.idx.parent[id(par)]).startswith("f'(")
            and norm(c.idx.parent[id(par)]).endswith(")'"))
        c.ob('C15.joiner', c.key(j, fa) + ' parenthesised', wrapped,
             c.where(j, fa), '')
    c.ob('C15.joiner', f'{fa.fq} :: both & (all) and | (any) are produced',
         seen_ops == {'&', '|'}, c.where(fa.node, fa), str(sorted(
             map(str, seen_ops))))
    # regex built from the family name must be escaped (F2)
    for call, p in taint.regex_calls(c, fa):
        for node, kind in taint.fragments(c, p):
            if kind == 'const':
                continue
            c.ob('C15.regex-escaped',
                 f'{fa.fq} :: regex fragment `{norm(node)}`',
                 kind == 'escaped', c.where(call, fa),
                 'escaped' if kind == 'escaped' else
                 f'`{norm(node)}` reaches re.{call.func.attr} pattern '
                 'without re.escape: names containing regex metacharacters '
                 '(e.g. "+") are not substituted')
    # lookup in the caller goes through the trigger map
    pdp = c.func('graph_parser', 'GraphParser._proc_dep_pair')
    look = c.find(pdp, '_.fam_to_mem_trigger_map[trig]')
    c.floor('C15.lookup', 'fam_to_mem_trigger_map[trig] in _proc_dep_pair',
            len(look), 1)
    for n in look:
        c.guard('C15.lookup', n, ['name in self.family_map'], pdp)

    # ---- RHS
    ct = c.func('graph_parser', 'GraphParser._compute_triggers')
    mem_loops = [n for n in ast.walk(ct.node) if isinstance(n, ast.For)
                 and norm(n.iter) == 'rhs_members']
    c.floor('C15.rhs-members', 'for mem in rhs_members', len(mem_loops), 1)
    asg = [n for n in ast.walk(ct.node) if isinstance(n, ast.Assign)
           and norm(n.targets[0]) == 'rhs_members']
    fam_src = [a for a in asg if norm(a.value) == 'self.family_map[name]']
    c.floor('C15.rhs-members', 'rhs_members = self.family_map[name]',
            len(fam_src), 1)
    for a in fam_src:
        c.guard('C15.rhs-members', a, ['name in self.family_map'], ct)
        # every family node is expanded, offset or not (the declared
        # optionality reaches the members through this loop, too)
        c.guard_only('C15.rhs-members', a, [
            'name in self.family_map', 'm', 'fam',
            'self.__class__.REC_RHS_NODE.match(right)'], ct,
            what='every family node is expanded;')
    for a in asg:
        if a not in fam_src:
            c.guard('C15.rhs-members', a, ['!(name in self.family_map)'], ct,
                    what='only a non-family node stands for itself;')
    for lp in mem_loops:
        mem = norm(lp.target)
        st = c.find(lp, f'self._set_triggers({mem}, *_)')
        so = c.find(lp, f'self._set_output_opt({mem}, output, optional, '
                    'suicide, fam)')
        c.floor('C15.rhs-members', '_set_triggers(mem, ...) per member',
                len(st), 1)
        c.floor('C15.rhs-members', '_set_output_opt(mem, output, optional, '
                'suicide, fam) per member', len(so), 1)
        for s in st:
            c.guard_only('C15.rhs-members', s, ['!offset', 'm'], ct)
    om = c.find(ct, '_.fam_to_mem_output_map[output]')
    c.floor('C15.rhs-members', 'fam_to_mem_output_map[output] lookup',
            len(om), 1)


VARIANTS = [
    ('offset-family-not-expanded', 'cylc/flow/graph_parser.py',
     '                rhs_members = self.family_map[name]\n',
     '                rhs_members = [] if offset else self.family_map[name]\n',
     'C15.rhs-members'),
    ('members-first-parent-only', 'cylc/flow/config.py',
     "            for family, tasks in self.runtime['descendants'].items()",
     "            for family, tasks in self.get_first_parent_descendants().items()",
     'C15.family-map'),
    ('descendants-from-first-parents', 'cylc/flow/config.py',
     """            for p in ancestors[1:]:
                self.runtime['descendants'].setdefault(p, set()).add(name)""",
     """            for p in ancestors[1:2]:
                self.runtime['descendants'].setdefault(p, set()).add(name)""",
     'C15.family-map'),
    ('any-uses-and', 'cylc/flow/graph_parser.py',
     "                    that = '(%s)' % '|'.join(m_expr)",
     "                    that = '(%s)' % '&'.join(m_expr)", 'C15.joiner'),
    ('swap-all', 'cylc/flow/graph_parser.py',
     '        QUAL_FAM_FAIL_ANY: (TASK_OUTPUT_FAILED, False),',
     '        QUAL_FAM_FAIL_ANY: (TASK_OUTPUT_FAILED, True),',
     'C15.trigger-map'),
    ('wrong-output', 'cylc/flow/graph_parser.py',
     '        QUAL_FAM_START_ALL: [TASK_OUTPUT_STARTED],',
     '        QUAL_FAM_START_ALL: [TASK_OUTPUT_SUBMITTED],',
     'C15.output-map'),
    ('skip-first-member', 'cylc/flow/graph_parser.py',
     '                for mem in self.family_map[name]:\n'
     '                    m_info.append((mem, offset, ttype))',
     '                for mem in self.family_map[name][1:]:\n'
     '                    m_info.append((mem, offset, ttype))',
     'C15.member-loop'),
    ('F1-regression', 'cylc/flow/graph_parser.py',
     '        QUAL_FAM_SUBMIT_FAIL_ANY: (TASK_OUTPUT_SUBMIT_FAILED, False),',
     '        QUAL_FAM_SUBMIT_FAIL_ANY: (TASK_OUTPUT_SUBMITTED, False),',
     'C15.trigger-map'),
    ('F2-regression', 'cylc/flow/graph_parser.py',
     '''                    re.escape(name),
                    re.escape(offset),
                    re.escape(trig)''',
     '''                    name,
                    re.escape(offset),
                    re.escape(trig)''', 'C15.regex-escaped'),
    ('rhs-first-only', 'cylc/flow/graph_parser.py',
     '            for mem in rhs_members:',
     '            for mem in rhs_members[:1]:', 'C15.rhs-members'),
]

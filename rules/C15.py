"""C15 Family triggers expand to all/any of the members' outputs."""
import ast

from sa.core import AnalysisError, norm
from sa.consts import known
from sa import taint

TECHNIQUE = ('static analysis: relations between folded constant tables '
             '(family qualifier -> member trigger / outputs vs ALT_QUALIFIERS '
             'and QUAL_FAM_*), regex-fragment provenance (re.escape taint) '
             'and AST shape of the all/any joiner and member loop')

CLAUSES = (
    'Decided: for every family qualifier stem-(all|any) the trigger map gives '
    '(ALT_QUALIFIERS[stem], suffix == all) and the output map gives '
    '[ALT_QUALIFIERS[stem]] (finish -> succeeded, failed); both maps cover '
    'all QUAL_FAM_* constants; _families_all_to_all joins members with & iff '
    'all-semantics and | otherwise, iterates every member of the family, and '
    'builds its substitution regex only from escaped fragments; RHS family '
    'nodes set triggers and output optionality for every member. Not decided: '
    'the expanded expression text for arbitrary graph strings.')


def check(c):
    K = c.K
    tq = c.idx.module('task_qualifiers')
    alt = K.name(tq, 'ALT_QUALIFIERS')
    if not isinstance(alt, dict):
        raise AnalysisError('ALT_QUALIFIERS does not fold to a dict')
    quals = {}
    for name in list(K._mod_assign['task_qualifiers']):
        if name.startswith('QUAL_FAM_'):
            v = K.name(tq, name)
            if isinstance(v, str):
                quals[name] = v
    c.floor('C15.tables', 'QUAL_FAM_* constants', len(quals), 14)
    tmap = K.class_attr('GraphParser', 'fam_to_mem_trigger_map')
    omap = K.class_attr('GraphParser', 'fam_to_mem_output_map')
    if not isinstance(tmap, dict) or not isinstance(omap, dict):
        raise AnalysisError('family maps do not fold to dicts')
    gp = c.idx.cls('GraphParser')
    where = f'{gp.path}:{gp.node.lineno} GraphParser'
    c.ob('C15.tables', 'fam_to_mem_trigger_map keys == QUAL_FAM_*',
         set(tmap) == set(quals.values()), where,
         f'missing {sorted(set(quals.values()) - set(tmap))} extra '
         f'{sorted(set(tmap) - set(quals.values()))}')
    c.ob('C15.tables', 'fam_to_mem_output_map keys == QUAL_FAM_*',
         set(omap) == set(quals.values()), where,
         f'missing {sorted(set(quals.values()) - set(omap))} extra '
         f'{sorted(set(omap) - set(quals.values()))}')
    for cname, q in sorted(quals.items()):
        stem, _, suffix = q.rpartition('-')
        ok_q = suffix in ('all', 'any') and stem in alt
        c.ob('C15.tables', f'{cname} = {q!r} is <ALT_QUALIFIERS stem>-all|any',
             ok_q, where, '')
        if not ok_q:
            continue
        want = (alt[stem], suffix == 'all')
        got = tmap.get(q)
        got_t = tuple(got) if isinstance(got, (tuple, list)) else got
        c.ob('C15.trigger-map',
             f'graph_parser:GraphParser.fam_to_mem_trigger_map[{cname}]',
             got_t == want, where,
             f'{q!r} -> {got!r}; expected {want!r} (member output for '
             f'"{stem}", all-semantics={suffix == "all"})')
        if stem == 'finish':
            want_o = ['succeeded', 'failed']
        else:
            want_o = [alt[stem]]
        got_o = omap.get(q)
        c.ob('C15.output-map',
             f'graph_parser:GraphParser.fam_to_mem_output_map[{cname}]',
             isinstance(got_o, (list, tuple)) and sorted(got_o) ==
             sorted(want_o), where, f'{q!r} -> {got_o!r}; expected {want_o!r}')

    # ---- LHS expansion
    fa = c.func('graph_parser', 'GraphParser._families_all_to_all')
    # member loop iterates the whole family
    loops = [n for n in ast.walk(fa.node) if isinstance(n, ast.For)
             and norm(n.iter) in ('self.family_map[name]',)]
    c.floor('C15.member-loop', 'for mem in self.family_map[name]',
            len(loops), 1)
    for lp in loops:
        c.guard('C15.member-loop', lp, ['(name, trig) in family_trig_map'],
                fa)
        mem = norm(lp.target)
        apps = [n for n in ast.walk(lp) if isinstance(n, ast.Call)
                and isinstance(n.func, ast.Attribute)
                and n.func.attr == 'append']
        exprs = [a for a in apps if norm(a.func.value) == 'm_expr']
        ok = (len(exprs) == 1 and not [
            x for x in ast.walk(lp) if isinstance(x, (ast.Continue, ast.Break,
                                                      ast.If))])
        c.ob('C15.member-loop', c.key(lp, fa) + ' every member contributes',
             ok, c.where(lp, fa), '')
        if exprs:
            v = exprs[0].args[0]
            parts = [norm(x.value) for x in v.values
                     if isinstance(x, ast.FormattedValue)] if isinstance(
                v, ast.JoinedStr) else []
            c.ob('C15.member-loop', c.key(exprs[0], fa) + ' member term',
                 parts == [mem, 'offset', 'ttype'], c.where(exprs[0], fa),
                 f'term built from {parts}')
    # the member trigger type / semantics come from the map
    unpack = [n for n in ast.walk(fa.node) if isinstance(n, ast.Assign)
              and isinstance(n.targets[0], ast.Tuple)
              and norm(n.value) == 'family_trig_map[name, trig]']
    c.floor('C15.joiner', 'ttype, mem_all = family_trig_map[(name, trig)]',
            len(unpack), 1)
    allv = norm(unpack[0].targets[0].elts[1]) if unpack else 'mem_all'
    joins = [n for n in ast.walk(fa.node) if isinstance(n, ast.Call)
             and isinstance(n.func, ast.Attribute) and n.func.attr == 'join'
             and isinstance(n.func.value, ast.Constant)]
    amp = [j for j in joins if j.func.value.value == '&']
    bar = [j for j in joins if j.func.value.value == '|']
    c.exactly('C15.joiner', "'&'.join sites", len(amp), 1)
    c.exactly('C15.joiner', "'|'.join sites", len(bar), 1)
    for j in amp:
        c.guard('C15.joiner', j, [allv], fa, what='AND only for -all;')
    for j in bar:
        c.guard('C15.joiner', j, [f'!{allv}'], fa, what='OR only for -any;')
    for j in amp + bar:
        c.ob('C15.joiner', c.key(j, fa) + ' joins the member terms',
             norm(j.args[0]) == 'm_expr', c.where(j, fa), '')
        st = c.idx.stmt_of(j)
        c.ob('C15.joiner', c.key(j, fa) + ' parenthesised',
             isinstance(st, ast.Assign) and isinstance(st.value, ast.BinOp)
             and isinstance(st.value.left, ast.Constant)
             and st.value.left.value == '(%s)', c.where(j, fa), '')
    # regex built from the family name must be escaped (F2)
    for call, p in taint.regex_calls(c, fa):
        for node, kind in taint.fragments(c, p):
            if kind == 'const':
                continue
            c.ob('C15.regex-escaped',
                 f'{fa.fq} :: regex fragment `{norm(node)}`',
                 kind == 'escaped', c.where(call, fa),
                 'escaped' if kind == 'escaped' else
                 f'`{norm(node)}` reaches re.{call.func.attr} pattern '
                 'without re.escape: names containing regex metacharacters '
                 '(e.g. "+") are not substituted')
    # lookup in the caller goes through the trigger map
    pdp = c.func('graph_parser', 'GraphParser._proc_dep_pair')
    look = c.find(pdp, '_.fam_to_mem_trigger_map[trig]')
    c.floor('C15.lookup', 'fam_to_mem_trigger_map[trig] in _proc_dep_pair',
            len(look), 1)
    for n in look:
        c.guard('C15.lookup', n, ['name in self.family_map'], pdp)

    # ---- RHS
    ct = c.func('graph_parser', 'GraphParser._compute_triggers')
    mem_loops = [n for n in ast.walk(ct.node) if isinstance(n, ast.For)
                 and norm(n.iter) == 'rhs_members']
    c.floor('C15.rhs-members', 'for mem in rhs_members', len(mem_loops), 1)
    asg = [n for n in ast.walk(ct.node) if isinstance(n, ast.Assign)
           and norm(n.targets[0]) == 'rhs_members']
    fam_src = [a for a in asg if norm(a.value) == 'self.family_map[name]']
    c.floor('C15.rhs-members', 'rhs_members = self.family_map[name]',
            len(fam_src), 1)
    for a in fam_src:
        c.guard('C15.rhs-members', a, ['name in self.family_map'], ct)
    for lp in mem_loops:
        mem = norm(lp.target)
        st = c.find(lp, f'self._set_triggers({mem}, *_)')
        so = c.find(lp, f'self._set_output_opt({mem}, output, optional, '
                    'suicide, fam)')
        c.floor('C15.rhs-members', '_set_triggers(mem, ...) per member',
                len(st), 1)
        c.floor('C15.rhs-members', '_set_output_opt(mem, output, optional, '
                'suicide, fam) per member', len(so), 1)
        for s in st:
            c.guard_only('C15.rhs-members', s, ['!offset', 'm'], ct)
    om = c.find(ct, '_.fam_to_mem_output_map[output]')
    c.floor('C15.rhs-members', 'fam_to_mem_output_map[output] lookup',
            len(om), 1)


VARIANTS = [
    ('any-uses-and', 'cylc/flow/graph_parser.py',
     "                    that = '(%s)' % '|'.join(m_expr)",
     "                    that = '(%s)' % '&'.join(m_expr)", 'C15.joiner'),
    ('swap-all', 'cylc/flow/graph_parser.py',
     '        QUAL_FAM_FAIL_ANY: (TASK_OUTPUT_FAILED, False),',
     '        QUAL_FAM_FAIL_ANY: (TASK_OUTPUT_FAILED, True),',
     'C15.trigger-map'),
    ('wrong-output', 'cylc/flow/graph_parser.py',
     '        QUAL_FAM_START_ALL: [TASK_OUTPUT_STARTED],',
     '        QUAL_FAM_START_ALL: [TASK_OUTPUT_SUBMITTED],',
     'C15.output-map'),
    ('skip-first-member', 'cylc/flow/graph_parser.py',
     '                for mem in self.family_map[name]:\n'
     '                    m_info.append((mem, offset, ttype))',
     '                for mem in self.family_map[name][1:]:\n'
     '                    m_info.append((mem, offset, ttype))',
     'C15.member-loop'),
    ('F1-regression', 'cylc/flow/graph_parser.py',
     '        QUAL_FAM_SUBMIT_FAIL_ANY: (TASK_OUTPUT_SUBMIT_FAILED, False),',
     '        QUAL_FAM_SUBMIT_FAIL_ANY: (TASK_OUTPUT_SUBMITTED, False),',
     'C15.trigger-map'),
    ('F2-regression', 'cylc/flow/graph_parser.py',
     '''                    re.escape(name),
                    re.escape(offset),
                    re.escape(trig)''',
     '''                    name,
                    re.escape(offset),
                    re.escape(trig)''', 'C15.regex-escaped'),
    ('rhs-first-only', 'cylc/flow/graph_parser.py',
     '            for mem in rhs_members:',
     '            for mem in rhs_members[:1]:', 'C15.rhs-members'),
]

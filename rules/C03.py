"""C03 No premature shutdown and no false stall — safety clauses."""
import ast

from sa.core import AnalysisError, norm
from sa.pat import AnyOf, StatusCovers, StatusIn

TECHNIQUE = ('static analysis: guard dominance of the shutdown / stall '
             'verdicts, case-coverage of their any(...) task predicates over '
             'folded status sets, guard atoms of task removal')

CLAUSES = (
    'Decided: check_auto_shutdown returns True only when not paused, not in '
    'restart-timeout wait, not stalled, and no task is preparing/submitted/'
    'running or waiting-and-not-runahead-limited; AUTO stop is set only when '
    'no stop mode is set and stop clock / stop task / auto shutdown says so; '
    'SchedulerStop is raised only when the pool can stop; is_stalled returns '
    'False whenever a task is active/preparing or waiting, released and '
    'satisfied, and otherwise reports incomplete tasks or unsatisfied '
    'prerequisites (ignoring only points beyond the stop point); the stall '
    'check runs only when nothing updated and no stop is in progress and not '
    'while paused; a finished task is removed only if its outputs are '
    'complete; every change of membership of active_tasks sets '
    'active_tasks_changed before any TaskPool method that reads the cached '
    'get_tasks() list is called (the stall test, the runahead base point '
    'and the future-offset scan see the true pool). '
    'The queued flag is written only by TaskState (never copied to a reload successor). '
    'Not decided: liveness ("never leaves a ready task unsubmitted '
    'indefinitely").')

S = 'scheduler'
TP = 'task_pool'


def check(c):
    # the queued flag says "sits in a queue of the queue manager": it is
    # set through state_reset by the queueing / release code only -- never
    # copied from another proxy (reload builds new, empty queues and relies
    # on successors starting un-queued, so that they are pushed again)
    c.who_writes('C03.queued-flag', 'is_queued', {
        ('task_state:TaskState.__init__', 'assign'),
        ('task_state:TaskState.reset', 'assign'),
    }, floor=2)
    from rules._shared import pool_cache_rules
    pool_cache_rules(c, 'C03.pool-cache')
    # ---- auto shutdown
    cas = c.func(S, 'Scheduler.check_auto_shutdown')
    trues = [r for r in c.idx.walk(cas.node) if isinstance(r, ast.Return)
             and norm(r.value) == 'True']
    c.exactly('C03.auto-shutdown', 'return True', len(trues), 1)
    for r in trues:
        c.guard('C03.auto-shutdown', r, [
            '!self.is_paused', '!self.is_restart_timeout_wait',
            '!self.check_workflow_stalled()'], cas)
        # the any(...) over the pool
        anyf = None
        for f in c.facts(r):
            if f[0] == 'atom' and not f[2]:
                ac = c.any_condition(f[1])
                if ac is not None and norm(ac[1]) == 'self.pool.get_tasks()':
                    anyf = ac
        c.ob('C03.auto-shutdown', c.key(r, cas) + ' ⟸ not any(<task needs to '
             'run> for the whole pool)', anyf is not None, c.where(r, cas),
             'negated any(...) over self.pool.get_tasks() dominates')
        if anyf is not None:
            cond = anyf[0]
            ok1 = c.case_covered(cond, [StatusCovers(
                'preparing', 'submitted', 'running')], r)
            c.ob('C03.auto-shutdown', f'{cas.fq} :: preparing/submitted/'
                 'running tasks block shutdown', ok1, c.where(cond, cas),
                 norm(cond)[:200])
            ok2 = c.case_covered(cond, [
                StatusCovers('waiting'), '!_.state.is_runahead'], r)
            c.ob('C03.auto-shutdown', f'{cas.fq} :: waiting non-runahead '
                 'tasks block shutdown', ok2, c.where(cond, cas),
                 norm(cond)[:200])
    ws = c.func(S, 'Scheduler.workflow_shutdown')
    autos = c.find(ws, 'self._set_stop(StopMode.AUTO)')
    c.exactly('C03.auto-stop', '_set_stop(StopMode.AUTO)', len(autos), 1)
    for a in autos:
        c.guard('C03.auto-stop', a, [
            'self.stop_mode is None',
            AnyOf('self.stop_clock_done()', 'self.pool.stop_task_done()',
                  'self.check_auto_shutdown()')], ws)
    # other AUTO sites
    for n in c.find(None, '_._set_stop(StopMode.AUTO)'):
        f = c.owner(n)
        c.ob('C03.auto-stop', c.key(n, f) + ' [site]', f is ws,
             c.where(n, f), 'AUTO stop set only in workflow_shutdown')
    stops = [n for n in c.idx.walk(ws.node) if isinstance(n, ast.Raise)
             and n.exc is not None and 'SchedulerStop' in norm(n.exc)]
    c.floor('C03.stop-raise', 'raise SchedulerStop', len(stops), 1)
    for n in stops:
        c.guard('C03.stop-raise', n,
                ['self.pool.can_stop(self.stop_mode)'], ws)
    cs = c.func(TP, 'TaskPool.can_stop')
    rets = [r for r in c.idx.walk(cs.node) if isinstance(r, ast.Return)]
    ok = any(norm(r.value) == 'False' and c.holds(r, 'stop_mode is None')
             for r in rets)
    c.ob('C03.stop-raise', f'{cs.fq} :: no stop mode ⟹ cannot stop', ok,
         c.where(cs.node, cs), '')

    # ---- stall
    st = c.func(TP, 'TaskPool.is_stalled')
    falses = [r for r in c.idx.walk(st.node) if isinstance(r, ast.Return)
              and norm(r.value) == 'False']
    c.floor('C03.stall', 'return False in is_stalled', len(falses), 1)
    covered_active = covered_ready = False
    for r in falses:
        for f in c.facts(r):
            if f[0] == 'atom' and f[2]:
                ac = c.any_condition(f[1])
                if ac is None or norm(ac[1]) != 'self.get_tasks()':
                    continue
                cond = ac[0]
                if c.case_covered(cond, [StatusCovers(
                        'submitted', 'running', 'preparing')], r):
                    covered_active = True
                if c.case_covered(cond, [
                        StatusCovers('waiting'), '!_.state.is_runahead',
                        '_.prereqs_are_satisfied()'], r):
                    covered_ready = True
    c.ob('C03.stall', f'{st.fq} :: an active or preparing task means not '
         'stalled', covered_active, c.where(st.node, st), '')
    c.ob('C03.stall', f'{st.fq} :: a released, satisfied waiting task means '
         'not stalled', covered_ready, c.where(st.node, st), '')
    finals = [r for r in c.idx.walk(st.node) if isinstance(r, ast.Return)
              and norm(r.value) != 'False']
    c.exactly('C03.stall', 'verdict return', len(finals), 1)
    for r in finals:
        names = sorted(n.id for n in ast.walk(r.value)
                       if isinstance(n, ast.Name))
        srcs = {}
        for n in c.idx.walk(st.node):
            if isinstance(n, ast.Assign) and norm(n.targets[0]) in names:
                srcs[norm(n.targets[0])] = norm(n.value)
        ok = (isinstance(r.value, ast.BoolOp) and isinstance(
            r.value.op, ast.Or) and sorted(srcs.values()) == [
            'self.log_incomplete_tasks()', 'self.log_unsatisfied_prereqs()'])
        c.ob('C03.stall', c.key(r, st) + ' = incomplete or unsatisfied', ok,
             c.where(r, st), f'{norm(r.value)} from {srcs}')
    lu = c.func(TP, 'TaskPool.log_unsatisfied_prereqs')
    # an unsatisfied prerequisite is left out of the stall report only when
    # the task or the prerequisite is beyond the stop point (whether written
    # as `if ...: continue` or as the negated test around the rest)
    recs = [n for n in c.calls(lu, 'append') if 'unsat' in norm(n.func.value)]
    c.floor('C03.stall-ignores', 'unsatisfied prerequisite recorded',
            len(recs), 1)
    for n in recs:
        c.guard_only('C03.stall-ignores', n, [
            'self.stop_point', 'self.stop_point < _p',
            '!(self.stop_point < _p)', '!self.stop_point'], lu,
            what='only prerequisites beyond the stop point are ignored;')
    for n in c.idx.walk(lu.node):
        if isinstance(n, ast.Continue):
            c.guard('C03.stall-ignores', n, ['self.stop_point',
                                            'self.stop_point < _p'], lu,
                    what='only beyond the stop point;')
    # the incomplete-task report lists exactly the finished, incomplete tasks
    # (loop with append or comprehension)
    li = c.func(TP, 'TaskPool.log_incomplete_tasks')
    apps = [a.args[0] for a in c.calls(li, 'append')
            if norm(a.func.value) == 'incomplete' and a.args] + [
        n.value.elt for n in c.idx.walk(li.node) if isinstance(n, ast.Assign)
        and norm(n.targets[0]) == 'incomplete' and isinstance(
            n.value, ast.ListComp)]
    c.floor('C03.stall', 'incomplete tasks collected', len(apps), 1)
    for a in apps:
        c.guard('C03.stall', a, [
            StatusIn('failed', 'succeeded', 'expired', 'submit-failed'),
            '!itask.state.outputs.is_complete()'], li)
        src = set()
        cur = a
        while id(cur) in c.idx.parent and cur is not li.node:
            cur = c.idx.parent[id(cur)]
            if isinstance(cur, ast.For):
                src.add(norm(cur.iter))
            elif isinstance(cur, ast.ListComp):
                src |= {norm(g.iter) for g in cur.generators}
        c.ob('C03.stall', c.key(a, li)[:100] + ' over the whole pool',
             'self.get_tasks()' in src, c.where(a, li), str(sorted(src)))
    cws = c.func(S, 'Scheduler.check_workflow_stalled')
    sets = [s for s in c.stores(cws, 'is_stalled') if norm(s.value) == 'True']
    c.floor('C03.stall', 'is_stalled = True', len(sets), 1)
    for s in sets:
        c.guard('C03.stall', s.node,
                ['self.pool.is_stalled()', '!self.is_paused'], cws)
    ml = c.func(S, 'Scheduler._main_loop')
    for n in c.find(ml, 'self.check_workflow_stalled()'):
        c.guard('C03.stall', n, ['!has_updated', '!self.stop_mode'], ml)
    for n in c.find(None, '_.check_workflow_stalled()'):
        f = c.owner(n)
        c.ob('C03.stall', c.key(n, f) + ' [site]',
             f is not None and f.fq in (f'{S}:Scheduler._main_loop',
                                        f'{S}:Scheduler.check_auto_shutdown'),
             c.where(n, f), '')

    # ---- the manual-trigger exemption is consumed (necessary for "a ready
    # task is not left unsubmitted": queue_if_ready skips manual tasks, so a
    # task that falls back to waiting for a submission retry must no longer
    # carry the flag)
    tjm = 'task_job_mgr'
    after_submission = {
        # reached only after submit_livelike_task_jobs queued the job row
        # (where the flag is reset) or for jobs that were already submitted
        f'{tjm}:TaskJobManager._submit_task_job_callback',
        f'{tjm}:TaskJobManager._kill_task_job_callback',
        f'{tjm}:TaskJobManager._poll_task_job_callback',
    }
    senders = [n for n in c.calls(tjm, 'process_message')
               if any(norm(a).endswith('EVENT_SUBMIT_FAILED')
                      for a in n.args)]
    # universal over the senders; the floor counts those that are *not*
    # covered by the after-submission argument (merging duplicate calls in a
    # callback must not trip it)
    c.floor('C03.manual-exemption-consumed', 'submit-failed senders in '
            'task_job_mgr outside the after-submission callbacks', len([
                n for n in senders
                if c.owner(n).fq not in after_submission]), 1)

    def is_reset(s):
        return isinstance(s, ast.Assign) and norm(
            s.targets[0]) == 'itask.is_manual_submit' and norm(
            s.value) == 'False'
    for n in senders:
        f = c.owner(n)
        if f.fq in after_submission:
            c.ob('C03.manual-exemption-consumed', c.key(n, f)[:140] +
                 ' [after submission]', True, c.where(n, f),
                 'flag already reset when the job row was queued')
            continue
        ok = c.cfg(f).dominated_by(c.idx.stmt_of(n), is_reset)
        c.ob('C03.manual-exemption-consumed', c.key(n, f)[:140] +
             ' after is_manual_submit = False', ok, c.where(n, f),
             'flag reset before the task can fall back to waiting' if ok else
             'a preparation failure with a submission retry lined up returns '
             'the task to waiting still flagged as manually triggered: '
             'queue_if_ready skips it forever, no stall is reported and the '
             'scheduler never shuts down')
    sl = c.func(tjm, 'TaskJobManager.submit_livelike_task_jobs')
    for p in c.calls(sl, 'put_command'):
        def rec_loop(s):
            return isinstance(s, ast.For) and any(
                is_reset(x) for x in ast.walk(s)) and any(
                isinstance(x, ast.Call) and isinstance(x.func, ast.Attribute)
                and x.func.attr == 'put_insert_task_jobs'
                for x in ast.walk(s))
        c.ob('C03.manual-exemption-consumed', c.key(p, sl)[:100] +
             ' after the flag reset loop',
             c.cfg(sl).dominated_by(c.idx.stmt_of(p), rec_loop),
             c.where(p, sl), '')
    qir = c.func(TP, 'TaskPool.queue_if_ready')
    c.floor('C03.manual-exemption-consumed', 'queue_if_ready skips manual '
            'tasks (the exemption this clause protects)', len([
                n for n in c.calls(qir, 'queue_task')
                if c.holds(n, '!itask.is_manual_submit')]), 1)

    # ---- retention
    ric = c.func(TP, 'TaskPool.remove_if_complete')
    rms = c.find(ric, 'self.remove(itask)')
    c.floor('C03.retention', 'remove in remove_if_complete', len(rms), 1)
    final_set = ['failed', 'succeeded', 'expired', 'submit-failed']
    n_c8 = 0
    for n in rms:
        c.guard('C03.retention', n, [StatusIn(*final_set)], ric)
        if c.holds(n, '!cylc.flow.flags.cylc7_back_compat'):
            n_c8 += 1
            c.guard('C03.retention', n,
                    ['itask.state.outputs.is_complete()'], ric,
                    what='incomplete tasks are retained;')
    c.floor('C03.retention', 'Cylc 8 removal site', n_c8, 1)


VARIANTS = [
    ('reload-keeps-queued-flag', 'cylc/flow/task_proxy.py',
     '        reload_successor.state.is_held = self.state.is_held\n',
     '        reload_successor.state.is_held = self.state.is_held\n'
     '        reload_successor.state.is_queued = self.state.is_queued\n',
     'C03.queued-flag'),
    ('flag-after-offset-scan', 'cylc/flow/task_pool.py',
     '''        self.active_tasks[itask.point][itask.identity] = itask
        self.active_tasks_changed = True
        LOG.debug(f"[{itask}] added to the n=0 window")

        self.create_data_store_elements(itask)

        if itask.tdef.max_future_prereq_offset is not None:
            # (Must do this once added to the pool).
            self.set_max_future_offset()
''', '''        self.active_tasks[itask.point][itask.identity] = itask
        LOG.debug(f"[{itask}] added to the n=0 window")

        self.create_data_store_elements(itask)

        if itask.tdef.max_future_prereq_offset is not None:
            # (Must do this once added to the pool).
            self.set_max_future_offset()
        self.active_tasks_changed = True
''', 'C03.pool-cache'),
    ('removal-keeps-cache', 'cylc/flow/task_pool.py',
     '''            self.tasks_removed = True
            self.active_tasks_changed = True
''', '''            self.tasks_removed = True
''', 'C03.pool-cache'),
    ('shutdown-ignores-preparing', 'cylc/flow/scheduler.py',
     '''                if itask.state(
                    TASK_STATUS_PREPARING,
                    TASK_STATUS_SUBMITTED,
                    TASK_STATUS_RUNNING,
                ) or (
                    # This is because''',
     '''                if itask.state(
                    TASK_STATUS_SUBMITTED,
                    TASK_STATUS_RUNNING,
                ) or (
                    # This is because''', 'C03.auto-shutdown'),
    ('shutdown-ignores-queued', 'cylc/flow/scheduler.py',
     '''                    itask.state(TASK_STATUS_WAITING)
                    and not itask.state.is_runahead
                )
            )
        ):
            return False''',
     '''                    itask.state(TASK_STATUS_WAITING)
                    and not itask.state.is_runahead
                    and not itask.state.is_queued
                )
            )
        ):
            return False''', 'C03.auto-shutdown'),
    ('shutdown-while-paused', 'cylc/flow/scheduler.py',
     '''            self.is_paused or
            self.is_restart_timeout_wait or''',
     '''            self.is_restart_timeout_wait or''', 'C03.auto-shutdown'),
    ('auto-stop-overrides', 'cylc/flow/scheduler.py',
     '        if self.stop_mode is None and (\n            self.stop_clock_done',
     '        if (\n            self.stop_clock_done', 'C03.auto-stop'),
    ('stall-ignores-preparing', 'cylc/flow/task_pool.py',
     '''            itask.state(
                *TASK_STATUSES_ACTIVE,
                TASK_STATUS_PREPARING
            ) or (''', '''            itask.state(
                *TASK_STATUSES_ACTIVE,
            ) or (''', 'C03.stall'),
    ('stall-while-paused', 'cylc/flow/scheduler.py',
     '''        if self.is_paused:  # cannot be stalled it's not even running
            return False
''', '', 'C03.stall'),
    ('remove-incomplete', 'cylc/flow/task_pool.py',
     '''        if not itask.state.outputs.is_complete():
            # Keep incomplete tasks in the pool.
            if output in TASK_STATUSES_FINAL:''',
     '''        if not itask.state.outputs.is_complete() and output is None:
            # Keep incomplete tasks in the pool.
            if output in TASK_STATUSES_FINAL:''', 'C03.retention'),
    ('stall-ignores-unsatisfied', 'cylc/flow/task_pool.py',
     '        return (incomplete or unsatisfied)',
     '        return incomplete', 'C03.stall'),
]

"""C18 Cycle point and interval algebra is a consistent total order."""
import ast

from sa.core import AnalysisError, norm

TECHNIQUE = ('static analysis: sibling agreement of the rich-comparison '
             'methods with the (operator, constant) table over __cmp__, '
             'callee summary "every _cmp returns through the normalising '
             'cmp() helper (values in {-1, 0, 1})" followed through wrappers, '
             'guard atoms of __cmp__, hash-consistency and type-guard checks')

CLAUSES = (
    'Decided: for PointBase and IntervalBase the rich comparisons are derived '
    'from __cmp__ with the canonical operator/constant pairs (== 0, == -1 or '
    '< 0, <= 0, == 1 or > 0, >= 0); because < and > compare with -1 / 1, '
    'every _cmp implementation (integer and ISO8601, points and intervals) '
    'returns a cmp(...) call or a literal in {-1, 0, 1} (followed through '
    'cached helper wrappers); cmp() itself returns only -1, 0, 1 and 0 '
    'exactly for ==; __cmp__ returns 0 for equal values, orders different '
    'cycling types by TYPE_SORT_KEY and delegates otherwise; __hash__ is a '
    'function of value only; + and - reject mixed cycling types; subclasses '
    'do not override the rich comparisons. Not decided: idempotent '
    'standardisation and add/sub inverse (numeric results).')

CY = 'cycling'
TABLE = {
    '__eq__': [('==', 0)],
    '__lt__': [('==', -1), ('<', 0)],
    '__le__': [('<=', 0)],
    '__gt__': [('==', 1), ('>', 0)],
    '__ge__': [('>=', 0)],
}
OPS = {ast.Eq: '==', ast.Lt: '<', ast.LtE: '<=', ast.Gt: '>', ast.GtE: '>='}


def _ret_exprs(c, f):
    return [r.value for r in c.idx.walk(f.node) if isinstance(r, ast.Return)
            and r.value is not None]


def _normalised(c, f, depth=0, seen=None):
    """Every return of f is cmp(...) / a literal in {-1,0,1} / a call of a
    helper that is itself normalised."""
    seen = seen or set()
    if f.fq in seen or depth > 3:
        return False, 'recursion'
    seen.add(f.fq)
    rets = _ret_exprs(c, f)
    if not rets:
        return False, 'no return'
    for v in rets:
        if isinstance(v, ast.Constant) and v.value in (-1, 0, 1) and \
                not isinstance(v.value, bool):
            continue
        if isinstance(v, ast.UnaryOp) and isinstance(v.op, ast.USub) and \
                isinstance(v.operand, ast.Constant) and v.operand.value == 1:
            continue
        if isinstance(v, ast.Call):
            name = v.func.attr if isinstance(v.func, ast.Attribute) else (
                v.func.id if isinstance(v.func, ast.Name) else None)
            if name == 'cmp':
                continue
            h = None
            if isinstance(v.func, ast.Attribute) and isinstance(
                    v.func.value, ast.Name) and v.func.value.id == 'self' \
                    and f.cls is not None:
                h = c.idx.mro_methods(f.cls, name)
            if h is not None:
                ok, why = _normalised(c, h, depth + 1, seen)
                if ok:
                    continue
                return False, f'{h.fq}: {why}'
        return False, f'returns {norm(v)[:60]}'
    return True, ''


def check(c):
    for base in ('PointBase', 'IntervalBase'):
        ci = c.idx.cls(base, CY)
        for meth, allowed in TABLE.items():
            f = ci.methods.get(meth)
            if f is None:
                c.ob('C18.rich-compare', f'{CY}:{base}.{meth} defined', False,
                     c.where(ci.node), 'missing')
                continue
            c.funcs_seen.add(f.fq)
            rets = _ret_exprs(c, f)
            cmps = [v for v in rets if isinstance(v, ast.Compare)]
            ok = len(cmps) == 1
            got = None
            if ok:
                v = cmps[0]
                got = (OPS.get(type(v.ops[0])), c.fold(v.comparators[0])
                       if not isinstance(v.comparators[0], ast.UnaryOp)
                       else -c.fold(v.comparators[0].operand))
                ok = norm(v.left) == 'self.__cmp__(other)' and got in allowed
            c.ob('C18.rich-compare', f'{f.fq} :: __cmp__(other) {got}',
                 ok, c.where(f.node, f), f'allowed {allowed}')
            other = [v for v in rets if not isinstance(v, ast.Compare)]
            c.ob('C18.rich-compare', f'{f.fq} :: other returns', all(
                norm(v) == 'NotImplemented' for v in other),
                c.where(f.node, f), str([norm(v) for v in other]))
        # __cmp__
        cm = ci.methods['__cmp__']
        c.funcs_seen.add(cm.fq)
        zeros = [r for r in c.idx.walk(cm.node) if isinstance(r, ast.Return)
                 and norm(r.value) == '0']
        c.floor('C18.cmp', f'{cm.fq} return 0', len(zeros), 1)
        for r in zeros:
            c.guard('C18.cmp', r, ['self.value == other.value'], cm)
        ts = [r for r in c.idx.walk(cm.node) if isinstance(r, ast.Return)
              and 'TYPE_SORT_KEY' in norm(r.value)]
        c.floor('C18.cmp', f'{cm.fq} type ordering', len(ts), 1)
        for r in ts:
            c.guard('C18.cmp', r, ['!(self.TYPE == other.TYPE)'], cm)
            c.ob('C18.cmp', c.key(r, cm) + ' via cmp()', norm(r.value) ==
                 'cmp(self.TYPE_SORT_KEY, other.TYPE_SORT_KEY)',
                 c.where(r, cm), '')
        dl = [r for r in c.idx.walk(cm.node) if isinstance(r, ast.Return)
              and norm(r.value) == 'self._cmp(other)']
        c.exactly('C18.cmp', f'{cm.fq} delegates to _cmp', len(dl), 1)
        for r in dl:
            c.guard('C18.cmp', r, ['self.TYPE == other.TYPE',
                                   '!(self.value == other.value)'], cm)
        hs = ci.methods['__hash__']
        c.ob('C18.hash', f'{hs.fq} :: hash(self.value)', [
            norm(v) for v in _ret_exprs(c, hs)] == ['hash(self.value)'],
            c.where(hs.node, hs), '')
        for op in ('__add__', '__sub__'):
            f = ci.methods.get(op)
            if f is None:
                continue
            raises = [r for r in c.idx.walk(f.node) if isinstance(r, ast.Raise)
                      and 'CyclerTypeError' in norm(r.exc)]
            c.floor('C18.type-guard', f'{f.fq} raises CyclerTypeError',
                    len(raises), 1)
            for r in raises:
                c.guard('C18.type-guard', r,
                        ['!(self.TYPE == other.TYPE)'], f)
            for r in c.idx.walk(f.node):
                if isinstance(r, ast.Return):
                    c.guard('C18.type-guard', r,
                            ['self.TYPE == other.TYPE'], f)
        # subclasses
        n_sub = 0
        for sub in c.idx.subclasses(base):
            n_sub += 1
            bad = [m for m in sub.methods if m in TABLE or m in (
                '__cmp__', '__hash__', '__ne__')]
            c.ob('C18.no-override', f'{sub.mod}:{sub.name} does not override '
                 'comparisons / hash', not bad, c.where(sub.node), str(bad))
            f = sub.methods.get('_cmp')
            if f is None:
                # inherited abstract? must exist somewhere in the MRO
                f = c.idx.mro_methods(sub, '_cmp')
            c.funcs_seen.add(f.fq)
            ok, why = _normalised(c, f)
            c.ob('C18.cmp-normalised', f'{f.fq} returns through cmp() '
                 '(values in {-1, 0, 1})', ok, c.where(f.node, f),
                 'normalised' if ok else f'{why}: __lt__/__gt__ compare with '
                 '-1/1 exactly, so any other negative/positive value makes '
                 'a < b and a > b both false')
        c.floor('C18.cmp-normalised', f'subclasses of {base}', n_sub, 2)
    # cmp helper
    cmpf = c.func(CY, 'cmp')
    rets = c.idx.walk(cmpf.node)
    vals = []
    for r in rets:
        if isinstance(r, ast.Return):
            v = r.value
            if isinstance(v, ast.UnaryOp):
                vals.append(-v.operand.value)
            elif isinstance(v, ast.Constant):
                vals.append(v.value)
            else:
                vals.append(norm(v))
    c.ob('C18.cmp-normalised', f'{cmpf.fq} returns only -1, 0, 1',
         sorted(map(str, vals)) == ['-1', '0', '1'], c.where(cmpf.node, cmpf),
         str(vals))
    for r in c.idx.walk(cmpf.node):
        if isinstance(r, ast.Return) and norm(r.value) == '0':
            c.guard('C18.cmp-normalised', r, ['self == other'], cmpf)
        if isinstance(r, ast.Return) and norm(r.value) == '-1':
            c.guard('C18.cmp-normalised', r, ['self < other'], cmpf)

    # ---- memoised point helpers: the result of point arithmetic and
    # comparison depends on the calendar in force (month lengths), which is
    # process-global mutable state, so it must be part of the cache key
    iso = 'cycling.iso8601'
    cached = []
    for f in list(c.idx.all_funcs()):
        if f.mod != iso:
            continue
        decs = [norm(d) for d in f.node.decorator_list]
        if not any(d.startswith('lru_cache') or d.startswith(
                'functools.lru_cache') or d in ('cache', 'functools.cache')
                for d in decs):
            continue
        uses_points = any(
            isinstance(n, ast.Call) and norm(n.func) in (
                'point_parse', '_point_parse', 'TimePoint')
            for n in c.idx.walk(f.node))
        if uses_points and f.name != '_point_parse':
            cached.append(f)
    c.floor('C18.cache-key', 'memoised helpers that parse time points',
            len(cached), 4)
    for f in cached:
        c.funcs_seen.add(f.fq)
        params = [a.arg for a in f.node.args.args]
        ok = '_calendar_mode' in params
        c.ob('C18.cache-key', f'{f.fq} :: the calendar mode is part of the '
             'memoisation key', ok, c.where(f.node, f),
             f'parameters {params}' + ('' if ok else ' — results computed '
             'under one calendar are served under another: ordering and '
             'arithmetic of points near month ends then disagree with the '
             'calendar in force'))
        if not ok:
            continue
        pos = params.index('_calendar_mode')
        sites = c.calls(iso, f.name)
        c.floor('C18.cache-key', f'calls of {f.name}', len(sites), 1)
        for s in sites:
            kw = {k.arg: norm(k.value) for k in s.keywords}
            val = kw.get('_calendar_mode') or (
                norm(s.args[pos]) if len(s.args) > pos else None)
            c.ob('C18.cache-key', c.key(s) + ' passes the calendar in force',
                 val == 'CALENDAR.mode', c.where(s), f'{val}')


VARIANTS = [
    ('lt-le', 'cylc/flow/cycling/__init__.py',
     '''    def __lt__(self, other: 'PointBase') -> bool:
        return self.__cmp__(other) == -1''',
     '''    def __lt__(self, other: 'PointBase') -> bool:
        return self.__cmp__(other) <= 0''', 'C18.rich-compare'),
    ('raw-difference', 'cylc/flow/cycling/integer.py',
     '''        """Compare self.value to self.other as integers with 'cmp'."""
        return cmp(int(self), int(other))''',
     '''        """Compare self.value to self.other as integers with 'cmp'."""
        return int(self) - int(other)''', 'C18.cmp-normalised'),
    ('iso-raw', 'cylc/flow/cycling/iso8601.py',
     '''        other_point = point_parse(other_point_string)
        return cmp(point, other_point)''',
     '''        other_point = point_parse(other_point_string)
        return (point > other_point) - (point < other_point) * 2''',
     'C18.cmp-normalised'),
    ('hash-type', 'cylc/flow/cycling/__init__.py',
     '''        return self.__cmp__(other) >= 0

    def __hash__(self) -> int:
        return hash(self.value)

    def __sub__(self, other):
        # Subtract other (point or interval) from self.''',
     '''        return self.__cmp__(other) >= 0

    def __hash__(self) -> int:
        return hash((self.value, id(self)))

    def __sub__(self, other):
        # Subtract other (point or interval) from self.''', 'C18.hash'),
    ('mixed-add', 'cylc/flow/cycling/__init__.py',
     '''        # Add other (point or interval) from self.
        if self.TYPE != other.TYPE:
            raise CyclerTypeError(self.TYPE, self, other.TYPE, other)
        return self.add(other)


class IntervalBase''', '''        # Add other (point or interval) from self.
        return self.add(other)


class IntervalBase''', 'C18.type-guard'),
    ('eq-shortcut-dropped', 'cylc/flow/cycling/__init__.py',
     '''        if self.value == other.value:
            return 0
        return self._cmp(other)

    def __eq__(self, other: object) -> bool:
        if isinstance(other, self.__class__):
            return self.__cmp__(other) == 0
        return NotImplemented

    def __lt__(self, other: 'PointBase') -> bool:''',
     '''        if self.value is other.value:
            return 0
        return self._cmp(other)

    def __eq__(self, other: object) -> bool:
        if isinstance(other, self.__class__):
            return self.__cmp__(other) == 0
        return NotImplemented

    def __lt__(self, other: 'PointBase') -> bool:''', 'C18.cmp'),
    ('cmp-cache-no-calendar', 'cylc/flow/cycling/iso8601.py',
     '''        return self._iso_point_cmp(self.value, other.value, CALENDAR.mode)

    @staticmethod
    @lru_cache(_LRU_CACHE_SIZE)
    def _iso_point_cmp(point_string, other_point_string, _calendar_mode):''',
     '''        return self._iso_point_cmp(self.value, other.value)

    @staticmethod
    @lru_cache(_LRU_CACHE_SIZE)
    def _iso_point_cmp(point_string, other_point_string):''',
     'C18.cache-key'),
    ('cmp-cache-constant-calendar', 'cylc/flow/cycling/iso8601.py',
     'return self._iso_point_cmp(self.value, other.value, CALENDAR.mode)',
     'return self._iso_point_cmp(self.value, other.value, None)',
     'C18.cache-key'),
]

"""C01 Graph-faithful execution — the doors into submission."""
import ast

from sa.core import AnalysisError, norm
from sa.pat import AnyOf, StatusIn, StatusNotIn

TECHNIQUE = ('static analysis: call-graph closure (who may reach job '
             'preparation), provenance of the task set handed to submission, '
             'guard dominance at the queueing sites, conjunct check of the '
             'readiness predicate, who-may-satisfy allow-lists for natural and '
             'forced prerequisite satisfaction, who-may-call of the on-sequence '
             'step and shape of the next-parentless-point selection')

CLAUSES = (
    'Decided: job preparation is reachable only through the submission chain '
    'release_tasks_to_run / restart of manually-triggered waiting tasks -> '
    'start_job_submission -> submit_task_jobs -> prep_submit_task_jobs; what '
    'is handed to submission comes only from manually triggered tasks, queue '
    'releases, or tasks already waiting on job prep; a task is marked '
    'waiting_on_job_prep only by queue release, manual trigger, submission '
    'retry-on-255 and the restart path; queueing requires readiness (not '
    'queued, not runahead-limited, not manual, ready) or release of a held '
    'ready task or an incomplete re-run on flow merge; readiness requires '
    'not held, waiting, prerequisites, external triggers and xtriggers '
    'satisfied; natural prerequisite satisfaction uses the completed output '
    'of the parent (or the recorded absolute outputs); forced satisfaction is '
    'reachable only from commands; the next parentless instance is the '
    'earliest, over every recurrence of the task, of get_next_point(point) '
    '(the off-sequence-safe step; get_next_point_on_sequence is confined to '
    'the cycling classes and the graph walk); the family member table given '
    'to the graph parser lists every task descendant (full linearisation). '
    'Not decided: equality of the submitted set '
    'with the spawn-on-demand closure over all graphs and outcomes.')

S = 'scheduler'
TP = 'task_pool'
TJM = 'task_job_mgr'


def check(c):
    # ---- (1) call chain into job preparation
    chain = {
        'prep_submit_task_jobs': {
            f'{TJM}:TaskJobManager.submit_livelike_task_jobs': []},
        'submit_livelike_task_jobs': {
            f'{TJM}:TaskJobManager.submit_task_jobs': []},
        'submit_nonlive_task_jobs': {
            f'{TJM}:TaskJobManager.submit_task_jobs': []},
        'start_job_submission': {
            f'{S}:Scheduler.release_tasks_to_run': [],
            f'{S}:Scheduler.run_scheduler': ['self.is_restart']},
    }
    for name, allowed in chain.items():
        c.who_calls('C01.submission-chain', name, allowed, floor=1)
    # submit_task_jobs: the TaskJobManager method is called only by the
    # scheduler wrapper; the wrapper only by start_job_submission
    for n in c.calls(None, 'submit_task_jobs'):
        f = c.owner(n)
        fq = f.fq if f else '<module>'
        recv = norm(n.func.value) if isinstance(n.func, ast.Attribute) else ''
        if recv == 'self.task_job_mgr':
            ok = fq == f'{S}:Scheduler.submit_task_jobs'
        elif recv == 'self' and fq.startswith(f'{S}:'):
            ok = fq == f'{S}:Scheduler.start_job_submission'
        else:
            ok = False
        c.ob('C01.submission-chain', c.key(n, f) + ' [submit_task_jobs]', ok,
             c.where(n, f), f'{recv}.submit_task_jobs called from {fq}')
    sjs = c.func(S, 'Scheduler.start_job_submission')
    for n in c.find(sjs, 'self.submit_task_jobs(itasks)'):
        c.guard('C01.submission-chain', n, ['!(self.stop_mode is not None)'],
                sjs, what='no submission while stopping;')

    # ---- (2) provenance of the submitted set
    rt = c.func(S, 'Scheduler.release_tasks_to_run')
    call = c.find(rt, 'self.start_job_submission(_a)')
    c.exactly('C01.provenance', 'start_job_submission in '
              'release_tasks_to_run', len(call), 1)
    for n in call:
        var = norm(n.args[0])
        ok_src = {
            'self.pool.tasks_to_trigger_now',
            'self.pool.release_queued_tasks()',
        }
        for u in c.find(rt, f'{var}.update(_)') + c.find(
                rt, f'{var}.add(_)') + c.find(rt, f'{var}.extend(_)'):
            a = u.args[0]
            txt = norm(a)
            ok = txt in ok_src
            if isinstance(a, (ast.SetComp, ast.ListComp, ast.GeneratorExp)):
                g = a.generators[0]
                ok = (len(a.generators) == 1
                      and norm(g.iter) == 'self.pool.get_tasks()'
                      and any(norm(i) == f'{norm(g.target)}.'
                              'waiting_on_job_prep' for i in g.ifs)
                      and norm(a.elt) == norm(g.target))
            c.ob('C01.provenance', c.key(u, rt) + ' source', ok,
                 c.where(u, rt), f'{var} fed from {txt[:80]}')
        for s in c.idx.walk(rt.node):
            if isinstance(s, (ast.Assign, ast.AnnAssign)) and norm(
                    s.targets[0] if isinstance(s, ast.Assign)
                    else s.target) == var:
                v = s.value
                c.ob('C01.provenance', c.key(s, rt) + ' starts empty',
                     v is not None and norm(v) in ('set()', '[]'),
                     c.where(s, rt), '')
        rel = c.find(rt, 'self.pool.release_queued_tasks()')
        for r in rel:
            c.guard('C01.provenance', r, [
                '!self.stop_mode', '!self.is_paused',
                'self.auto_restart_time is None',
                'self.reload_pending is False'], rt)
    rs = c.func(S, 'Scheduler.run_scheduler')
    for n in c.find(rs, 'self.start_job_submission(_a)'):
        var = norm(n.args[0])
        apps = c.find(rs, f'{var}.append(itask)')
        c.floor('C01.provenance', 'restart pre_prep append', len(apps), 1)
        for a in apps:
            c.guard('C01.provenance', a, [
                'itask.is_manual_submit', StatusIn('waiting')], rs)
    # waiting_on_job_prep = True writers
    wj = [s for s in c.stores(None, 'waiting_on_job_prep')
          if norm(s.value) == 'True']
    allow_wj = {
        f'{TP}:TaskPool.release_queued_tasks',
        f'{TP}:TaskPool.queue_or_trigger',
        f'{TJM}:TaskJobManager._submit_task_job_callback_255',
        f'{S}:Scheduler.run_scheduler',
    }
    c.floor('C01.provenance', 'waiting_on_job_prep = True sites', len(wj), 4)
    for s in wj:
        f = c.owner(s.node)
        c.ob('C01.provenance', c.key(s.node, f) + ' [waiting_on_job_prep]',
             f is not None and f.fq in allow_wj, c.where(s.node, f), '')
    qot = c.func(TP, 'TaskPool.queue_or_trigger')
    c.who_writes('C01.provenance', 'tasks_to_trigger_now', {
        (f'{TP}:TaskPool.__init__', 'assign'),
        (f'{TP}:TaskPool.queue_or_trigger', 'call:add'),
        (f'{TP}:TaskPool.remove', 'call:discard'),
        (f'{S}:Scheduler.release_tasks_to_run', 'assign'),
    }, floor=3)
    for n in c.find(qot, 'self.tasks_to_trigger_now.add(itask)'):
        c.guard('C01.provenance', n, ['!itask.state.is_queued'], qot)
    c.who_calls('C01.provenance', 'queue_or_trigger', {
        'commands:_force_trigger_tasks': []}, floor=1)

    # ---- (3) queueing requires readiness
    c.who_calls('C01.queue-gate', 'queue_task', {
        f'{TP}:TaskPool.queue_if_ready': [
            '!itask.state.is_queued', '!itask.state.is_runahead',
            '!itask.is_manual_submit', 'itask.is_ready_to_run()'],
        f'{TP}:TaskPool.release_held_active_task': [
            '!itask.state.is_runahead', 'itask.is_ready_to_run()'],
        f'{TP}:TaskPool.merge_flows': [
            StatusIn('failed', 'succeeded', 'expired', 'submit-failed'),
            '!itask.state.outputs.is_complete()'],
    }, floor=3)
    c.who_calls('C01.queue-gate', 'push_task', {
        f'{TP}:TaskPool.queue_task': [],
        'task_queues.independent:IndepQueueManager.push_task': []}, floor=2)
    rr = c.func('task_proxy', 'TaskProxy.is_ready_to_run')
    rets = [r for r in c.idx.walk(rr.node) if isinstance(r, ast.Return)]
    main = [r for r in rets if isinstance(r.value, ast.BoolOp)]
    c.exactly('C01.readiness', 'conjunctive return of is_ready_to_run',
              len(main), 1)
    for r in main:
        parts = [norm(v) for v in r.value.values]
        need = ['self.prereqs_are_satisfied()',
                'self.state.external_triggers_all_satisfied()',
                'self.state.xtriggers_all_satisfied()']
        ok = isinstance(r.value.op, ast.And) and all(
            p in parts for p in need)
        c.ob('C01.readiness', c.key(r, rr) + ' conjuncts', ok, c.where(r, rr),
             f'{parts}')
        from sa.pat import status_check
        okw = any(
            (lambda sc: sc is not None and sc[2] and sc[1] == {'waiting'})(
                status_check(v, True, c.env(v))) for v in r.value.values)
        c.ob('C01.readiness', c.key(r, rr) + ' requires status waiting', okw,
             c.where(r, rr), '')
        c.guard('C01.readiness', r, ['!self.state.is_held'], rr)
    pas = c.func('task_proxy', 'TaskProxy.prereqs_are_satisfied')
    c.ob('C01.readiness', f'{pas.fq} :: all(pre.is_satisfied() for pre in '
         'self.state.prerequisites)', bool(c.find(
             pas, 'all((_p.is_satisfied() for _p in '
             'self.state.prerequisites))')), c.where(pas.node, pas), '')
    for nm, attr in (('xtriggers_all_satisfied', 'xtriggers'),
                     ('external_triggers_all_satisfied', 'external_triggers'),
                     ('prerequisites_all_satisfied', None)):
        f = c.func('task_state', f'TaskState.{nm}')
        if attr:
            c.ob('C01.readiness', f'{f.fq} :: all(self.{attr}.values())',
                 bool(c.find(f, f'all(self.{attr}.values())')),
                 c.where(f.node, f), '')

    # every dependency of the task is kept (none replaced by a weaker one)
    from rules._shared import prereq_dedup_rules
    prereq_dedup_rules(c, 'C01')

    # ---- (4) satisfaction
    sat = [n for n in c.calls(None, 'satisfy_me')]
    for n in sat:
        f = c.owner(n)
        fq = f.fq if f else ''
        if fq == f'{TP}:TaskPool.spawn_on_output':
            from rules._shared import resolved
            # (the list may be built once in front of the loop over tasks)
            ok = bool(n.args) and norm(resolved(c, f, n.args[0], n)) == \
                '[itask.tokens.duplicate(task_sel=output)]'
            c.ob('C01.satisfy', c.key(n, f) + ' the completed output of the '
                 'parent', ok, c.where(n, f), '')
        elif fq == f'{TP}:TaskPool.spawn_on_all_outputs':
            c.guard('C01.satisfy', n, ['completed_only'], f)
            ok = norm(n.args[0]) == \
                '[itask.tokens.duplicate(task_sel=message)]'
            c.ob('C01.satisfy', c.key(n, f) + ' a completed output', ok and
                 _completed_loop(c, n), c.where(n, f), '')
        elif fq == f'{TP}:TaskPool.spawn_task':
            c.ob('C01.satisfy', c.key(n, f) + ' from abs_outputs_done',
                 'self.abs_outputs_done' in norm(n.args[0]), c.where(n, f),
                 '')
        elif fq == 'task_proxy:TaskProxy.satisfy_me':
            c.ob('C01.satisfy', c.key(n, f), True, c.where(n, f),
                 'delegation to each prerequisite')
        else:
            c.ob('C01.satisfy', c.key(n, f), False, c.where(n, f),
                 f'prerequisites satisfied from {fq}')
    # spawn_on_output is reached with a *completed* output: from
    # TaskEventsManager.spawn_children via spawn_func
    tpi = c.func(TP, 'TaskPool.__init__')
    c.floor('C01.satisfy', 'spawn_func = self.spawn_on_output', len([
        s for s in c.stores(tpi, 'spawn_func')
        if norm(s.value) == 'self.spawn_on_output']), 1)
    c.who_calls('C01.satisfy', 'spawn_on_output', {}, floor=0,
                refs_ok=(f'{TP}:TaskPool.__init__',))
    c.who_calls('C01.satisfy', 'spawn_func', {
        'task_events_mgr:TaskEventsManager.spawn_children': []}, floor=1)
    forced = {
        'force_satisfy': {
            f'{TP}:TaskPool._set_prereqs_itask': [],
            'commands:_force_trigger_tasks': [],
            'xtrigger_mgr:XtriggerManager.force_satisfy_all': []},
        'set_all_task_prerequisites_satisfied': {
            'commands:_force_trigger_tasks': []},
        'set_satisfied': {
            'task_state:TaskState.set_all_task_prerequisites_satisfied': []},
        '_set_prereqs_itask': {
            f'{TP}:TaskPool.set_prereqs_and_outputs': [],
            f'{TP}:TaskPool._set_prereqs_tdef': []},
        '_set_prereqs_tdef': {f'{TP}:TaskPool.set_prereqs_and_outputs': [],
                              'commands:_force_trigger_tasks': []},
        'set_prereqs_and_outputs': {
            'commands:set_prereqs_and_outputs': [],
            'commands:_force_trigger_tasks': [],
            f'{S}:Scheduler._load_pool_from_tasks': []},
        '_force_trigger_tasks': {'commands:force_trigger_tasks': []},
    }
    for name, allowed in forced.items():
        c.who_calls('C01.forced-satisfy', name, allowed, floor=1)
    # Prerequisite.__setitem__ writers outside prerequisite/loader code
    n_set = 0
    for m in (TP, 'task_proxy', 'commands', S, 'task_events_mgr', TJM):
        for n in c.idx.walk(c.idx.module(m).tree):
            if isinstance(n, ast.Assign) and isinstance(
                    n.targets[0], ast.Subscript):
                base = norm(n.targets[0].value)
                if base in ('itask_prereq', 'prereq', 'pre'):
                    n_set += 1
                    f = c.owner(n)
                    ok = f is not None and f.fq in (
                        f'{TP}:TaskPool.load_db_task_pool_for_restart',
                        'task_proxy:TaskProxy.copy_to_reload_successor',
                        'task_proxy:TaskProxy.force_satisfy')
                    c.ob('C01.forced-satisfy', c.key(n, f) + ' [prereq[key] '
                         '= ...]', ok, c.where(n, f), '')
    c.floor('C01.forced-satisfy', 'direct prerequisite item stores seen',
            n_set, 3)
    _next_instance(c)
    # a family in the graph stands for all its members (x => FAM spawns
    # every member; FAM:succeed-all waits for every member): the member
    # table of the parser is complete (rules of C15)
    from rules.C15 import _family_map_rules
    _family_map_rules(c, 'C01.family-members')


def _next_instance(c):
    """Every parentless instance the graph requires gets spawned: the next
    parentless point is the earliest, over *every* recurrence of the task, of
    the recurrence's next point after the current one -- taken with the API
    that accepts a point that is not on that recurrence (the current point is
    only known to lie on one of them)."""
    R = 'C01.next-instance'
    # get_next_point_on_sequence presupposes an on-sequence point: only the
    # cycling classes themselves and the graph walk of the config (which
    # iterates one sequence from its own first point) may use it
    for n in c.calls(None, 'get_next_point_on_sequence'):
        f = c.owner(n)
        fq = f.fq if f else '<module>'
        ok = fq.startswith('cycling.') or fq.startswith('cycling:') or \
            fq == 'config:WorkflowConfig.get_graph_raw'
        c.ob(R, c.key(n, f) + ' [get_next_point_on_sequence]', ok,
             c.where(n, f), '' if ok else 'the on-sequence step is used on a '
             'point that need not lie on this recurrence: instances on the '
             'other recurrences of the task are skipped')
    c.floor(R, 'calls of get_next_point_on_sequence seen', len(c.calls(
        None, 'get_next_point_on_sequence')), 3)
    td = c.func('taskdef', 'TaskDef.next_point_parentless')
    loops = [n for n in ast.walk(td.node) if isinstance(
        n, (ast.For, ast.comprehension)) and norm(n.iter) == 'self.sequences']
    c.exactly(R, f'{td.fq} :: loop over self.sequences', len(loops), 1)
    nxt = c.find(td, '_s.get_next_point(point)')
    c.floor(R, f'{td.fq} :: seq.get_next_point(point)', len(nxt), 1)
    for n in nxt:
        c.guard(R, n, ['!(point is None)'], td)
    first = c.find(td, '_s.get_first_point(cutoff)')
    c.floor(R, f'{td.fq} :: seq.get_first_point(cutoff)', len(first), 1)
    for n in first:
        c.guard(R, n, ['point is None'], td)
    adds = c.find(td, 'adjusted.append(next_point)')
    c.floor(R, f'{td.fq} :: candidates collected', len(adds), 1)
    for n in adds:
        c.guard_only(R, n, ['next_point',
                            'self.is_parentless(next_point, cutoff)'], td)
    rets = [r for r in ast.walk(td.node) if isinstance(r, ast.Return)
            and r.value is not None and norm(r.value) != 'None']
    c.floor(R, f'{td.fq} :: valued return', len(rets), 1)
    for r in rets:
        c.ob(R, c.key(r, td) + ' is the earliest candidate',
             norm(r.value) == 'min(adjusted)', c.where(r, td), norm(r.value))
    # sequential tasks: the next-instance child likewise
    gc = c.func('taskdef', 'generate_graph_children')
    seqn = [n for n in c.find(gc, '_s.get_next_point(point)')]
    c.floor(R, f'{gc.fq} :: seq.get_next_point(point)', len(seqn), 1)
    for n in seqn:
        lp = n
        comps = (ast.ListComp, ast.SetComp, ast.GeneratorExp)
        while id(lp) in c.idx.parent and not isinstance(
                lp, (ast.For,) + comps):
            lp = c.idx.parent[id(lp)]
        iters = [norm(lp.iter)] if isinstance(lp, ast.For) else [
            norm(g.iter) for g in lp.generators] if isinstance(
            lp, comps) else []
        c.ob(R, c.key(n, gc) + ' over every recurrence of the task',
             'tdef.sequences' in iters, c.where(n, gc), str(iters))
    # the auto-spawn of the next parentless instance uses it
    sp = c.func(TP, 'TaskPool.spawn_next_parentless')
    c.floor(R, f'{sp.fq} :: next_point_parentless', len(c.calls(
        sp, 'next_point_parentless')), 1)


def _completed_loop(c, n):
    cur = n
    while id(cur) in c.idx.parent:
        cur = c.idx.parent[id(cur)]
        if isinstance(cur, ast.For) and norm(cur.iter) == \
                'itask.state.outputs':
            names = [norm(e) for e in cur.target.elts] if isinstance(
                cur.target, ast.Tuple) else []
            if len(names) == 3 and names[1] == 'message' and names[
                    2] == 'is_completed':
                # incomplete outputs are skipped in completed-only mode
                # (`if completed_only and not is_completed: continue`, or
                # the rest of the iteration under the negated test): the
                # site is reached only with `not completed_only or
                # is_completed`
                from sa.pat import AnyOf
                return c.holds(n, AnyOf('!completed_only', 'is_completed'))
    return False


VARIANTS = [
    ('next-on-sequence-step', 'cylc/flow/taskdef.py',
     '                else seq.get_next_point(point)',
     '                else seq.get_next_point_on_sequence(point)',
     'C01.next-instance'),
    ('next-latest-candidate', 'cylc/flow/taskdef.py',
     '''        if adjusted:
            return min(adjusted)
        return None

    def is_parentless''', '''        if adjusted:
            return max(adjusted)
        return None

    def is_parentless''', 'C01.next-instance'),
    ('next-first-recurrence-only', 'cylc/flow/taskdef.py',
     '''        adjusted = []
        for seq in self.sequences:
            next_point = (''', '''        adjusted = []
        for seq in self.sequences[:1]:
            next_point = (''', 'C01.next-instance'),
    ('queue-unready', 'cylc/flow/task_pool.py',
     '''            and not itask.is_manual_submit
            and itask.is_ready_to_run()
        ):
            self.queue_task(itask)''', '''            and not itask.is_manual_submit
        ):
            self.queue_task(itask)''', 'C01.queue-gate'),
    ('ready-ignores-xtriggers', 'cylc/flow/task_proxy.py',
     '''            and self.state.external_triggers_all_satisfied()
            and self.state.xtriggers_all_satisfied()''',
     '''            and self.state.external_triggers_all_satisfied()''',
     'C01.readiness'),
    ('ready-any-prereq', 'cylc/flow/task_proxy.py',
     'return all(pre.is_satisfied() for pre in self.state.prerequisites)',
     'return any(pre.is_satisfied() for pre in self.state.prerequisites)',
     'C01.readiness'),
    ('submit-all-waiting', 'cylc/flow/scheduler.py',
     '''                for itask in self.pool.get_tasks()
                if itask.waiting_on_job_prep
            })''', '''                for itask in self.pool.get_tasks()
                if itask.waiting_on_job_prep or itask.is_manual_submit
            })''', 'C01.provenance'),
    ('release-while-paused', 'cylc/flow/scheduler.py',
     '''            if not self.is_paused:
                # release queued tasks
                pre_prep_tasks.update(self.pool.release_queued_tasks())''',
     '''            pre_prep_tasks.update(self.pool.release_queued_tasks())''',
     'C01.provenance'),
    ('satisfy-wrong-output', 'cylc/flow/task_pool.py',
     '''                    t.satisfy_me(
                        [itask.tokens.duplicate(task_sel=output)],''',
     '''                    t.satisfy_me(
                        [itask.tokens.duplicate(task_sel=TASK_OUTPUT_SUCCEEDED)],''',
     'C01.satisfy'),
    ('satisfy-incomplete', 'cylc/flow/task_pool.py',
     '''            if completed_only and not is_completed:
                continue
            try:
                children = itask.graph_children[message]''',
     '''            try:
                children = itask.graph_children[message]''', 'C01.satisfy'),
    ('second-door', 'cylc/flow/task_pool.py',
     '''        if itask.state_reset(is_held=False):
            self.data_store_mgr.delta_task_state(itask)
            if (not itask.state.is_runahead) and itask.is_ready_to_run():
                self.queue_task(itask)''',
     '''        if itask.state_reset(is_held=False):
            self.data_store_mgr.delta_task_state(itask)
            if not itask.state.is_runahead:
                self.queue_task(itask)''', 'C01.queue-gate'),
    ('prep-mark-elsewhere', 'cylc/flow/task_pool.py',
     '''        if itask.state_reset(is_queued=True):
            self.data_store_mgr.delta_task_state(itask)
            self.task_queue_mgr.push_task(itask)''',
     '''        if itask.state_reset(is_queued=True):
            self.data_store_mgr.delta_task_state(itask)
            self.task_queue_mgr.push_task(itask)
            itask.waiting_on_job_prep = True''', 'C01.provenance'),
]

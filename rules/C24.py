"""C24 Restricted expression evaluation cannot run arbitrary code."""
import ast

from sa.core import AnalysisError, norm
from sa.consts import known

TECHNIQUE = ('static analysis: CFG dominance of the whitelist visit over '
             'eval, argument-shape checks of eval/compile, who-may-call '
             'allow-list for eval/exec/compile, whitelist closure over the '
             'interpreter\'s ast class hierarchy')

CLAUSES = (
    'Decided: eval() in the restricted evaluator is dominated by the '
    'whitelist visit of the same parsed node that is compiled; globals is '
    "{'__builtins__': {}}; locals are exactly the supplied variables; the "
    'visitor rejects before descending and overrides no visit_* method; '
    'every restricted_evaluator(...) whitelist (and all concrete subclasses '
    'of its members) avoids the deny set; eval/exec/compile occur nowhere '
    'else except the prerequisite evaluator. Not decided: CPython\'s eval '
    'semantics (trusted).')

DENY_ALL = {
    'Call', 'Lambda', 'NamedExpr', 'ListComp', 'SetComp', 'DictComp',
    'GeneratorExp', 'Await', 'Yield', 'YieldFrom', 'JoinedStr',
    'FormattedValue', 'Starred',
}
DENY_COMPLETION = DENY_ALL | {'Attribute', 'Subscript'}
ABSTRACT = {'AST', 'expr', 'stmt', 'mod', 'expr_context'}


def _subclasses(cls):
    out = {cls}
    for s in cls.__subclasses__():
        out |= _subclasses(s)
    return out


def check(c):
    ev = c.func('util', 'restricted_evaluator._eval')
    outer = c.func('util', 'restricted_evaluator')
    evals = [n for n in c.calls(ev, 'eval') if isinstance(n.func, ast.Name)]
    c.exactly('C24.eval-site', 'eval() calls in _eval', len(evals), 1)
    for e in evals:
        key = c.key(e, ev)
        a0 = e.args[0] if e.args else None
        compiled = None
        if isinstance(a0, ast.Call) and isinstance(a0.func, ast.Name) and \
                a0.func.id == 'compile' and a0.args and isinstance(
                    a0.args[0], ast.Name):
            compiled = a0.args[0].id
        c.ob('C24.eval-compiles-checked-node', key, compiled is not None,
             c.where(e, ev), f'eval argument is compile({compiled}, ...)'
             if compiled else 'eval is not applied to compile(<checked '
             'node>): a string or re-parsed expression bypasses the visitor')
        if compiled is None:
            continue
        # the compiled name is assigned exactly once, from ast.parse(...)
        assigns = [n for n in ast.walk(ev.node) if isinstance(n, ast.Assign)
                   and any(isinstance(t, ast.Name) and t.id == compiled
                           for t in n.targets)]
        other_stores = [n for n in ast.walk(ev.node)
                        if isinstance(n, ast.Name) and n.id == compiled
                        and isinstance(n.ctx, ast.Store)]
        ok = (len(assigns) == 1 and len(other_stores) == 1 and c.find(
            assigns[0].value, 'ast.parse(*_)') != [] and isinstance(
            assigns[0].value, ast.Call))
        c.ob('C24.eval-compiles-checked-node',
             f'{ev.fq} :: {compiled} assigned once from ast.parse', ok,
             c.where(e, ev), '')
        # R-PRE: visitor.visit(<compiled>) dominates the eval
        visits = c.find(ev, f'_v.visit({compiled})')
        c.floor('C24.visit-before-eval', 'visitor.visit(expr_node) call',
                len(visits), 1)
        c.pre('C24.visit-before-eval', ev, e,
              c.matches(f'_.visit({compiled})'),
              f'whitelist visit of {compiled}')
        for v in visits:
            vname = norm(v.func.value)
            # the visitor object is RestrictedNodeVisitor(whitelist)
            src = [n for n in ast.walk(outer.node) if isinstance(
                n, ast.Assign) and norm(n.targets[0]) == vname]
            wl = outer.node.args.vararg.arg if outer.node.args.vararg else None
            ok = (len(src) == 1 and wl is not None and norm(src[0].value)
                  == f'RestrictedNodeVisitor({wl})')
            c.ob('C24.visitor-is-whitelist', c.key(v, ev), ok, c.where(v, ev),
                 f'{vname} = RestrictedNodeVisitor(*whitelist parameter)')
        # globals / locals
        g = e.args[1] if len(e.args) > 1 else None
        ok = (isinstance(g, ast.Dict) and len(g.keys) == 1
              and isinstance(g.keys[0], ast.Constant)
              and g.keys[0].value == '__builtins__'
              and isinstance(g.values[0], ast.Dict)
              and not g.values[0].keys)
        c.ob('C24.no-builtins', key + ' globals', ok, c.where(e, ev),
             "globals == {'__builtins__': {}}" if ok else
             f'globals argument is {norm(g) if g is not None else "absent"}')
        loc = e.args[2] if len(e.args) > 2 else None
        kw = ev.node.args.kwarg.arg if ev.node.args.kwarg else None
        ok = isinstance(loc, ast.Name) and loc.id == kw
        c.ob('C24.only-supplied-variables', key + ' locals', ok,
             c.where(e, ev), f'locals argument is **{kw}' if ok else
             f'locals argument is {norm(loc) if loc is not None else "absent"}')
        stores_kw = [n for n in ast.walk(ev.node) if isinstance(n, ast.Name)
                     and n.id == kw and isinstance(n.ctx, ast.Store)] + [
            n for n in c.find(ev, f'{kw}.update(*_)')
            + c.find(ev, f'{kw}.setdefault(*_)')] + [
            s for s in ast.walk(ev.node) if isinstance(s, ast.Subscript)
            and norm(s.value) == kw and isinstance(s.ctx, ast.Store)]
        c.ob('C24.only-supplied-variables',
             f'{ev.fq} :: {kw} is not extended', not stores_kw,
             c.where(e, ev), '')

    # --- the visitor
    cls = c.idx.cls('RestrictedNodeVisitor', 'util')
    bad = [m for m in cls.methods if m.startswith('visit_')
           or m == 'generic_visit']
    c.ob('C24.visitor-complete', 'util:RestrictedNodeVisitor :: no visit_* / '
         'generic_visit override', not bad, c.where(cls.node),
         f'overrides: {bad}' if bad else 'every child node is visited')
    c.ob('C24.visitor-complete', 'util:RestrictedNodeVisitor :: bases',
         cls.bases == ['NodeVisitor'], c.where(cls.node), str(cls.bases))
    vis = c.func('util', 'RestrictedNodeVisitor.visit')
    node_param = vis.node.args.args[1].arg
    sup = c.find(vis, f'super().visit({node_param})')
    c.floor('C24.visitor-rejects-first', 'super().visit(node)', len(sup), 1)
    for s in sup:
        c.guard('C24.visitor-rejects-first', s,
                [f'isinstance({node_param}, self._whitelist)'], vis)
    c.always('C24.visitor-rejects-first', vis,
             c.matches(f'super().visit({node_param})'),
             'descent into children (super().visit)')
    raises = [n for n in ast.walk(vis.node) if isinstance(n, ast.Raise)]
    c.floor('C24.visitor-rejects-first', 'raise in visit', len(raises), 1)
    wstores = c.stores('util', '_whitelist')
    init = c.func('util', 'RestrictedNodeVisitor.__init__')
    wparam = init.node.args.args[1].arg
    for s in wstores:
        f = c.owner(s.node)
        c.ob('C24.whitelist-immutable', c.key(s.node, f),
             f is init and s.kind == 'assign' and norm(s.value) == wparam,
             c.where(s.node, f), 'whitelist set once from the constructor '
             'argument')

    # --- whitelists at every call site
    sites = [n for n in c.calls(None, 'restricted_evaluator')]
    c.floor('C24.whitelist', 'restricted_evaluator(...) call sites',
            len(sites), 2)
    import ast as _ast
    for s in sites:
        st = c.idx.stmt_of(s)
        tname = norm(st.targets[0]) if isinstance(st, ast.Assign) else '?'
        deny = DENY_COMPLETION if tname == 'CompletionEvaluator' else DENY_ALL
        mod = c.idx.mod_of(s)
        for a in s.args:
            if isinstance(a, ast.Starred):
                c.ob('C24.whitelist', c.key(s) + ' *args', False, c.where(s),
                     'whitelist not statically enumerable')
                continue
            nm = None
            if isinstance(a, ast.Attribute) and isinstance(
                    a.value, ast.Name) and a.value.id == 'ast':
                nm = a.attr
            elif isinstance(a, ast.Name) and mod.imports.get(
                    a.id, ('', ''))[0] == 'ast':
                nm = mod.imports[a.id][1]
            cls_ = getattr(_ast, nm, None) if nm else None
            if cls_ is None or not isinstance(cls_, type):
                c.ob('C24.whitelist', c.key(s) + f' arg {norm(a)}', False,
                     c.where(a), 'not an ast node class literal')
                continue
            closure = {k.__name__ for k in _subclasses(cls_)}
            hit = sorted(closure & deny)
            ok = not hit and nm not in ABSTRACT
            c.ob('C24.whitelist', f'{tname} whitelists ast.{nm}', ok,
                 c.where(a), 'closure %s' % sorted(closure)[:6] if ok else
                 f'ast.{nm} admits denied node type(s) {hit or nm}')
    comp = [s for s in sites if isinstance(c.idx.stmt_of(s), ast.Assign)
            and norm(c.idx.stmt_of(s).targets[0]) == 'CompletionEvaluator']
    c.floor('C24.whitelist', 'CompletionEvaluator definition', len(comp), 1)

    # --- eval / exec / compile anywhere else
    allow = {
        ('eval', 'util:restricted_evaluator._eval'),
        ('compile', 'util:restricted_evaluator._eval'),
        ('eval', 'prerequisite:Prerequisite._eval_satisfied'),
    }
    n = 0
    for m in c.idx.modules.values():
        for node in ast.walk(m.tree):
            if isinstance(node, ast.Call) and isinstance(
                    node.func, ast.Name) and node.func.id in (
                    'eval', 'exec', 'compile', 'execfile'):
                f = c.owner(node)
                fq = f.fq if f else '<module>'
                n += 1
                c.ob('C24.eval-sites', c.key(node, f),
                     (node.func.id, fq) in allow, c.where(node, f),
                     f'{node.func.id}() in {fq}')
    c.floor('C24.eval-sites', 'eval/compile sites seen (positive control)',
            n, 3)
    # completion expressions are evaluated only by CompletionEvaluator
    to = c.idx.module('task_outputs')
    users = c.calls('task_outputs', 'CompletionEvaluator')
    c.floor('C24.completion-uses-evaluator',
            'CompletionEvaluator(...) uses in task_outputs', len(users), 2)
    for fn in ('get_optional_outputs', 'TaskOutputs.is_complete'):
        f = c.func('task_outputs', fn)
        c.ob('C24.completion-uses-evaluator', f'{f.fq} evaluates via '
             'CompletionEvaluator', bool(c.calls(f, 'CompletionEvaluator')),
             c.where(f.node, f), '')
    del to


VARIANTS = [
    ('eval-string', 'cylc/flow/util.py',
     "            compile(expr_node, '<string>', 'eval'),",
     "            compile(expr.strip(), '<string>', 'eval'),",
     'C24.eval-compiles-checked-node'),
    ('builtins-open', 'cylc/flow/util.py',
     "            {'__builtins__': {}},", "            {},",
     'C24.no-builtins'),
    ('visit-after', 'cylc/flow/util.py',
     '''        try:
            visitor.visit(expr_node)
        except _RestrictedEvalError as exc:''',
     '''        try:
            if len(expr) < 1000:
                visitor.visit(expr_node)
        except _RestrictedEvalError as exc:''',
     'C24.visit-before-eval'),
    ('whitelist-call', 'cylc/flow/task_outputs.py',
     '    ast.BoolOp, ast.And, ast.Or, ast.BinOp,',
     '    ast.BoolOp, ast.And, ast.Or, ast.BinOp, ast.Call,',
     'C24.whitelist'),
    ('whitelist-abstract', 'cylc/flow/task_outputs.py',
     '    ast.Name, ast.Load,', '    ast.expr, ast.Load,', 'C24.whitelist'),
    ('visitor-skip', 'cylc/flow/util.py',
     '''        return super().visit(node)


class _RestrictedEvalError''',
     '''        return super().visit(node)

    def visit_BinOp(self, node):
        return None


class _RestrictedEvalError''', 'C24.visitor-complete'),
    ('new-eval', 'cylc/flow/task_outputs.py',
     "    return output.replace('-', '_')\n",
     "    return eval(repr(output.replace('-', '_')))\n",
     'C24.eval-sites'),
    ('benign-rename', 'cylc/flow/util.py',
     "        return super().visit(node)\n\n\nclass _Restricted",
     "        result = super().visit(node)\n        return result\n\n\n"
     "class _Restricted", None),
]

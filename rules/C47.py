"""C47 Platform and host selection avoids unreachable hosts."""
import ast

from sa.core import AnalysisError, norm

TECHNIQUE = ('static analysis: reaching definitions of the candidate list '
             'handed to the selection method (every definition under a '
             'non-empty bad-host set is the filtered comprehension), guard '
             'dominance of the no-hosts / no-platforms raise and of the '
             'selection, table check that every selection method returns an '
             'element of its argument, iteration-order and full-match shape '
             'of the name lookup, who-may-call check that scheduler-side '
             'callers pass their bad-host set')

CLAUSES = (
    'Decided: get_host_from_platform hands the selection method a list that, '
    'whenever bad_hosts is non-empty, is exactly the platform hosts filtered '
    'by `not in bad_hosts`; it raises NoHostsError iff that list is empty and '
    'selects only from a non-empty list; get_platform_from_group does the '
    'same for the group members, dropping a member iff bad_hosts is a '
    'superset of its hosts, and raises NoPlatformsError iff none remain; '
    'every registered selection method returns an element of the list it is '
    'given; platform_from_name iterates platforms and groups in reversed '
    'definition order, tests each pattern with re.fullmatch against the '
    'requested name (comma lists rewritten to alternation) and returns a copy '
    'of the first (i.e. last-defined) match; it passes bad_hosts on to the '
    'group selection, get_platform passes it on to platform_from_name, and '
    'every scheduler-side object that owns a bad-host set passes it to '
    'get_host_from_platform. Not decided: regex semantics of user patterns.')

PL = 'platforms'


def _assignments(c, f, name):
    return [n for n in c.idx.walk(f.node) if isinstance(n, ast.Assign)
            and len(n.targets) == 1 and norm(n.targets[0]) == name]


def _selection(c, rule, f, source, member_ok, raise_name):
    """The shared shape of the two selection functions."""
    rets = [r for r in c.idx.walk(f.node) if isinstance(r, ast.Return)
            and r.value is not None and isinstance(r.value, ast.Call)
            and norm(r.value.func).startswith('HOST_SELECTION_METHODS[')]
    c.floor(rule, f'{f.name}: return HOST_SELECTION_METHODS[...](candidates)',
            len(rets), 1)
    for r in rets:
        call = r.value
        ok = len(call.args) == 1 and isinstance(call.args[0], ast.Name) \
            and not call.keywords
        c.ob(rule, c.key(r, f) + ' selects from a named candidate list', ok,
             c.where(r, f), '')
        if not ok:
            continue
        cand = call.args[0].id
        method = norm(call.func.slice)
        c.guard(rule, r, [cand, f'{method} in HOST_SELECTION_METHODS'], f,
                what='selection only from a non-empty list with a known '
                'method;')
        defs = _assignments(c, f, cand)
        c.floor(rule, f'{f.name}: definitions of {cand}', len(defs), 1)
        c.pre(rule, f, r, lambda n, cand=cand: isinstance(n, ast.Assign)
              and len(n.targets) == 1 and norm(n.targets[0]) == cand,
              f'a definition of {cand}')
        other = [n for n in c.idx.walk(f.node) if isinstance(
            n, (ast.AugAssign, ast.For, ast.With, ast.NamedExpr, ast.Delete))
            and any(isinstance(t, ast.Name) and t.id == cand and isinstance(
                t.ctx, (ast.Store, ast.Del)) for t in ast.walk(n)
                if not isinstance(n, ast.For) or t is n.target)]
        muts = [n for n in c.idx.walk(f.node) if isinstance(n, ast.Call)
                and isinstance(n.func, ast.Attribute) and norm(
                    n.func.value) == cand and n.func.attr in (
                    'append', 'extend', 'insert', 'add', 'update')]
        c.ob(rule, f'{f.fq} :: {cand} is defined only by plain assignments',
             not other and not muts, c.where(f.node, f),
             '; '.join(norm(n)[:60] for n in other + muts))
        filtered = 0
        for d in defs:
            v = d.value
            if c.holds(d, 'bad_hosts'):
                good = False
                why = 'not a filtering comprehension'
                if isinstance(v, (ast.ListComp, ast.GeneratorExp)) and \
                        len(v.generators) == 1:
                    g = v.generators[0]
                    var = norm(g.target)
                    good = (norm(v.elt) == var and norm(g.iter) == source
                            and len(g.ifs) >= 1
                            and any(member_ok(i, var) for i in g.ifs)
                            and not g.is_async)
                    extra = [i for i in g.ifs if not member_ok(i, var)]
                    if good and extra:
                        good = False
                        why = ('additional filter(s) ' + ', '.join(
                            norm(i) for i in extra))
                    elif not good:
                        why = (f'comprehension over {norm(g.iter)} with '
                               f'filters {[norm(i) for i in g.ifs]}')
                filtered += good
                c.ob(rule, c.key(d, f) + ' [candidates when some hosts are '
                     'bad]', good, c.where(d, f),
                     'exactly the members not known to be unreachable' if good
                     else f'{why}: a member known to be unreachable can be '
                     'selected while another is available (or an available '
                     'one is wrongly dropped)')
            else:
                c.guard(rule, d, ['!bad_hosts'], f,
                        what='the unfiltered list is used only when no host '
                        'is known to be bad;')
                c.ob(rule, c.key(d, f) + ' [candidates when no host is bad]',
                     norm(v) == source, c.where(d, f), norm(v))
        c.floor(rule, f'{f.name}: filtered definition under bad_hosts',
                filtered, 1)
        raises = [n for n in c.idx.walk(f.node) if isinstance(n, ast.Raise)
                  and n.exc is not None and isinstance(n.exc, ast.Call)
                  and norm(n.exc.func) == raise_name]
        c.exactly(rule, f'{f.name}: raise {raise_name}', len(raises), 1)
        for n in raises:
            c.guard(rule, n, [f'!{cand}'], f,
                    what='the error is raised only when none remain;')
            c.guard_only(rule, n, [f'!{cand}'], f)
            ok = c.cfg(f).dominated_by(
                r, lambda s, b=c.idx.parent[id(n)]: s is b)
            c.ob(rule, c.key(r, f) + f' after the `not {cand}` test', ok,
                 c.where(r, f), '')
    others = [r for r in c.idx.walk(f.node) if isinstance(r, ast.Return)
              and r not in rets]
    c.ob(rule, f'{f.fq} :: every return goes through a selection method',
         not others, c.where(f.node, f),
         '; '.join(norm(r)[:60] for r in others))


def check(c):
    gh = c.func(PL, 'get_host_from_platform')

    def host_ok(test, var):
        return norm(test) in (f'{var} not in bad_hosts',
                              f'not {var} in bad_hosts')
    _selection(c, 'C47.host-filter', gh, "platform['hosts']", host_ok,
               'NoHostsError')

    gg = c.func(PL, 'get_platform_from_group')

    def group_ok(test, var):
        h = f"platform_from_name({var})['hosts']"
        return norm(test) in (
            f'not bad_hosts.issuperset({h})',
            f'not set({h}).issubset(bad_hosts)',
            f'not set({h}) <= bad_hosts',
            f'any((h not in bad_hosts for h in {h}))',
        )
    _selection(c, 'C47.group-filter', gg, "group['platforms']", group_ok,
               'NoPlatformsError')

    # ---- selection methods return an element of their argument
    node = c.K.mod_attr_node(PL, 'HOST_SELECTION_METHODS')
    if not isinstance(node, ast.Dict):
        raise AnalysisError('platforms.HOST_SELECTION_METHODS is not a dict '
                            'literal')
    c.floor('C47.selectors', 'selection methods', len(node.keys), 2)
    for k, v in zip(node.keys, node.values):
        ok = False
        if isinstance(v, ast.Lambda) and len(v.args.args) == 1 and isinstance(
                v.body, ast.Subscript) and norm(v.body.value) == \
                v.args.args[0].arg and isinstance(v.body.slice, ast.Constant) \
                and isinstance(v.body.slice.value, int):
            ok = True
        elif norm(v) in ('random.choice', 'choice'):
            ok = True
        c.ob('C47.selectors', f'{PL}:HOST_SELECTION_METHODS[{norm(k)}] '
             'returns an element of its argument', ok, c.where(v),
             norm(v))

    # ---- name lookup
    pf = c.func(PL, 'platform_from_name')
    loops = [n for n in c.idx.walk(pf.node) if isinstance(n, ast.For)]
    rev = {'platforms': None, 'platform_groups': None}
    for lp in loops:
        it = norm(lp.iter)
        for coll in rev:
            if it in (f'reversed(list({coll}))', f'reversed({coll})',
                      f'list({coll})[::-1]', f'reversed({coll}.keys())',
                      f'reversed(list({coll}.keys()))'):
                rev[coll] = lp
    for coll, lp in rev.items():
        c.ob('C47.last-defined', f'{pf.fq} :: {coll} searched in reversed '
             'definition order', lp is not None, c.where(pf.node, pf), '')
    # every full-name test in the function is a fullmatch on the requested
    # name; the only other regex use is the localhost sanity check
    for n in c.idx.walk(pf.node):
        if isinstance(n, ast.Call) and isinstance(n.func, ast.Attribute) and \
                norm(n.func.value) == 're' and n.func.attr in (
                    'match', 'search', 'fullmatch', 'findall') and \
                len(n.args) >= 2 and norm(n.args[1]) == 'platform_name':
            c.ob('C47.last-defined', c.key(n, pf) + ' matches the whole name',
                 n.func.attr == 'fullmatch', c.where(n, pf),
                 f're.{n.func.attr}')
    lp = rev['platforms']
    if lp is not None:
        var = norm(lp.target)
        rets = [r for r in ast.walk(lp) if isinstance(r, ast.Return)]
        c.floor('C47.last-defined', 'return inside the platforms loop',
                len(rets), 1)
        for r in rets:
            c.guard('C47.last-defined', r, [
                f're.fullmatch(_, platform_name)'], pf,
                what='only a fully matching pattern is returned;')
            tests = [n for n in ast.walk(lp) if isinstance(n, ast.Call)
                     and norm(n.func) == 're.fullmatch']
            for t in tests:
                p = t.args[0]
                ok = norm(p) == var or (
                    isinstance(p, ast.Call) and norm(p.func) == 're.sub'
                    and len(p.args) == 3 and norm(p.args[2]) == var
                    and norm(p.args[1]) == "'|'")
                c.ob('C47.last-defined', c.key(t, pf) + ' tests the '
                     'platform\'s own pattern', ok, c.where(t, pf), norm(p))
            c.ob('C47.last-defined', c.key(r, pf) + ' returns the matched '
                 'platform\'s data', isinstance(r.value, ast.Name),
                 c.where(r, pf), '')
            if isinstance(r.value, ast.Name):
                data = r.value.id
                c.pre('C47.last-defined', pf, r, lambda n, d=data, v=var: (
                    isinstance(n, ast.Assign) and norm(n.targets[0]) == d
                    and norm(n.value) in (f'deepcopy(platforms[{v}])',
                                          f'platforms[{v}]',
                                          f'copy(platforms[{v}])',
                                          f'dict(platforms[{v}])')),
                    f'{data} = copy of platforms[{var}]')
        # nothing skips a candidate before it is tested
        skips = [n for n in ast.walk(lp) if isinstance(
            n, (ast.Continue, ast.Break))]
        c.ob('C47.last-defined', f'{pf.fq} :: no candidate is skipped',
             not skips, c.where(lp, pf), '')
    lg = rev['platform_groups']
    if lg is not None:
        var = norm(lg.target)
        sel = [n for n in ast.walk(lg) if isinstance(n, ast.Call)
               and norm(n.func) == 'get_platform_from_group']
        c.floor('C47.last-defined', 'group selection in the groups loop',
                len(sel), 1)
        for n in sel:
            c.guard('C47.last-defined', n, [
                f're.fullmatch({var}, platform_name)'], pf)
            kw = {k.arg: norm(k.value) for k in n.keywords}
            c.ob('C47.pass-bad-hosts', c.key(n, pf) + ' passes bad_hosts',
                 kw.get('bad_hosts') == 'bad_hosts' or (
                     len(n.args) >= 3 and norm(n.args[2]) == 'bad_hosts'),
                 c.where(n, pf), '')
            c.ob('C47.last-defined', c.key(n, pf) + ' uses the matched '
                 'group', bool(n.args) and norm(n.args[0]) ==
                 f'platform_groups[{var}]', c.where(n, pf), '')
            st = c.idx.stmt_of(n)
            body = c.idx.parent[id(st)]
            nxt = getattr(body, 'body', [])
            i = next((k for k, s in enumerate(nxt) if s is st), None)
            # a `break` follows in the same block (statements in between,
            # e.g. logging, are fine as long as they are straight-line)
            ok = False
            if i is not None:
                for s in nxt[i + 1:]:
                    if isinstance(s, ast.Break):
                        ok = True
                        break
                    if not isinstance(s, (ast.Expr, ast.Assign,
                                          ast.AnnAssign, ast.AugAssign)):
                        break
            c.ob('C47.last-defined', c.key(n, pf) + ' stops at the first '
                 '(last-defined) matching group', ok, c.where(n, pf), '')

    # ---- bad hosts are passed down
    calls =[n for n in c.calls(PL, 'platform_from_name')
             if c.owner(n) is not None and c.owner(n).name == 'get_platform']
    c.floor('C47.pass-bad-hosts', 'platform_from_name calls in get_platform',
            len(calls), 3)
    for n in calls:
        f = c.owner(n)
        if not n.args and not n.keywords:
            continue    # localhost: no group, nothing to avoid
        kw = {k.arg: norm(k.value) for k in n.keywords}
        c.ob('C47.pass-bad-hosts', c.key(n, f) + ' passes bad_hosts',
             kw.get('bad_hosts') == 'bad_hosts', c.where(n, f), '')
    owners = {'task_job_mgr': 'TaskJobManager',
              'task_remote_mgr': 'TaskRemoteMgr',
              'task_events_mgr': 'TaskEventsManager'}
    total = 0
    for mod, cls in owners.items():
        for n in c.calls(mod, 'get_host_from_platform'):
            f = c.owner(n)
            if f is None or f.cls is None or f.cls.name != cls:
                continue
            total += 1
            kw = {k.arg: norm(k.value) for k in n.keywords}
            val = kw.get('bad_hosts') or (
                norm(n.args[1]) if len(n.args) > 1 else None)
            c.ob('C47.pass-bad-hosts', c.key(n, f) + ' passes its bad-host '
                 'set', val == 'self.bad_hosts', c.where(n, f),
                 f'bad_hosts={val}')
    c.floor('C47.pass-bad-hosts', 'scheduler-side get_host_from_platform '
            'calls', total, 8)


VARIANTS = [
    ('host-filter-inverted', 'cylc/flow/platforms.py',
     "goodhosts = [i for i in platform['hosts'] if i not in bad_hosts]",
     "goodhosts = [i for i in platform['hosts'] if i in bad_hosts]",
     'C47.host-filter'),
    ('host-filter-dropped', 'cylc/flow/platforms.py',
     "goodhosts = [i for i in platform['hosts'] if i not in bad_hosts]",
     "goodhosts = list(platform['hosts'])", 'C47.host-filter'),
    ('host-select-from-all', 'cylc/flow/platforms.py',
     'return HOST_SELECTION_METHODS[method](goodhosts)',
     "return HOST_SELECTION_METHODS[method](platform['hosts'])",
     'C47.host-filter'),
    ('host-raise-when-any-bad', 'cylc/flow/platforms.py',
     '''    if not goodhosts:
        raise NoHostsError(platform)''',
     '''    if not goodhosts or bad_hosts:
        raise NoHostsError(platform)''', 'C47.host-filter'),
    ('host-no-raise', 'cylc/flow/platforms.py',
     '''    if not goodhosts:
        raise NoHostsError(platform)
''', '''    if not goodhosts:
        goodhosts = platform['hosts']
''', 'C47.host-filter'),
    ('group-subset-inverted', 'cylc/flow/platforms.py',
     "if not bad_hosts.issuperset(platform_from_name(platform)['hosts'])",
     "if not bad_hosts.issubset(platform_from_name(platform)['hosts'])",
     'C47.group-filter'),
    ('group-any-bad-excluded', 'cylc/flow/platforms.py',
     "if not bad_hosts.issuperset(platform_from_name(platform)['hosts'])",
     "if bad_hosts.isdisjoint(platform_from_name(platform)['hosts'])",
     'C47.group-filter'),
    ('group-select-all', 'cylc/flow/platforms.py',
     'return HOST_SELECTION_METHODS[method](platform_names)',
     "return HOST_SELECTION_METHODS[method](group['platforms'])",
     'C47.group-filter'),
    ('selector-constant', 'cylc/flow/platforms.py',
     "'definition order': lambda goodhosts: goodhosts[0],",
     "'definition order': lambda goodhosts: 'localhost',",
     'C47.selectors'),
    ('first-defined-wins', 'cylc/flow/platforms.py',
     '''    for platform_name_re in reversed(list(platforms)):
        # We substitute''', '''    for platform_name_re in list(platforms):
        # We substitute''', 'C47.last-defined'),
    ('prefix-match', 'cylc/flow/platforms.py',
     '''        if re.fullmatch(
            re.sub(''', '''        if re.match(
            re.sub(''', 'C47.last-defined'),
    ('group-prefix-match', 'cylc/flow/platforms.py',
     '        if re.fullmatch(platform_name_re, platform_name):',
     '        if re.match(platform_name_re, platform_name):',
     'C47.last-defined'),
    ('group-no-break', 'cylc/flow/platforms.py',
     '''                bad_hosts=bad_hosts
            )
            break
''', '''                bad_hosts=bad_hosts
            )
''', 'C47.last-defined'),
    ('group-drops-bad-hosts', 'cylc/flow/platforms.py',
     '''                platform_groups[platform_name_re], group_name=platform_name,
                bad_hosts=bad_hosts
            )''',
     '''                platform_groups[platform_name_re], group_name=platform_name,
            )''', 'C47.pass-bad-hosts'),
    ('caller-drops-bad-hosts', 'cylc/flow/task_job_mgr.py',
     '''                host = get_host_from_platform(
                    platform, bad_hosts=self.bad_hosts
                )
            except NoHostsError:''',
     '''                host = get_host_from_platform(platform)
            except NoHostsError:''', 'C47.pass-bad-hosts'),
    ('wrong-platform-data', 'cylc/flow/platforms.py',
     '            platform_data = deepcopy(platforms[platform_name_re])',
     "            platform_data = deepcopy(platforms['localhost'])",
     'C47.last-defined'),
    ('benign-filter-style', 'cylc/flow/platforms.py',
     "goodhosts = [i for i in platform['hosts'] if i not in bad_hosts]",
     "goodhosts = [h for h in platform['hosts'] if not h in bad_hosts]",
     None),
]
